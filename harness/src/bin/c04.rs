//! C04 correspondence: the real `Package::get_function::<F>(name)` on a
//! macro-generated family of Rust function types × generated script
//! signatures, against (a) the documented Roto→Rust mapping (oracle, written
//! here independently) and (b) the Lean model over the generated gate
//! (`c04 get …` requests to the driver).
//!
//! usage: c04 run <seed> <quick|thorough>
//!        c04 worker <seed> <tier> <from> <n>
//!        c04 replay <json>
//!
//! A real `Ok` where the mapping says the types differ, or a real refusal of
//! the true signature, is an impl violation (the key names the mismatch
//! class); model ≠ real is a model mismatch.

#[path = "../c04/family.rs"]
mod family;

use family::{Bar, Entry, Foo, Outcome, RT, family};
use roto::{FileTree, NoCtx, Package, Runtime, Val, library};
use rotov_harness::driver::{Driver, hex};
use rotov_harness::{Prng, Report};
use serde_json::{Value, json};
use std::collections::BTreeSet;

// ------------------------------------------------------------ script types

#[derive(Clone, Debug, PartialEq, Eq, Hash)]
enum ST {
    Prim(&'static str),
    Unit,
    Never,
    /// host-registered: 0 = Foo, 1 = Bar
    Reg(u8),
    /// anonymous record `{a: i32, b: String}`
    Rec,
    /// script-declared `record R0 { a: i32 }`
    NRec,
    /// script-declared `enum E0 { A, B(u8) }`
    NEnum,
    /// an unconstrained integer / float literal type (filtermap payloads only)
    IntLit,
    FloatLit,
    Opt(Box<ST>),
    List(Box<ST>),
    Res(Box<ST>, Box<ST>),
    Ver(Box<ST>, Box<ST>),
}

const PRIMS: [&str; 16] = [
    "bool", "char", "u8", "u16", "u32", "u64", "i8", "i16", "i32", "i64", "f32", "f64", "Asn", "IpAddr",
    "Prefix", "String",
];

impl ST {
    fn src(&self, p: &mut Prng) -> String {
        match self {
            ST::Prim(n) => n.to_string(),
            ST::Unit => "()".into(),
            ST::Never => "!".into(),
            ST::Reg(0) => "Foo".into(),
            ST::Reg(_) => "Bar".into(),
            ST::Rec => "{a: i32, b: String}".into(),
            ST::NRec => "R0".into(),
            ST::NEnum => "E0".into(),
            ST::IntLit | ST::FloatLit => unreachable!("literal types have no syntax"),
            ST::Opt(t) => {
                if p.chance(1, 2) {
                    format!("{}?", t.src(p))
                } else {
                    format!("Option[{}]", t.src(p))
                }
            }
            ST::List(t) => format!("List[{}]", t.src(p)),
            ST::Res(a, b) => format!("Result[{}, {}]", a.src(p), b.src(p)),
            ST::Ver(a, b) => format!("Verdict[{}, {}]", a.src(p), b.src(p)),
        }
    }

    /// for the Lean driver
    fn sexp(&self) -> String {
        let named = |n: &str, args: &[&ST]| {
            let mut s = format!("(n g #{}", hex(n));
            for a in args {
                s.push(' ');
                s.push_str(&a.sexp());
            }
            s.push(')');
            s
        };
        match self {
            ST::Prim(n) => named(n, &[]),
            ST::Unit => "unit".into(),
            ST::Never => "never".into(),
            ST::Reg(0) => named("Foo", &[]),
            ST::Reg(_) => named("Bar", &[]),
            ST::Rec => "(record 0)".into(),
            ST::NRec => format!("(n 1 #{})", hex("R0")),
            ST::NEnum => format!("(n 1 #{})", hex("E0")),
            ST::IntLit => "intvar".into(),
            ST::FloatLit => "floatvar".into(),
            ST::Opt(t) => named("Option", &[t]),
            ST::List(t) => named("List", &[t]),
            ST::Res(a, b) => named("Result", &[a, b]),
            ST::Ver(a, b) => named("Verdict", &[a, b]),
        }
    }

    /// The documented mapping (oracle): primitives by name, `String` ↦
    /// `RotoString`, `()` ↦ `()`, constructors structurally, a registered type
    /// ↦ its `Val<T>`, unconstrained literals ↦ `i32` / `f64`; records, enums
    /// and `!` have no Rust counterpart.
    fn map(&self) -> Option<RT> {
        Some(match self {
            ST::Prim("String") => RT::Leaf("RotoString"),
            ST::Prim(n) => RT::Leaf(n),
            ST::Unit => RT::Leaf("()"),
            ST::IntLit => RT::Leaf("i32"),
            ST::FloatLit => RT::Leaf("f64"),
            ST::Reg(k) => RT::Val(*k),
            ST::Never | ST::Rec | ST::NRec | ST::NEnum => return None,
            ST::Opt(t) => RT::Opt(Box::new(t.map()?)),
            ST::List(t) => RT::List(Box::new(t.map()?)),
            ST::Res(a, b) => RT::Res(Box::new(a.map()?), Box::new(b.map()?)),
            ST::Ver(a, b) => RT::Ver(Box::new(a.map()?), Box::new(b.map()?)),
        })
    }

    fn count_nodes(&self) -> usize {
        match self {
            ST::Opt(t) | ST::List(t) => 1 + t.count_nodes(),
            ST::Res(a, b) | ST::Ver(a, b) => 1 + a.count_nodes() + b.count_nodes(),
            _ => 1,
        }
    }

    /// Rewrite the `k`-th node (pre-order) with `f`.
    fn rewrite(&self, k: &mut usize, f: &mut dyn FnMut(&ST) -> ST) -> ST {
        if *k == 0 {
            *k = usize::MAX;
            return f(self);
        }
        if *k != usize::MAX {
            *k -= 1;
        }
        match self {
            ST::Opt(t) => ST::Opt(Box::new(t.rewrite(k, f))),
            ST::List(t) => ST::List(Box::new(t.rewrite(k, f))),
            ST::Res(a, b) => {
                let a2 = a.rewrite(k, f);
                ST::Res(Box::new(a2), Box::new(b.rewrite(k, f)))
            }
            ST::Ver(a, b) => {
                let a2 = a.rewrite(k, f);
                ST::Ver(Box::new(a2), Box::new(b.rewrite(k, f)))
            }
            other => other.clone(),
        }
    }
}

/// The script type a Rust type is the image of; `Val<Unreg>` has none — the
/// nearest script type (`Foo`) is used and the pair is a near miss.
fn unmap(r: &RT) -> ST {
    match r {
        RT::Leaf("RotoString") => ST::Prim("String"),
        RT::Leaf("()") => ST::Unit,
        RT::Leaf(n) => ST::Prim(PRIMS.iter().find(|p| *p == n).expect("leaf name")),
        RT::Val(1) => ST::Reg(1),
        RT::Val(_) => ST::Reg(0),
        RT::Opt(t) => ST::Opt(Box::new(unmap(t))),
        RT::List(t) => ST::List(Box::new(unmap(t))),
        RT::Res(a, b) => ST::Res(Box::new(unmap(a)), Box::new(unmap(b))),
        RT::Ver(a, b) => ST::Ver(Box::new(unmap(a)), Box::new(unmap(b))),
    }
}

fn rt_sexp(r: &RT) -> String {
    match r {
        RT::Leaf(n) => format!("(leaf #{})", hex(n)),
        RT::Val(k) => format!("(val {})", 100 + *k as u32),
        RT::Opt(t) => format!("(option {})", rt_sexp(t)),
        RT::List(t) => format!("(list {})", rt_sexp(t)),
        RT::Res(a, b) => format!("(result {} {})", rt_sexp(a), rt_sexp(b)),
        RT::Ver(a, b) => format!("(verdict {} {})", rt_sexp(a), rt_sexp(b)),
    }
}

/// A leaf "close" to `n`: other signedness, adjacent width, other float, …
fn near_leaf(p: &mut Prng, t: &ST) -> ST {
    let near: &[&'static str] = match t {
        ST::Prim("u8") => &["i8", "u16", "char", "bool"],
        ST::Prim("u16") => &["i16", "u8", "u32"],
        ST::Prim("u32") => &["i32", "u16", "u64", "Asn", "f32", "char"],
        ST::Prim("u64") => &["i64", "u32", "f64"],
        ST::Prim("i8") => &["u8", "i16"],
        ST::Prim("i16") => &["u16", "i8", "i32"],
        ST::Prim("i32") => &["u32", "i16", "i64", "f32"],
        ST::Prim("i64") => &["u64", "i32", "f64"],
        ST::Prim("f32") => &["f64", "u32", "i32"],
        ST::Prim("f64") => &["f32", "u64", "i64"],
        ST::Prim("bool") => &["u8", "char"],
        ST::Prim("char") => &["u32", "u8", "String"],
        ST::Prim("Asn") => &["u32", "Prefix"],
        ST::Prim("IpAddr") => &["Prefix", "u32", "String"],
        ST::Prim("Prefix") => &["IpAddr", "Asn"],
        ST::Prim("String") => &["char", "u8"],
        _ => &[],
    };
    let roll = p.below(10);
    match t {
        ST::Unit => [ST::Prim("bool"), ST::Prim("u8"), ST::Never, ST::Rec][p.below(4) as usize].clone(),
        ST::Reg(k) if roll < 6 => ST::Reg(1 - *k),
        ST::Reg(_) => [ST::NRec, ST::NEnum, ST::Prim("u32")][p.below(3) as usize].clone(),
        _ if roll == 0 => ST::Unit,
        _ if roll == 1 => ST::Reg(p.below(2) as u8),
        _ if !near.is_empty() && roll < 8 => ST::Prim(*p.pick(near)),
        _ => ST::Prim(*p.pick(&PRIMS[..])),
    }
}

// ---------------------------------------------------------- declarations

#[derive(Clone, Debug, PartialEq)]
enum Side {
    Unused,
    NoPayload,
    Param(usize),
    IntLit,
    FloatLit,
}

#[derive(Clone, Debug)]
enum Kind {
    Fn,
    Filtermap(Side, Side),
    Test,
}

#[derive(Clone, Debug)]
struct Decl {
    name: String,
    kind: Kind,
    params: Vec<ST>,
    /// the signature's return type (for a filtermap: the forced verdict)
    ret: ST,
    /// how the signature was derived from its target
    label: &'static str,
    /// family index the signature was derived from
    target: usize,
}

impl Decl {
    fn key(&self) -> String {
        match self.kind {
            Kind::Test => format!("pkg.test#{}", self.name),
            _ => format!("pkg.{}", self.name),
        }
    }
    /// the name to ask `get_function` for
    fn ask(&self) -> String {
        self.key()["pkg.".len()..].to_string()
    }

    fn side_ty(&self, s: &Side) -> ST {
        match s {
            Side::Unused | Side::NoPayload => ST::Unit,
            Side::Param(i) => self.params[*i].clone(),
            Side::IntLit => ST::IntLit,
            Side::FloatLit => ST::FloatLit,
        }
    }

    fn src(&self, p: &mut Prng) -> String {
        let params: Vec<String> =
            self.params.iter().enumerate().map(|(i, t)| format!("p{i}: {}", t.src(p))).collect();
        let names: Vec<String> = (0..self.params.len()).map(|i| format!("p{i}")).collect();
        match &self.kind {
            Kind::Fn => {
                let ret = if self.ret == ST::Unit && p.chance(1, 2) {
                    String::new()
                } else {
                    format!(" -> {}", self.ret.src(p))
                };
                format!(
                    "fn {n}({ps}){ret} {{ {n}({args}) }}\n",
                    n = self.name,
                    ps = params.join(", "),
                    args = names.join(", ")
                )
            }
            Kind::Filtermap(a, r) => {
                let stmt = |kw: &str, s: &Side| match s {
                    Side::Unused => None,
                    Side::NoPayload => Some(kw.to_string()),
                    Side::Param(i) => Some(format!("{kw} p{i}")),
                    Side::IntLit => Some(format!("{kw} 1")),
                    Side::FloatLit => Some(format!("{kw} 1.5")),
                };
                let body = match (stmt("accept", a), stmt("reject", r)) {
                    (Some(x), Some(y)) => format!("if true {{ {x} }} else {{ {y} }}"),
                    (Some(x), None) => x,
                    (None, Some(y)) => y,
                    (None, None) => unreachable!(),
                };
                format!("filtermap {}({}) {{ {body} }}\n", self.name, params.join(", "))
            }
            Kind::Test => format!("test {} {{ accept }}\n", self.name),
        }
    }

    fn sexp(&self) -> String {
        format!(
            "(fn #{} ({}) {})",
            hex(&self.key()),
            self.params.iter().map(|t| t.sexp()).collect::<Vec<_>>().join(" "),
            self.ret.sexp()
        )
    }

    fn show(&self) -> String {
        let mut p = Prng::new(0);
        self.src(&mut p).trim().to_string()
    }
}

/// Derive a script signature from a family entry by one of the near-miss
/// transformations (or none: the true signature).
fn variant(p: &mut Prng, e: &Entry, which: u64) -> (Vec<ST>, ST, &'static str) {
    let mut params: Vec<ST> = e.args.iter().map(unmap).collect();
    let mut ret = unmap(&e.ret);
    let n = params.len();
    // pick a position: n = return
    let pos = p.below(n as u64 + 1) as usize;
    let mut at = |params: &mut Vec<ST>, ret: &mut ST, f: &mut dyn FnMut(&ST) -> ST, p: &mut Prng| {
        let t = if pos == n { &*ret } else { &params[pos] };
        let mut k = p.below(t.count_nodes() as u64) as usize;
        let t2 = t.rewrite(&mut k, f);
        if pos == n {
            *ret = t2;
        } else {
            params[pos] = t2;
        }
    };
    let label = match which {
        0 => "exact",
        1 => {
            // one leaf changed
            let t = if pos == n { ret.clone() } else { params[pos].clone() };
            let mut k = k_of_leaf(&t, p);
            let sd = p.next();
            let t3 = t.rewrite(&mut k, &mut |x: &ST| near_leaf(&mut Prng::new(sd), x));
            if pos == n {
                ret = t3;
            } else {
                params[pos] = t3;
            }
            "leaf-changed"
        }
        2 => {
            // one nesting level added or removed
            let wrap = p.below(4);
            at(
                &mut params,
                &mut ret,
                &mut |x: &ST| match (x, wrap) {
                    (ST::Opt(t), 0) | (ST::List(t), 0) => (**t).clone(),
                    (ST::Res(a, _), 0) | (ST::Ver(a, _), 0) => (**a).clone(),
                    (_, 1) => ST::List(Box::new(x.clone())),
                    (_, 2) => ST::Res(Box::new(x.clone()), Box::new(ST::Unit)),
                    _ => ST::Opt(Box::new(x.clone())),
                },
                p,
            );
            "nesting-changed"
        }
        3 => {
            // swap the arguments of one Result/Verdict, or the constructor
            let mut hit = false;
            for _ in 0..6 {
                at(
                    &mut params,
                    &mut ret,
                    &mut |x: &ST| match x {
                        ST::Res(a, b) if a != b => {
                            hit = true;
                            ST::Res(b.clone(), a.clone())
                        }
                        ST::Ver(a, b) if a != b => {
                            hit = true;
                            ST::Ver(b.clone(), a.clone())
                        }
                        _ => x.clone(),
                    },
                    p,
                );
                if hit {
                    break;
                }
            }
            if hit {
                "swapped-type-args"
            } else if n >= 2 {
                let i = p.below(n as u64) as usize;
                let j = (i + 1 + p.below(n as u64 - 1) as usize) % n;
                params.swap(i, j);
                "swapped-params"
            } else {
                "exact"
            }
        }
        4 => {
            at(
                &mut params,
                &mut ret,
                &mut |x: &ST| match x {
                    ST::Res(a, b) => ST::Ver(a.clone(), b.clone()),
                    ST::Ver(a, b) => ST::Res(a.clone(), b.clone()),
                    ST::Opt(t) => ST::List(t.clone()),
                    ST::List(t) => ST::Opt(t.clone()),
                    other => ST::Opt(Box::new(other.clone())),
                },
                p,
            );
            "constructor-changed"
        }
        5 => {
            if n > 0 {
                let i = if p.chance(1, 2) { n - 1 } else { p.below(n as u64) as usize };
                params.remove(i);
                "arity-minus-1"
            } else {
                params.push(ST::Prim("u8"));
                "arity-plus-1"
            }
        }
        6 => {
            let extra = if n > 0 && p.chance(1, 2) {
                params[p.below(n as u64) as usize].clone()
            } else {
                ST::Prim(*p.pick(&PRIMS[..]))
            };
            if p.chance(1, 2) {
                params.push(extra);
            } else {
                params.insert(p.below(n as u64 + 1) as usize, extra);
            }
            "arity-plus-1"
        }
        7 => {
            if n >= 2 {
                let i = p.below(n as u64) as usize;
                let j = (i + 1 + p.below(n as u64 - 1) as usize) % n;
                params.swap(i, j);
                "swapped-params"
            } else {
                ret = near_leaf(p, &ST::Unit);
                "return-changed"
            }
        }
        8 => {
            // a type with no Rust counterpart somewhere
            let repl = [ST::Rec, ST::NRec, ST::NEnum][p.below(3) as usize].clone();
            if pos == n && p.chance(1, 3) {
                ret = ST::Never;
            } else {
                at(&mut params, &mut ret, &mut |_x: &ST| repl.clone(), p);
            }
            "roto-only-type"
        }
        _ => {
            // independent random signature of the same arity
            for t in params.iter_mut() {
                *t = random_st(p, 2);
            }
            ret = random_st(p, 2);
            "random"
        }
    };
    (params, ret, label)
}

/// pre-order index of a random leaf node
fn k_of_leaf(t: &ST, p: &mut Prng) -> usize {
    fn leaves(t: &ST, idx: &mut usize, out: &mut Vec<usize>) {
        let me = *idx;
        *idx += 1;
        match t {
            ST::Opt(x) | ST::List(x) => leaves(x, idx, out),
            ST::Res(a, b) | ST::Ver(a, b) => {
                leaves(a, idx, out);
                leaves(b, idx, out);
            }
            _ => out.push(me),
        }
    }
    let mut out = vec![];
    leaves(t, &mut 0, &mut out);
    *p.pick(&out)
}

fn random_st(p: &mut Prng, depth: u32) -> ST {
    let roll = p.below(if depth == 0 { 10 } else { 16 });
    match roll {
        0..=6 => ST::Prim(*p.pick(&PRIMS[..])),
        7 => ST::Unit,
        8 => ST::Reg(p.below(2) as u8),
        9 => [ST::Rec, ST::NRec, ST::NEnum][p.below(3) as usize].clone(),
        10 | 11 => ST::Opt(Box::new(random_st(p, depth - 1))),
        12 | 13 => ST::List(Box::new(random_st(p, depth - 1))),
        14 => ST::Res(Box::new(random_st(p, depth - 1)), Box::new(random_st(p, depth - 1))),
        _ => ST::Ver(Box::new(random_st(p, depth - 1)), Box::new(random_st(p, depth - 1))),
    }
}

// ------------------------------------------------------------ the runtime

fn runtime() -> Runtime<NoCtx> {
    Runtime::from_lib(library! {
        /// a registered type
        #[clone] type Foo = Val<Foo>;
        /// another registered type
        #[clone] type Bar = Val<Bar>;
    })
    .expect("runtime")
}

const PRELUDE: &str = "record R0 { a: i32 }\nenum E0 { A, B(u8) }\n";
const ENV: &str = "(env (rt g #466f6f 100) (rt g #426172 101))";

// --------------------------------------------------------------- outcomes

/// Canonical outcome string shared with the Lean driver.
fn canon(o: &Outcome) -> String {
    match o {
        Outcome::Ok => "ok".into(),
        Outcome::Panic => "panic".into(),
        Outcome::Err(d) => {
            if d.starts_with("DoesNotExist") {
                "dne".into()
            } else if let Some(rest) = d.strip_prefix("IncorrectNumberOfArguments { expected: ") {
                let nums: Vec<&str> = rest.trim_end_matches(" }").split(", got: ").collect();
                format!("arity {} {}", nums[0], nums.get(1).copied().unwrap_or("?"))
            } else if let Some(rest) = d.strip_prefix("TypeMismatch(\"argument ") {
                format!("arg {}", rest.split('"').next().unwrap_or("?"))
            } else if d.starts_with("TypeMismatch(\"the return value\"") {
                "ret".into()
            } else {
                format!("unparsed:{d}")
            }
        }
    }
}

/// keys of `Module.functions`, read off a `DoesNotExist` error
fn existing_keys(pkg: &mut Package<NoCtx>) -> Vec<String> {
    match family::probe::<fn() -> ()>(pkg, "\u{1}no-such-function") {
        Outcome::Err(d) if d.starts_with("DoesNotExist") => {
            let Some(i) = d.find("existing: [") else { return vec![] };
            let mut keys: Vec<String> =
                d[i..].split('"').skip(1).step_by(2).map(|s| s.to_string()).collect();
            keys.sort();
            keys
        }
        _ => vec![],
    }
}

/// Where the expected Rust type (image of the script type) and the requested
/// one differ: the mismatch class used in violation keys.
fn tdiff(want: &Option<RT>, got: &RT) -> String {
    let Some(w) = want else { return "roto-only-type".into() };
    fn ctor(r: &RT) -> &'static str {
        match r {
            RT::Leaf(_) => "leaf",
            RT::Val(_) => "Val",
            RT::Opt(_) => "Option",
            RT::List(_) => "List",
            RT::Res(..) => "Result",
            RT::Ver(..) => "Verdict",
        }
    }
    fn leaf_class(a: &str, b: &str) -> &'static str {
        let int = |s: &str| (s.starts_with('u') || s.starts_with('i')) && s[1..].parse::<u32>().is_ok();
        if int(a) && int(b) {
            if a[1..] == b[1..] { "signedness" } else if a[..1] == b[..1] { "width" } else { "signedness+width" }
        } else if a.starts_with('f') && b.starts_with('f') && a.len() == 3 && b.len() == 3 {
            "float-width"
        } else if a == "()" || b == "()" {
            "unit"
        } else {
            "other-leaf"
        }
    }
    match (w, got) {
        (RT::Leaf(a), RT::Leaf(b)) if a != b => format!("leaf:{}", leaf_class(a, b)),
        (RT::Val(a), RT::Val(b)) if a != b => {
            if *b == 2 { "unregistered-type".into() } else { "other-registered-type".into() }
        }
        (RT::Opt(a), RT::Opt(b)) | (RT::List(a), RT::List(b)) if a != b => {
            format!("{}/{}", ctor(w), tdiff(&Some((**a).clone()), b))
        }
        (RT::Res(a1, a2), RT::Res(b1, b2)) | (RT::Ver(a1, a2), RT::Ver(b1, b2)) if w != got => {
            if a1 == b2 && a2 == b1 {
                format!("swapped-args:{}", ctor(w))
            } else if a1 != b1 {
                format!("{}.0/{}", ctor(w), tdiff(&Some((**a1).clone()), b1))
            } else {
                format!("{}.1/{}", ctor(w), tdiff(&Some((**a2).clone()), b2))
            }
        }
        _ if w == got => "same".into(),
        _ => format!("ctor:{}->{}", ctor(w), ctor(got)),
    }
}

/// `None`: the documented mapping makes `e` the true Rust type of `d`.
fn mismatch_class(d: &Decl, e: &Entry) -> Option<String> {
    if d.params.len() != e.args.len() {
        return Some(format!("arity:{}->{}", d.params.len(), e.args.len()));
    }
    for (i, (t, r)) in d.params.iter().zip(&e.args).enumerate() {
        let w = t.map();
        if w.as_ref() != Some(r) {
            return Some(format!("arg{}:{}", i + 1, tdiff(&w, r)));
        }
    }
    let w = d.ret.map();
    if w.as_ref() != Some(&e.ret) {
        return Some(format!("ret:{}", tdiff(&w, &e.ret)));
    }
    None
}

/// the mismatch class without its position: `arg3:Option/leaf:width` ↦ `arg:leaf:width`
fn key_class(c: &str) -> String {
    if c.starts_with("arity") {
        return "arity".into();
    }
    let (pos, rest) = c.split_once(':').unwrap_or((c, ""));
    let pos = pos.trim_end_matches(|ch: char| ch.is_ascii_digit());
    let last = rest.rsplit('/').next().unwrap_or(rest);
    if rest.is_empty() { pos.to_string() } else { format!("{pos}:{last}") }
}

// ------------------------------------------------------------ one script

struct Script {
    src: String,
    decls: Vec<Decl>,
}

struct Pair {
    /// index into `decls`, or `None` for a name probe
    decl: Option<usize>,
    name: String,
    entry: usize,
    label: String,
}

fn gen_script(fam: &[Entry], seed: u64, index: u64, thorough: bool) -> (Script, Vec<Pair>) {
    let mut p = Prng::for_case(seed, index);
    let targets_n = 8usize;
    let variants_n = if thorough { 7 } else { 5 };
    let mut decls: Vec<Decl> = vec![];
    let mut pairs: Vec<Pair> = vec![];
    let mut targets: Vec<usize> = vec![];
    fn has_binary(r: &RT) -> bool {
        match r {
            RT::Res(a, b) | RT::Ver(a, b) => a != b || has_binary(a) || has_binary(b),
            RT::Opt(t) | RT::List(t) => has_binary(t),
            _ => false,
        }
    }
    let pick_where = |p: &mut Prng, f: &dyn Fn(&Entry) -> bool| -> usize {
        for _ in 0..64 {
            let i = p.below(fam.len() as u64) as usize;
            if f(&fam[i]) {
                return i;
            }
        }
        p.below(fam.len() as u64) as usize
    };
    for j in 0..targets_n {
        // a stride coprime to the family size walks the whole family; the other
        // targets are drawn from the filtermap-shaped, binary-constructor and
        // deep entries, or at random
        let t = match j {
            0 | 2 | 4 | 6 => ((index as usize * 4 + j / 2) * 389 + (seed as usize % 997)) % fam.len(),
            1 => pick_where(&mut p, &|e| e.group == "fm"),
            3 => pick_where(&mut p, &|e| e.args.iter().chain(std::iter::once(&e.ret)).any(has_binary)),
            5 => pick_where(&mut p, &|e| e.args.iter().chain(std::iter::once(&e.ret)).any(|r| r.depth() >= 2)),
            _ => p.below(fam.len() as u64) as usize,
        };
        targets.push(t);
    }
    for (j, &t) in targets.iter().enumerate() {
        let e = &fam[t];
        let fm_shaped = e.group == "fm" || (matches!(e.ret, RT::Ver(..)) && p.chance(1, 2));
        for v in 0..variants_n {
            let which = if v == 0 { 0 } else { 1 + p.below(9) };
            let (params, ret, label) = variant(&mut p, e, which);
            let name = format!("q{}", decls.len());
            // a filtermap instead of a fn when the (variant's) return type is a
            // verdict whose sides can be produced by the body
            let mut kind = Kind::Fn;
            let mut ret2 = ret.clone();
            let mut label2 = label;
            if fm_shaped {
                if let ST::Ver(a, r) = &ret {
                    let side = |s: &ST, p: &mut Prng| -> Option<Side> {
                        if *s == ST::Unit {
                            return Some(if p.chance(1, 2) { Side::Unused } else { Side::NoPayload });
                        }
                        let cands: Vec<usize> =
                            params.iter().enumerate().filter(|(_, t)| *t == s).map(|(i, _)| i).collect();
                        if !cands.is_empty() {
                            return Some(Side::Param(*p.pick(&cands)));
                        }
                        match s {
                            ST::Prim("i32") => Some(Side::IntLit),
                            ST::Prim("f64") => Some(Side::FloatLit),
                            _ => None,
                        }
                    };
                    if let (Some(sa), Some(sr)) = (side(a, &mut p), side(r, &mut p)) {
                        if !(sa == Side::Unused && sr == Side::Unused) {
                            kind = Kind::Filtermap(sa, sr);
                            label2 = match label {
                                "exact" => "filtermap-exact",
                                _ => "filtermap-near",
                            };
                        }
                    }
                }
            }
            let mut d = Decl { name, kind, params, ret: ret2.clone(), label: label2, target: t };
            if let Kind::Filtermap(a, r) = &d.kind {
                ret2 = ST::Ver(Box::new(d.side_ty(a)), Box::new(d.side_ty(r)));
                d.ret = ret2;
            }
            // the pair with its own target, and with one or two other targets
            let di = decls.len();
            pairs.push(Pair { decl: Some(di), name: d.ask(), entry: t, label: d.label.to_string() });
            // … and with other family members, mostly of the same arity
            let ar = d.params.len();
            let other = if p.chance(1, 4) {
                targets[(j + 1 + p.below(targets_n as u64 - 1) as usize) % targets_n]
            } else {
                pick_where(&mut p, &|e| e.args.len() == ar)
            };
            pairs.push(Pair { decl: Some(di), name: d.ask(), entry: other, label: format!("cross:{}", d.label) });
            if thorough || p.chance(1, 3) {
                let r = pick_where(&mut p, &|e| e.args.len() == ar && e.ret == fam[t].ret);
                pairs.push(Pair { decl: Some(di), name: d.ask(), entry: r, label: format!("cross:{}", d.label) });
            }
            decls.push(d);
        }
    }
    // a filtermap with an unused side for a random fm-shaped target's parameter list
    // (covered above); one test
    let td = Decl { name: "t0".into(), kind: Kind::Test, params: vec![], ret: ST::Ver(Box::new(ST::Unit), Box::new(ST::Unit)), label: "test", target: 0 };
    let ti = decls.len();
    decls.push(td);
    // `fn() -> Verdict<(), ()>` is in the family (light, ret0)
    let tv = fam
        .iter()
        .position(|e| e.args.is_empty() && e.ret == RT::Ver(Box::new(RT::Leaf("()")), Box::new(RT::Leaf("()"))))
        .expect("fn() -> Verdict<(), ()> in family");
    pairs.push(Pair { decl: Some(ti), name: "test#t0".into(), entry: tv, label: "test-exact".into() });
    for _ in 0..3 {
        let r = if p.chance(1, 2) { targets[p.below(targets_n as u64) as usize] } else { p.below(fam.len() as u64) as usize };
        pairs.push(Pair { decl: Some(ti), name: "test#t0".into(), entry: r, label: "test-other".into() });
    }
    // name probes: unknown names under the true type of an existing function
    let d0 = 0usize;
    for nm in ["nope", "pkg.q0", "Q0", "q0 ", "", "t0", "test#", "q0.q0"] {
        pairs.push(Pair { decl: None, name: nm.to_string(), entry: decls[d0].target, label: "unknown-name".into() });
    }
    let mut src = String::from(PRELUDE);
    for d in &decls {
        src.push_str(&d.src(&mut p));
    }
    (Script { src, decls }, pairs)
}

fn lean_request(s: &Script, helpers: &[String], pair: &Pair, e: &Entry, p: &mut Prng) -> String {
    let mut fns = String::new();
    let mut seen = BTreeSet::new();
    if let Some(di) = pair.decl {
        fns.push_str(&s.decls[di].sexp());
        seen.insert(di);
    }
    for _ in 0..3 {
        let k = p.below(s.decls.len() as u64) as usize;
        if seen.insert(k) {
            fns.push(' ');
            fns.push_str(&s.decls[k].sexp());
        }
    }
    // name probes must see every declared key
    if pair.decl.is_none() {
        for (k, d) in s.decls.iter().enumerate() {
            if seen.insert(k) {
                fns.push(' ');
                fns.push_str(&d.sexp());
            }
        }
    }
    for h in helpers.iter().take(if pair.decl.is_none() { 50 } else { 2 }) {
        fns.push_str(&format!(" (helper #{})", hex(h)));
    }
    let sx = format!(
        "(get {ENV} (fns {fns}) #{} (rust ({}) {}))",
        hex(&pair.name),
        e.args.iter().map(rt_sexp).collect::<Vec<_>>().join(" "),
        rt_sexp(&e.ret)
    );
    format!("c04 get {}", hex(&sx))
}

fn run_script(fam: &[Entry], rt: &Runtime<NoCtx>, drv: &mut Driver, rep: &mut Report, seed: u64, index: u64, thorough: bool) {
    let (script, mut pairs) = gen_script(fam, seed, index, thorough);
    let compiled = std::panic::catch_unwind(std::panic::AssertUnwindSafe(|| {
        FileTree::test_file("c04.roto", &script.src, 0).compile(rt).map_err(|e| e.to_string())
    }));
    let mut pkg = match compiled {
        Ok(Ok(p)) => p,
        Ok(Err(e)) => {
            rep.hist("script", "does-not-compile");
            if rep.notes.len() < 5 {
                let plain: String = e.chars().filter(|c| c.is_ascii() && !c.is_ascii_control() || *c == '\n').collect();
                rep.notes.push(format!("script {index} does not compile: {}", plain.lines().take(6).collect::<Vec<_>>().join(" | ")));
            }
            return;
        }
        Err(_) => {
            rep.hist("script", "compiler-panic");
            return;
        }
    };
    rep.hist("script", "compiled");
    // the module's real name table
    let keys = existing_keys(&mut pkg);
    let declared: BTreeSet<String> = script.decls.iter().map(|d| d.key()).collect();
    let helpers: Vec<String> = keys.iter().filter(|k| !declared.contains(*k)).cloned().collect();
    let real_pkg: BTreeSet<String> = keys.iter().filter(|k| k.starts_with("pkg.")).cloned().collect();
    if real_pkg != declared {
        rep.mismatch(
            "the module's `pkg.` keys differ from the declared functions (model of the name table)",
            json!({"seed": seed, "index": index, "real": real_pkg, "declared": declared}),
        );
    }
    // helper names: ask for them verbatim and without a leading separator
    let mut p = Prng::for_case(seed ^ 0xC04, index);
    for h in helpers.iter().take(4) {
        let e = p.below(fam.len() as u64) as usize;
        pairs.push(Pair { decl: None, name: h.clone(), entry: e, label: "helper-name".into() });
        pairs.push(Pair { decl: None, name: h.trim_start_matches("pkg.").trim_start_matches(':').to_string(), entry: e, label: "helper-name".into() });
    }
    rep.hist("helpers", if helpers.is_empty() { "none" } else { "some" });

    let reqs: Vec<String> = pairs.iter().map(|pr| lean_request(&script, &helpers, pr, &fam[pr.entry], &mut p)).collect();
    let answers = drv.ask_all(&reqs);
    for (pr, ans) in pairs.iter().zip(&answers) {
        let e = &fam[pr.entry];
        let real = (e.probe)(&mut pkg, &pr.name);
        let real_s = canon(&real);
        rep.evaluations += 1;
        let (model_s, spec_s) = match ans.rsplit_once(' ') {
            Some((m, s)) => (m.to_string(), s.to_string()),
            None => (ans.clone(), String::new()),
        };
        // oracle: the documented mapping, independently
        let (exists, class) = match pr.decl {
            Some(di) => (true, mismatch_class(&script.decls[di], e)),
            None => (false, Some(if pr.label == "helper-name" { "generated-helper".to_string() } else { "unknown-name".to_string() })),
        };
        let expected_ok = exists && class.is_none();
        let input = || {
            json!({
                "seed": seed, "index": index,
                "script": script.src,
                "function": pr.decl.map(|di| script.decls[di].show()),
                "name": pr.name,
                "rust_type": e.show(),
                "label": pr.label,
                "expected": if expected_ok { "ok".to_string() } else { format!("refused ({})", class.clone().unwrap_or_default()) },
                "real": real_s, "model": model_s,
            })
        };
        if real == Outcome::Ok && !expected_ok {
            rep.violation(
                "get_function returned a callable handle under a Rust type that is not the image of the script signature",
                &format!("accepts-wrong-signature:{}", key_class(&class.clone().unwrap_or_default())),
                input(),
            );
        } else if real != Outcome::Ok && expected_ok {
            rep.violation(
                "get_function refused the true Rust signature of a script function",
                &format!(
                    "refuses-true-signature:{}:{}",
                    match &script.decls[pr.decl.unwrap()].kind { Kind::Fn => "fn", Kind::Filtermap(..) => "filtermap", Kind::Test => "test" },
                    real_s.split(' ').next().unwrap_or("")
                ),
                input(),
            );
        } else if real == Outcome::Panic {
            rep.violation(
                "get_function panicked instead of returning an error",
                &format!("panics:{}", key_class(&class.clone().unwrap_or_default())),
                input(),
            );
        }
        if real_s != model_s {
            rep.mismatch("model and implementation disagree on get_function", input());
        }
        if (spec_s == "spec-ok") != expected_ok {
            rep.mismatch("the Lean `mapping` (spec side of get_function_iff) and the harness oracle disagree", input());
        }
        // distribution
        let kind = real_s.split(' ').next().unwrap_or("").to_string();
        rep.hist("label", pr.label.clone());
        rep.hist("outcome", kind.clone());
        rep.hist("rust-arity", e.args.len().to_string());
        rep.hist("rust-depth", e.args.iter().chain(std::iter::once(&e.ret)).map(|r| r.depth()).max().unwrap_or(0).to_string());
        if let Some(c) = &class {
            // drop positions so the histogram stays small
            let c2: String = c.split(':').skip(1).collect::<Vec<_>>().join(":");
            let c3 = c2.rsplit('/').next().unwrap_or("").to_string();
            rep.hist("mismatch-class", if c.starts_with("arity") { "arity".to_string() } else if c3.is_empty() { c.clone() } else { c3 });
            rep.hist("mismatch-depth", c2.matches('/').count().to_string());
        } else if exists {
            rep.hist("mismatch-class", "none (true signature)");
        }
        rep.class(format!("{}|{}|{}|a{}", pr.label, kind, class.clone().unwrap_or_else(|| "true".into()), e.args.len()));
        if pr.decl.is_some() && (expected_ok || pr.label.starts_with("swapped") || pr.label == "leaf-changed") {
            rep.sample(json!({"function": script.decls[pr.decl.unwrap()].show(), "rust_type": e.show(), "label": pr.label, "real": real_s, "model": model_s}));
        }
    }
}

fn main() {
    let args: Vec<String> = std::env::args().collect();
    std::panic::set_hook(Box::new(|_| {}));
    let mut rep = Report::default();
    match args.get(1).map(|s| s.as_str()) {
        Some("run") => {
            let seed: u64 = args.get(2).and_then(|s| s.parse().ok()).unwrap_or(1);
            let thorough = args.get(3).map(|s| s == "thorough").unwrap_or(false);
            let tier = if thorough { "thorough" } else { "quick" };
            let scripts: u64 = if thorough { 1000 } else { 42 };
            let seed_s = seed.to_string();
            use rotov_harness::worker::{Ended, run_batches};
            run_batches(
                &[&seed_s, tier],
                scripts,
                if thorough { 125 } else { 42 },
                std::time::Duration::from_secs(1500),
                &mut rep,
                |rep: &mut Report, idx: u64, how: &Ended| {
                    let fam = family();
                    let (s, _) = gen_script(&fam, seed, idx, thorough);
                    rep.violation(
                        "process died while compiling a script of declarations or while retrieving functions from it",
                        "crash",
                        json!({"seed": seed, "index": idx, "script": s.src, "ended": format!("{how:?}")}),
                    );
                },
            );
            rep.notes.push(format!("family: {} Rust function types", family().len()));
        }
        Some("worker") => {
            let seed: u64 = args[2].parse().unwrap();
            let thorough = args[3] == "thorough";
            let from: u64 = args[4].parse().unwrap();
            let n: u64 = args[5].parse().unwrap();
            let fam = family();
            let rt = runtime();
            let mut drv = Driver::spawn().expect("lean driver");
            if from == 0 {
                rep.notes.push(format!("lean tables: {}", drv.ask("c04 tables")));
            }
            for i in from..from + n {
                println!("START {i}");
                run_script(&fam, &rt, &mut drv, &mut rep, seed, i, thorough);
            }
        }
        Some("replay") => {
            // {script, name, rust_type}: compile, ask, compare with the oracle stored in the file
            let v: Value = serde_json::from_str(&args[2]).expect("replay json");
            let fam = family();
            let rt = runtime();
            let src = v["script"].as_str().expect("script");
            let name = v["name"].as_str().expect("name");
            let ty = v["rust_type"].as_str().expect("rust_type");
            let e = fam.iter().find(|e| e.show() == ty).expect("rust type in family");
            let mut pkg = FileTree::test_file("c04.roto", src, 0).compile(&rt).map_err(|e| e.to_string()).expect("compiles");
            let real = canon(&(e.probe)(&mut pkg, name));
            let expected_ok = v["expected"].as_str() == Some("ok");
            println!("function : {}", v["function"].as_str().unwrap_or("-"));
            println!("request  : get_function::<{ty}>({name:?})");
            println!("expected : {}", v["expected"].as_str().unwrap_or("?"));
            println!("real     : {real}");
            rep.evaluations = 1;
            if (real == "ok") != expected_ok || real == "panic" {
                rep.violation("replayed: the gate's answer differs from the documented mapping", v["label"].as_str().unwrap_or("replay"), v.clone());
            }
        }
        _ => {
            eprintln!("usage: c04 run <seed> <quick|thorough> | c04 replay <json>");
            std::process::exit(64);
        }
    }
    rep.emit();
}

#[allow(dead_code)]
fn _unused(_: Foo, _: Bar, _: Val<Foo>) {}
