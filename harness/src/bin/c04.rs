//! C04 correspondence: the real `Package::get_function::<F>(name)` on a
//! macro-generated family of Rust function types × generated script
//! signatures, against (a) the documented Roto→Rust mapping (oracle, written
//! here independently) and (b) the Lean model over the generated gate
//! (`c04 get …` requests to the driver).
//!
//! usage: c04 run <seed> <quick|thorough>
//!        c04 worker <seed> <tier> <from> <n>
//!        c04 replay <json>
//!        c04 gen <seed> <tier> <index>
//!
//! A real `Ok` where the mapping says the types differ, or a real refusal of
//! the true signature, is an impl violation (the key names the mismatch
//! class); model ≠ real is a model mismatch.

#[path = "../c04/family.rs"]
mod family;

use family::{Bar, Entry, Foo, Outcome, RT, family};
use roto::{FileTree, NoCtx, Package, Runtime, Val, library};
use rotov_harness::driver::{Driver, hex};
use rotov_harness::{Prng, Report};
use serde_json::{Value, json};
use std::collections::{BTreeMap, BTreeSet};

// ------------------------------------------------------------ script types

#[derive(Clone, Debug, PartialEq, Eq, Hash)]
enum ST {
    Prim(&'static str),
    Unit,
    Never,
    /// host-registered: 0 = Foo, 1 = Bar
    Reg(u8),
    /// anonymous record `{a: i32, b: String}`
    Rec,
    /// script-declared `record R0 { a: i32 }`
    NRec,
    /// script-declared `enum E0 { A, B(u8) }`
    NEnum,
    /// an unconstrained integer / float literal type (filtermap payloads only)
    IntLit,
    FloatLit,
    /// a type variable nothing resolves (filtermap payloads only: the element
    /// type of `None` / `[]`, the other side of a lone `Ok(…)`); no Rust counterpart
    Hole,
    /// script-declared `record`/`enum` that bears a name the language reserves
    /// in the global scope (`record i64 { … }`, `enum Option[T] { … }`): the
    /// type `pkg.<name>[args]`, which has no Rust counterpart
    Shadow(&'static str, Vec<ST>),
    Opt(Box<ST>),
    List(Box<ST>),
    Res(Box<ST>, Box<ST>),
    Ver(Box<ST>, Box<ST>),
}

const PRIMS: [&str; 16] = [
    "bool", "char", "u8", "u16", "u32", "u64", "i8", "i16", "i32", "i64", "f32", "f64", "Asn", "IpAddr",
    "Prefix", "String",
];

/// Names the language reserves in the global scope (the 16 leaf names and the
/// four constructors): a type of the same *identifier* in another scope is a
/// different type.
const CTORS: [&str; 4] = ["Option", "List", "Result", "Verdict"];

/// scope number of the script's own `pkg` module in driver requests
const PKG_SCOPE: u32 = 1;

/// The host environments scripts are compiled against: how `Val<Foo>` (k = 0)
/// and `Val<Bar>` (k = 1) are registered — (path prefix in script source,
/// scope number for the driver (0 = global), identifier). Environments 1..3
/// register them inside runtime modules under names of primitives and
/// constructors.
const ENVS: [[(&str, u32, &str); 2]; 4] = [
    [("", 0, "Foo"), ("", 0, "Bar")],
    [("foo.", 2, "u32"), ("foo.", 2, "String")],
    [("", 0, "Foo"), ("net.", 2, "i64")],
    [("foo.", 2, "Option"), ("foo.bar.", 3, "bool")],
];

fn scope_sexp(scope: u32) -> String {
    if scope == 0 { "g".into() } else { scope.to_string() }
}

/// What a script is compiled in: the host environment and the reserved names
/// the script itself re-declares (`(name, is_enum)`).
#[derive(Clone, Debug, Default)]
struct Cx {
    env: usize,
    shadow: Vec<(&'static str, bool)>,
}

impl Cx {
    fn reg_path(&self, k: u8) -> String {
        let (prefix, _, ident) = ENVS[self.env][k as usize % 2];
        format!("{prefix}{ident}")
    }
    /// the Rust leaf whose Roto name is the identifier `Val<…>` number `k` is registered under
    fn reg_named_like(&self, k: u8) -> Option<&'static str> {
        let (_, scope, ident) = ENVS[self.env][k as usize % 2];
        if scope == 0 {
            return None;
        }
        PRIMS.iter().find(|p| **p == ident).map(|p| if *p == "String" { "RotoString" } else { *p })
    }
    fn env_sexp(&self) -> String {
        let e = ENVS[self.env];
        format!(
            "(env (rt {} #{} 100) (rt {} #{} 101))",
            scope_sexp(e[0].1),
            hex(e[0].2),
            scope_sexp(e[1].1),
            hex(e[1].2)
        )
    }
    fn shadowed(&self, n: &str) -> Option<&'static str> {
        self.shadow.iter().find(|s| s.0 == n).map(|s| s.0)
    }
    /// the declarations of the re-declared reserved names
    fn shadow_decls(&self) -> String {
        let mut out = String::new();
        // a field type that is not itself re-declared
        let fill = ["u64", "bool", "u8", "i32"].into_iter().find(|n| self.shadowed(n).is_none()).unwrap_or("u16");
        for (n, is_enum) in &self.shadow {
            let arity = match *n {
                "Option" | "List" => 1,
                "Result" | "Verdict" => 2,
                _ => 0,
            };
            out.push_str(&match (is_enum, arity) {
                (false, 0) => format!("record {n} {{ a: {fill}, b: {fill} }}\n"),
                (false, 1) => format!("record {n}[T] {{ a: T }}\n"),
                (false, _) => format!("record {n}[T, E] {{ a: T, b: E }}\n"),
                (true, 0) => format!("enum {n} {{ A, B({fill}) }}\n"),
                (true, 1) => format!("enum {n}[T] {{ A(T), B }}\n"),
                (true, _) => format!("enum {n}[T, E] {{ A(T), B(E) }}\n"),
            });
        }
        out
    }
    /// What a type written in the script's source denotes: every occurrence of
    /// a re-declared name is the script's own type.
    fn shadowize(&self, t: &ST) -> ST {
        if self.shadow.is_empty() {
            return t.clone();
        }
        let bx = |t: &ST| Box::new(self.shadowize(t));
        match t {
            ST::Prim(n) => match self.shadowed(n) {
                Some(n) => ST::Shadow(n, vec![]),
                None => t.clone(),
            },
            ST::Opt(x) => match self.shadowed("Option") {
                Some(n) => ST::Shadow(n, vec![self.shadowize(x)]),
                None => ST::Opt(bx(x)),
            },
            ST::List(x) => match self.shadowed("List") {
                Some(n) => ST::Shadow(n, vec![self.shadowize(x)]),
                None => ST::List(bx(x)),
            },
            ST::Res(a, b) => match self.shadowed("Result") {
                Some(n) => ST::Shadow(n, vec![self.shadowize(a), self.shadowize(b)]),
                None => ST::Res(bx(a), bx(b)),
            },
            ST::Ver(a, b) => match self.shadowed("Verdict") {
                Some(n) => ST::Shadow(n, vec![self.shadowize(a), self.shadowize(b)]),
                None => ST::Ver(bx(a), bx(b)),
            },
            ST::Shadow(n, args) => ST::Shadow(n, args.iter().map(|a| self.shadowize(a)).collect()),
            other => other.clone(),
        }
    }
}

impl ST {
    /// why the type has no Rust counterpart (for violation keys)
    fn why_none(&self) -> &'static str {
        match self {
            ST::Shadow(n, _) if CTORS.contains(n) => "script-type-named-like-constructor",
            ST::Shadow(..) => "script-type-named-like-primitive",
            ST::Hole => "unresolved-type-variable",
            ST::Opt(t) | ST::List(t) => t.why_none(),
            ST::Res(a, b) | ST::Ver(a, b) => {
                if a.map().is_none() { a.why_none() } else { b.why_none() }
            }
            _ => "roto-only-type",
        }
    }

    fn src(&self, p: &mut Prng, cx: &Cx) -> String {
        match self {
            ST::Prim(n) => n.to_string(),
            ST::Unit => "()".into(),
            ST::Never => "!".into(),
            ST::Reg(k) => cx.reg_path(*k),
            ST::Shadow(n, args) if args.is_empty() => n.to_string(),
            ST::Shadow(n, args) => {
                format!("{n}[{}]", args.iter().map(|a| a.src(p, cx)).collect::<Vec<_>>().join(", "))
            }
            ST::Rec => "{a: i32, b: String}".into(),
            ST::NRec => "R0".into(),
            ST::NEnum => "E0".into(),
            ST::IntLit | ST::FloatLit | ST::Hole => unreachable!("literal types and unresolved variables have no syntax"),
            ST::Opt(t) => {
                if p.chance(1, 2) {
                    format!("{}?", t.src(p, cx))
                } else {
                    format!("Option[{}]", t.src(p, cx))
                }
            }
            ST::List(t) => format!("List[{}]", t.src(p, cx)),
            ST::Res(a, b) => format!("Result[{}, {}]", a.src(p, cx), b.src(p, cx)),
            ST::Ver(a, b) => format!("Verdict[{}, {}]", a.src(p, cx), b.src(p, cx)),
        }
    }

    /// for the Lean driver
    fn sexp(&self, cx: &Cx) -> String {
        let named = |n: &str, args: &[&ST]| {
            let mut s = format!("(n g #{}", hex(n));
            for a in args {
                s.push(' ');
                s.push_str(&a.sexp(cx));
            }
            s.push(')');
            s
        };
        match self {
            ST::Prim(n) => named(n, &[]),
            ST::Unit => "unit".into(),
            ST::Never => "never".into(),
            ST::Reg(k) => {
                let (_, scope, ident) = ENVS[cx.env][*k as usize % 2];
                format!("(n {} #{})", scope_sexp(scope), hex(ident))
            }
            ST::Shadow(n, args) => {
                let mut s = format!("(n {PKG_SCOPE} #{}", hex(n));
                for a in args {
                    s.push(' ');
                    s.push_str(&a.sexp(cx));
                }
                s.push(')');
                s
            }
            ST::Rec => "(record 0)".into(),
            ST::NRec => format!("(n {PKG_SCOPE} #{})", hex("R0")),
            ST::NEnum => format!("(n {PKG_SCOPE} #{})", hex("E0")),
            ST::IntLit => "intvar".into(),
            ST::FloatLit => "floatvar".into(),
            ST::Hole => "(var 7)".into(),
            ST::Opt(t) => named("Option", &[t]),
            ST::List(t) => named("List", &[t]),
            ST::Res(a, b) => named("Result", &[a, b]),
            ST::Ver(a, b) => named("Verdict", &[a, b]),
        }
    }

    /// The documented mapping (oracle): primitives by name, `String` ↦
    /// `RotoString`, `()` ↦ `()`, constructors structurally, a registered type
    /// ↦ its `Val<T>`, unconstrained literals ↦ `i32` / `f64`; records, enums
    /// and `!` have no Rust counterpart.
    fn map(&self) -> Option<RT> {
        Some(match self {
            ST::Prim("String") => RT::Leaf("RotoString"),
            ST::Prim(n) => RT::Leaf(n),
            ST::Unit => RT::Leaf("()"),
            ST::IntLit => RT::Leaf("i32"),
            ST::FloatLit => RT::Leaf("f64"),
            ST::Reg(k) => RT::Val(*k),
            ST::Never | ST::Rec | ST::NRec | ST::NEnum | ST::Shadow(..) | ST::Hole => return None,
            ST::Opt(t) => RT::Opt(Box::new(t.map()?)),
            ST::List(t) => RT::List(Box::new(t.map()?)),
            ST::Res(a, b) => RT::Res(Box::new(a.map()?), Box::new(b.map()?)),
            ST::Ver(a, b) => RT::Ver(Box::new(a.map()?), Box::new(b.map()?)),
        })
    }

    fn count_nodes(&self) -> usize {
        match self {
            ST::Opt(t) | ST::List(t) => 1 + t.count_nodes(),
            ST::Res(a, b) | ST::Ver(a, b) => 1 + a.count_nodes() + b.count_nodes(),
            _ => 1,
        }
    }

    /// Rewrite the `k`-th node (pre-order) with `f`.
    fn rewrite(&self, k: &mut usize, f: &mut dyn FnMut(&ST) -> ST) -> ST {
        if *k == 0 {
            *k = usize::MAX;
            return f(self);
        }
        if *k != usize::MAX {
            *k -= 1;
        }
        match self {
            ST::Opt(t) => ST::Opt(Box::new(t.rewrite(k, f))),
            ST::List(t) => ST::List(Box::new(t.rewrite(k, f))),
            ST::Res(a, b) => {
                let a2 = a.rewrite(k, f);
                ST::Res(Box::new(a2), Box::new(b.rewrite(k, f)))
            }
            ST::Ver(a, b) => {
                let a2 = a.rewrite(k, f);
                ST::Ver(Box::new(a2), Box::new(b.rewrite(k, f)))
            }
            other => other.clone(),
        }
    }
}

impl ST {
    /// does the type contain a literal type variable (at any depth)?
    fn has_literal(&self) -> bool {
        match self {
            ST::IntLit | ST::FloatLit => true,
            ST::Opt(t) | ST::List(t) => t.has_literal(),
            ST::Res(a, b) | ST::Ver(a, b) => a.has_literal() || b.has_literal(),
            _ => false,
        }
    }
    /// depth at which the deepest literal type variable sits (0 = the type itself)
    fn literal_depth(&self) -> Option<usize> {
        match self {
            ST::IntLit | ST::FloatLit => Some(0),
            ST::Opt(t) | ST::List(t) => t.literal_depth().map(|d| d + 1),
            ST::Res(a, b) | ST::Ver(a, b) => a.literal_depth().max(b.literal_depth()).map(|d| d + 1),
            _ => None,
        }
    }
}

/// The payload type a filtermap body can *build* so that it is the type `want`
/// once the literal defaults are applied: a parameter of exactly that type, an
/// unconstrained integer / float literal for `i32` / `f64`, `()`, and
/// `Some(…)`, `[…]`, `Ok(…)`/`Err(…)`, `Verdict.Accept(…)`/`Verdict.Reject(…)`
/// around buildable types. `None`: the body cannot produce a value of the type.
fn buildable(want: &ST, params: &[ST], cx: &Cx) -> Option<ST> {
    // In a script that re-declares reserved names a parameter's written type
    // may denote the script's own type: only literals and constructors there.
    if cx.shadow.is_empty() && params.contains(want) {
        return Some(want.clone());
    }
    let params = if cx.shadow.is_empty() { params } else { &[] };
    Some(match want {
        ST::Prim("i32") => ST::IntLit,
        ST::Prim("f64") => ST::FloatLit,
        ST::Unit => ST::Unit,
        ST::Opt(t) => ST::Opt(Box::new(buildable(t, params, cx)?)),
        ST::List(t) => ST::List(Box::new(buildable(t, params, cx)?)),
        ST::Res(a, b) => ST::Res(Box::new(buildable(a, params, cx)?), Box::new(buildable(b, params, cx)?)),
        // `Verdict.Accept(…)` names the type: not when the script has its own `Verdict`
        ST::Ver(a, b) if cx.shadowed("Verdict").is_none() => {
            ST::Ver(Box::new(buildable(a, params, cx)?), Box::new(buildable(b, params, cx)?))
        }
        _ => return None,
    })
}

/// Expressions whose types, unified (as the payloads of several `accept`
/// statements of one filtermap are), give exactly the payload type `t`.
/// Empty: nothing can be written (`Result[?, ?]`).
fn exprs_of(t: &ST, params: &[ST], neg: bool) -> Vec<String> {
    if let Some(i) = params.iter().position(|q| q == t) {
        return vec![format!("p{i}")];
    }
    let wrap = |t: &ST, l: &str, r: &str| -> Vec<String> {
        exprs_of(t, params, neg).into_iter().map(|e| format!("{l}{e}{r}")).collect()
    };
    match t {
        // a negated literal is an integer variable that must be signed: still `i32`
        ST::IntLit => vec![if neg { "-70000".into() } else { "70000".into() }],
        ST::FloatLit => vec![if neg { "-0.5".into() } else { "0.5".into() }],
        ST::Unit => vec!["()".into()],
        ST::Opt(x) if **x == ST::Hole => vec!["None".into()],
        ST::Opt(x) => wrap(x, "Some(", ")"),
        ST::List(x) if **x == ST::Hole => vec!["[]".into()],
        ST::List(x) => {
            // the elements of a list literal are unified with each other
            let es = exprs_of(x, params, neg);
            if es.is_empty() { vec![] } else { vec![format!("[{}]", es.join(", "))] }
        }
        ST::Res(a, b) => {
            let mut v = if **a == ST::Hole { vec![] } else { wrap(a, "Ok(", ")") };
            if **b != ST::Hole {
                v.extend(wrap(b, "Err(", ")"));
            }
            v
        }
        ST::Ver(a, b) => {
            let mut v = if **a == ST::Hole { vec![] } else { wrap(a, "Verdict.Accept(", ")") };
            if **b != ST::Hole {
                v.extend(wrap(b, "Verdict.Reject(", ")"));
            }
            v
        }
        _ => vec![],
    }
}

/// The values of `exprs_of(t, …)`, in the same order, as Rust's `Debug` prints
/// them once they crossed the boundary under the image of `t` (parameters
/// carry the fixed arguments of `family::callable!`: `true`, `7`).
fn vals_of(t: &ST, params: &[ST], neg: bool) -> Vec<String> {
    if let Some(i) = params.iter().position(|q| q == t) {
        return match &params[i] {
            ST::Prim("bool") => vec!["true".into()],
            ST::Prim("u8") => vec!["7".into()],
            _ => vec![],
        };
    }
    let wrap = |t: &ST, l: &str, r: &str| -> Vec<String> {
        vals_of(t, params, neg).into_iter().map(|e| format!("{l}{e}{r}")).collect()
    };
    match t {
        ST::IntLit => vec![if neg { "-70000".into() } else { "70000".into() }],
        ST::FloatLit => vec![if neg { "-0.5".into() } else { "0.5".into() }],
        ST::Unit => vec!["()".into()],
        ST::Opt(x) if **x == ST::Hole => vec!["None".into()],
        ST::Opt(x) => wrap(x, "Some(", ")"),
        // `List`'s `Debug` prints `List([…])`
        ST::List(x) if **x == ST::Hole => vec!["List([])".into()],
        ST::List(x) => {
            let es = vals_of(x, params, neg);
            if es.is_empty() { vec![] } else { vec![format!("List([{}])", es.join(", "))] }
        }
        ST::Res(a, b) => {
            let mut v = if **a == ST::Hole { vec![] } else { wrap(a, "Ok(", ")") };
            if **b != ST::Hole {
                v.extend(wrap(b, "Err(", ")"));
            }
            v
        }
        ST::Ver(a, b) => {
            let mut v = if **a == ST::Hole { vec![] } else { wrap(a, "Accept(", ")") };
            if **b != ST::Hole {
                v.extend(wrap(b, "Reject(", ")"));
            }
            v
        }
        _ => vec![],
    }
}

/// `t` with one component below a constructor left unresolved: the payload
/// `Some(70000)` becomes `None`, `[[0.5]]` becomes `[[]]`, `Ok(1)`+`Err(0.5)`
/// loses one of the two. `None` if `t` has no constructor.
fn with_hole(t: &ST, params: &[ST], p: &mut Prng) -> Option<ST> {
    let neg = false;
    let spots = t.count_nodes();
    for _ in 0..8 {
        let mut k = 1 + p.below(spots.max(2) as u64 - 1) as usize;
        if k >= spots {
            continue;
        }
        let t2 = t.rewrite(&mut k, &mut |_x: &ST| ST::Hole);
        if t2 != *t && !exprs_of(&t2, params, neg).is_empty() {
            return Some(t2);
        }
    }
    None
}

/// The script type a Rust type is the image of; `Val<Unreg>` has none — the
/// nearest script type (`Foo`) is used and the pair is a near miss.
fn unmap(r: &RT) -> ST {
    match r {
        RT::Leaf("RotoString") => ST::Prim("String"),
        RT::Leaf("()") => ST::Unit,
        RT::Leaf(n) => ST::Prim(PRIMS.iter().find(|p| *p == n).expect("leaf name")),
        RT::Val(1) => ST::Reg(1),
        RT::Val(_) => ST::Reg(0),
        RT::Opt(t) => ST::Opt(Box::new(unmap(t))),
        RT::List(t) => ST::List(Box::new(unmap(t))),
        RT::Res(a, b) => ST::Res(Box::new(unmap(a)), Box::new(unmap(b))),
        RT::Ver(a, b) => ST::Ver(Box::new(unmap(a)), Box::new(unmap(b))),
    }
}

fn rt_sexp(r: &RT) -> String {
    match r {
        RT::Leaf(n) => format!("(leaf #{})", hex(n)),
        RT::Val(k) => format!("(val {})", 100 + *k as u32),
        RT::Opt(t) => format!("(option {})", rt_sexp(t)),
        RT::List(t) => format!("(list {})", rt_sexp(t)),
        RT::Res(a, b) => format!("(result {} {})", rt_sexp(a), rt_sexp(b)),
        RT::Ver(a, b) => format!("(verdict {} {})", rt_sexp(a), rt_sexp(b)),
    }
}

/// A leaf "close" to `n`: other signedness, adjacent width, other float, …
fn near_leaf(p: &mut Prng, t: &ST) -> ST {
    let near: &[&'static str] = match t {
        ST::Prim("u8") => &["i8", "u16", "char", "bool"],
        ST::Prim("u16") => &["i16", "u8", "u32"],
        ST::Prim("u32") => &["i32", "u16", "u64", "Asn", "f32", "char"],
        ST::Prim("u64") => &["i64", "u32", "f64"],
        ST::Prim("i8") => &["u8", "i16"],
        ST::Prim("i16") => &["u16", "i8", "i32"],
        ST::Prim("i32") => &["u32", "i16", "i64", "f32"],
        ST::Prim("i64") => &["u64", "i32", "f64"],
        ST::Prim("f32") => &["f64", "u32", "i32"],
        ST::Prim("f64") => &["f32", "u64", "i64"],
        ST::Prim("bool") => &["u8", "char"],
        ST::Prim("char") => &["u32", "u8", "String"],
        ST::Prim("Asn") => &["u32", "Prefix"],
        ST::Prim("IpAddr") => &["Prefix", "u32", "String"],
        ST::Prim("Prefix") => &["IpAddr", "Asn"],
        ST::Prim("String") => &["char", "u8"],
        _ => &[],
    };
    let roll = p.below(10);
    match t {
        ST::Unit => [ST::Prim("bool"), ST::Prim("u8"), ST::Never, ST::Rec][p.below(4) as usize].clone(),
        ST::Reg(k) if roll < 6 => ST::Reg(1 - *k),
        ST::Reg(_) => [ST::NRec, ST::NEnum, ST::Prim("u32")][p.below(3) as usize].clone(),
        _ if roll == 0 => ST::Unit,
        _ if roll == 1 => ST::Reg(p.below(2) as u8),
        _ if !near.is_empty() && roll < 8 => ST::Prim(*p.pick(near)),
        _ => ST::Prim(*p.pick(&PRIMS[..])),
    }
}

// ---------------------------------------------------------- declarations

#[derive(Clone, Debug, PartialEq)]
enum Side {
    Unused,
    NoPayload,
    Param(usize),
    IntLit,
    FloatLit,
    /// a payload the body builds (`Some(70000)`, `[p0, p0]`, `Ok(1)` and
    /// `Err(0.5)` in two statements): the type inference gives it this type
    Built(ST),
}

#[derive(Clone, Debug)]
enum Kind {
    Fn,
    Filtermap(Side, Side),
    Test,
}

#[derive(Clone, Debug)]
struct Decl {
    /// the module it stands in, below the package root: `""` or `"sub."`
    module: &'static str,
    name: String,
    kind: Kind,
    params: Vec<ST>,
    /// the signature's return type (for a filtermap: the forced verdict)
    ret: ST,
    /// how the signature was derived from its target
    label: &'static str,
    /// family index the signature was derived from
    target: usize,
}

impl Decl {
    fn key(&self) -> String {
        match self.kind {
            Kind::Test => format!("pkg.{}test#{}", self.module, self.name),
            _ => format!("pkg.{}{}", self.module, self.name),
        }
    }
    /// the name to ask `get_function` for
    fn ask(&self) -> String {
        self.key()["pkg.".len()..].to_string()
    }

    fn side_ty(&self, s: &Side) -> ST {
        match s {
            Side::Unused | Side::NoPayload => ST::Unit,
            Side::Param(i) => self.params[*i].clone(),
            Side::IntLit => ST::IntLit,
            Side::FloatLit => ST::FloatLit,
            Side::Built(t) => t.clone(),
        }
    }

    fn src(&self, p: &mut Prng, cx: &Cx) -> String {
        let params: Vec<String> =
            self.params.iter().enumerate().map(|(i, t)| format!("p{i}: {}", t.src(p, cx))).collect();
        let names: Vec<String> = (0..self.params.len()).map(|i| format!("p{i}")).collect();
        match &self.kind {
            Kind::Fn => {
                let ret = if self.ret == ST::Unit && p.chance(1, 2) {
                    String::new()
                } else {
                    format!(" -> {}", self.ret.src(p, cx))
                };
                format!(
                    "fn {n}({ps}){ret} {{ {n}({args}) }}\n",
                    n = self.name,
                    ps = params.join(", "),
                    args = names.join(", ")
                )
            }
            Kind::Filtermap(a, r) => {
                // the statements of the body: one per payload expression
                let stmts = |kw: &str, s: &Side| -> Vec<String> {
                    match s {
                        Side::Unused => vec![],
                        Side::NoPayload => vec![kw.to_string()],
                        Side::Param(i) => vec![format!("{kw} p{i}")],
                        Side::IntLit => vec![format!("{kw} 1")],
                        Side::FloatLit => vec![format!("{kw} 1.5")],
                        Side::Built(t) => {
                            let ps: &[ST] = if cx.shadow.is_empty() { &self.params } else { &[] };
                            exprs_of(t, ps, self.negated()).into_iter().map(|e| format!("{kw} {e}")).collect()
                        }
                    }
                };
                let mut all = stmts("accept", a);
                all.extend(stmts("reject", r));
                assert!(!all.is_empty(), "a filtermap uses at least one side");
                // if true { s1 } else { if true { s2 } else { … sn } }
                let mut body = all.pop().unwrap();
                while let Some(st) = all.pop() {
                    body = format!("if true {{ {st} }} else {{ {body} }}");
                }
                format!("filtermap {}({}) {{ {body} }}\n", self.name, params.join(", "))
            }
            Kind::Test => format!("test {} {{ accept }}\n", self.name),
        }
    }

    fn negated(&self) -> bool {
        // every third filtermap writes its literals negated
        self.name[1..].parse::<usize>().is_ok_and(|n| n % 3 == 2)
    }

    /// What a call (arguments `true` / `7`) of this filtermap returns, as
    /// `Debug` prints it: the body runs its first statement. `None`: not a
    /// filtermap whose payloads the harness can evaluate.
    fn call_value(&self, cx: &Cx) -> Option<String> {
        let Kind::Filtermap(a, r) = &self.kind else { return None };
        if !cx.shadow.is_empty() {
            return None;
        }
        let val = |s: &Side| -> Option<Option<String>> {
            Some(match s {
                Side::Unused => None,
                Side::NoPayload => Some("()".to_string()),
                Side::Param(i) => Some(vals_of(&self.params[*i], &self.params, false).into_iter().next()?),
                Side::IntLit => Some("1".to_string()),
                Side::FloatLit => Some("1.5".to_string()),
                Side::Built(t) => Some(vals_of(t, &self.params, self.negated()).into_iter().next()?),
            })
        };
        match (val(a)?, val(r)?) {
            (Some(x), _) => Some(format!("Accept({x})")),
            (None, Some(y)) => Some(format!("Reject({y})")),
            (None, None) => None,
        }
    }

    fn sexp(&self, cx: &Cx) -> String {
        let params = self.params.iter().map(|t| t.sexp(cx)).collect::<Vec<_>>().join(" ");
        if let Kind::Filtermap(a, r) = &self.kind {
            // a filtermap goes to the model as what the body does with each side
            // (`unused`, or the type of the payload); the model derives the
            // signature (`filtermapSignature`: fresh variables, `force_filtermap_types`)
            let side = |s: &Side| match s {
                Side::Unused => "unused".to_string(),
                other => self.side_ty(other).sexp(cx),
            };
            return format!("(fm #{} ({params}) {} {})", hex(&self.key()), side(a), side(r));
        }
        if let Kind::Test = self.kind {
            // the key a test is known under (`test#…`) is the model's business
            return format!("(test #{} #{})", hex(&format!("pkg.{}", self.module)), hex(&self.name));
        }
        format!("(fn #{} ({params}) {})", hex(&self.key()), self.ret.sexp(cx))
    }

    fn show(&self, cx: &Cx) -> String {
        let mut p = Prng::new(0);
        self.src(&mut p, cx).trim().to_string()
    }
}

/// Derive a script signature from a family entry by one of the near-miss
/// transformations (or none: the true signature).
fn variant(p: &mut Prng, e: &Entry, which: u64, cx: &Cx) -> (Vec<ST>, ST, &'static str) {
    let mut params: Vec<ST> = e.args.iter().map(unmap).collect();
    let mut ret = unmap(&e.ret);
    let n = params.len();
    // pick a position: n = return
    let pos = p.below(n as u64 + 1) as usize;
    let at = |params: &mut Vec<ST>, ret: &mut ST, f: &mut dyn FnMut(&ST) -> ST, p: &mut Prng| {
        let t = if pos == n { &*ret } else { &params[pos] };
        let mut k = p.below(t.count_nodes() as u64) as usize;
        let t2 = t.rewrite(&mut k, f);
        if pos == n {
            *ret = t2;
        } else {
            params[pos] = t2;
        }
    };
    let label = match which {
        0 => "exact",
        1 => {
            // one leaf changed
            let t = if pos == n { ret.clone() } else { params[pos].clone() };
            let mut k = k_of_leaf(&t, p);
            let sd = p.next();
            let t3 = t.rewrite(&mut k, &mut |x: &ST| near_leaf(&mut Prng::new(sd), x));
            if pos == n {
                ret = t3;
            } else {
                params[pos] = t3;
            }
            "leaf-changed"
        }
        2 => {
            // one nesting level added or removed
            let wrap = p.below(4);
            at(
                &mut params,
                &mut ret,
                &mut |x: &ST| match (x, wrap) {
                    (ST::Opt(t), 0) | (ST::List(t), 0) => (**t).clone(),
                    (ST::Res(a, _), 0) | (ST::Ver(a, _), 0) => (**a).clone(),
                    (_, 1) => ST::List(Box::new(x.clone())),
                    (_, 2) => ST::Res(Box::new(x.clone()), Box::new(ST::Unit)),
                    _ => ST::Opt(Box::new(x.clone())),
                },
                p,
            );
            "nesting-changed"
        }
        3 => {
            // swap the arguments of one Result/Verdict, or the constructor
            let mut hit = false;
            for _ in 0..6 {
                at(
                    &mut params,
                    &mut ret,
                    &mut |x: &ST| match x {
                        ST::Res(a, b) if a != b => {
                            hit = true;
                            ST::Res(b.clone(), a.clone())
                        }
                        ST::Ver(a, b) if a != b => {
                            hit = true;
                            ST::Ver(b.clone(), a.clone())
                        }
                        _ => x.clone(),
                    },
                    p,
                );
                if hit {
                    break;
                }
            }
            if hit {
                "swapped-type-args"
            } else if n >= 2 {
                let i = p.below(n as u64) as usize;
                let j = (i + 1 + p.below(n as u64 - 1) as usize) % n;
                params.swap(i, j);
                "swapped-params"
            } else {
                "exact"
            }
        }
        4 => {
            at(
                &mut params,
                &mut ret,
                &mut |x: &ST| match x {
                    ST::Res(a, b) => ST::Ver(a.clone(), b.clone()),
                    ST::Ver(a, b) => ST::Res(a.clone(), b.clone()),
                    ST::Opt(t) => ST::List(t.clone()),
                    ST::List(t) => ST::Opt(t.clone()),
                    other => ST::Opt(Box::new(other.clone())),
                },
                p,
            );
            "constructor-changed"
        }
        5 => {
            if n > 0 {
                let i = if p.chance(1, 2) { n - 1 } else { p.below(n as u64) as usize };
                params.remove(i);
                "arity-minus-1"
            } else {
                params.push(ST::Prim("u8"));
                "arity-plus-1"
            }
        }
        6 => {
            let extra = if n > 0 && p.chance(1, 2) {
                params[p.below(n as u64) as usize].clone()
            } else {
                ST::Prim(*p.pick(&PRIMS[..]))
            };
            if p.chance(1, 2) {
                params.push(extra);
            } else {
                params.insert(p.below(n as u64 + 1) as usize, extra);
            }
            "arity-plus-1"
        }
        7 => {
            if n >= 2 {
                let i = p.below(n as u64) as usize;
                let j = (i + 1 + p.below(n as u64 - 1) as usize) % n;
                params.swap(i, j);
                "swapped-params"
            } else {
                ret = near_leaf(p, &ST::Unit);
                "return-changed"
            }
        }
        10 => {
            // k further parameters after the true ones: the Rust type lists a
            // strict prefix of the parameters (down to none of them)
            let k = 1 + p.below(3) as usize;
            for _ in 0..k {
                let extra = if n > 0 && p.chance(1, 2) {
                    params[p.below(n as u64) as usize].clone()
                } else {
                    ST::Prim(*p.pick(&PRIMS[..]))
                };
                params.push(extra);
            }
            "arity-plus-k-suffix"
        }
        11 => {
            // the last k parameters dropped: the Rust type has k more
            if n > 0 {
                let k = 1 + p.below(n.min(3) as u64) as usize;
                params.truncate(n - k);
                "arity-minus-k-suffix"
            } else {
                params.push(ST::Prim("u8"));
                "arity-plus-k-suffix"
            }
        }
        12 => {
            // a primitive replaced by the type the host registered in a module
            // under the same identifier (`u32` ↦ `foo.u32`)
            let mut hit = false;
            for pos2 in (0..=n).map(|i| (pos + i) % (n + 1)) {
                let t = if pos2 == n { ret.clone() } else { params[pos2].clone() };
                let mut done = false;
                let t2 = {
                    fn go(t: &ST, cx: &Cx, done: &mut bool) -> ST {
                        match t {
                            ST::Prim(nm) if !*done => {
                                for k in 0..2u8 {
                                    let (_, scope, ident) = ENVS[cx.env][k as usize];
                                    if scope != 0 && ident == *nm {
                                        *done = true;
                                        return ST::Reg(k);
                                    }
                                }
                                t.clone()
                            }
                            ST::Opt(x) => ST::Opt(Box::new(go(x, cx, done))),
                            ST::List(x) => ST::List(Box::new(go(x, cx, done))),
                            ST::Res(a, b) => {
                                let a2 = go(a, cx, done);
                                ST::Res(Box::new(a2), Box::new(go(b, cx, done)))
                            }
                            ST::Ver(a, b) => {
                                let a2 = go(a, cx, done);
                                ST::Ver(Box::new(a2), Box::new(go(b, cx, done)))
                            }
                            other => other.clone(),
                        }
                    }
                    go(&t, cx, &mut done)
                };
                if done {
                    if pos2 == n {
                        ret = t2;
                    } else {
                        params[pos2] = t2;
                    }
                    hit = true;
                    break;
                }
            }
            if hit { "named-like-primitive" } else { "exact" }
        }
        // the signature itself stays; the caller leaves a component of a built payload unresolved
        13 => "exact",
        8 => {
            // a type with no Rust counterpart somewhere
            let repl = [ST::Rec, ST::NRec, ST::NEnum][p.below(3) as usize].clone();
            if pos == n && p.chance(1, 3) {
                ret = ST::Never;
            } else {
                at(&mut params, &mut ret, &mut |_x: &ST| repl.clone(), p);
            }
            "roto-only-type"
        }
        _ => {
            // independent random signature of the same arity
            for t in params.iter_mut() {
                *t = random_st(p, 2);
            }
            ret = random_st(p, 2);
            "random"
        }
    };
    (params, ret, label)
}

/// pre-order index of a random leaf node
fn k_of_leaf(t: &ST, p: &mut Prng) -> usize {
    fn leaves(t: &ST, idx: &mut usize, out: &mut Vec<usize>) {
        let me = *idx;
        *idx += 1;
        match t {
            ST::Opt(x) | ST::List(x) => leaves(x, idx, out),
            ST::Res(a, b) | ST::Ver(a, b) => {
                leaves(a, idx, out);
                leaves(b, idx, out);
            }
            _ => out.push(me),
        }
    }
    let mut out = vec![];
    leaves(t, &mut 0, &mut out);
    *p.pick(&out)
}

fn random_st(p: &mut Prng, depth: u32) -> ST {
    let roll = p.below(if depth == 0 { 10 } else { 16 });
    match roll {
        0..=6 => ST::Prim(*p.pick(&PRIMS[..])),
        7 => ST::Unit,
        8 => ST::Reg(p.below(2) as u8),
        9 => [ST::Rec, ST::NRec, ST::NEnum][p.below(3) as usize].clone(),
        10 | 11 => ST::Opt(Box::new(random_st(p, depth - 1))),
        12 | 13 => ST::List(Box::new(random_st(p, depth - 1))),
        14 => ST::Res(Box::new(random_st(p, depth - 1)), Box::new(random_st(p, depth - 1))),
        _ => ST::Ver(Box::new(random_st(p, depth - 1)), Box::new(random_st(p, depth - 1))),
    }
}

// ------------------------------------------------------------ the runtime

fn runtime(env: usize) -> Runtime<NoCtx> {
    // `library!` needs the names as tokens: one literal library per row of `ENVS`
    let lib = match env {
        0 => library! {
            /// a registered type
            #[clone] type Foo = Val<Foo>;
            /// another registered type
            #[clone] type Bar = Val<Bar>;
            /// a host function: registered with the runtime, not a function of any script
            fn host_twice(x: u32) -> u32 { x.wrapping_mul(2) }
            /// a host constant
            const HOST_LIMIT: u32 = 42;
            impl Val<Foo> {
                /// a method of a registered type
                fn get(x: Val<Foo>) -> u32 { x.0.0 }
            }
        },
        1 => library! {
            /// a module whose types are named like primitives
            mod foo {
                /// `foo.u32` is not `u32`
                #[clone] type u32 = Val<Foo>;
                /// `foo.String` is not `String`
                #[clone] type String = Val<Bar>;
                /// a host function inside a module
                fn host_twice(x: u32) -> u32 { x.wrapping_mul(2) }
                /// a host constant inside a module
                const HOST_LIMIT: u32 = 42;
            }
        },
        2 => library! {
            /// a registered type
            #[clone] type Foo = Val<Foo>;
            /// a module
            mod net {
                /// `net.i64` is not `i64`
                #[clone] type i64 = Val<Bar>;
            }
            /// a host function
            fn host_twice(x: u32) -> u32 { x.wrapping_mul(2) }
            /// a host constant
            const HOST_LIMIT: u32 = 42;
        },
        // only used by the cross-package representatives: the names of environment 0, the Rust types exchanged
        4 => library! {
            /// in this runtime `Foo` is the other Rust type
            #[clone] type Foo = Val<Bar>;
            /// … and `Bar` the first
            #[clone] type Bar = Val<Foo>;
        },
        _ => library! {
            /// a module
            mod foo {
                /// `foo.Option` is not `Option`
                #[clone] type Option = Val<Foo>;
                /// a nested module
                mod bar {
                    /// `foo.bar.bool` is not `bool`
                    #[clone] type bool = Val<Bar>;
                    /// a host function two modules deep
                    fn host_twice(x: u32) -> u32 { x.wrapping_mul(2) }
                }
                /// a host constant inside a module
                const HOST_LIMIT: u32 = 42;
            }
        },
    };
    Runtime::from_lib(lib).expect("runtime")
}

const PRELUDE: &str = "record R0 { a: i32 }\nenum E0 { A, B(u8) }\n";

// --------------------------------------------------------------- outcomes

/// Canonical outcome string shared with the Lean driver.
fn canon(o: &Outcome) -> String {
    match o {
        Outcome::Ok => "ok".into(),
        Outcome::Panic => "panic".into(),
        Outcome::Err(d) => {
            if d.starts_with("DoesNotExist") {
                "dne".into()
            } else if let Some(rest) = d.strip_prefix("IncorrectNumberOfArguments { expected: ") {
                let nums: Vec<&str> = rest.trim_end_matches(" }").split(", got: ").collect();
                format!("arity {} {}", nums[0], nums.get(1).copied().unwrap_or("?"))
            } else if let Some(rest) = d.strip_prefix("TypeMismatch(\"argument ") {
                format!("arg {}", rest.split('"').next().unwrap_or("?"))
            } else if d.starts_with("TypeMismatch(\"the return value\"") {
                "ret".into()
            } else {
                format!("unparsed:{d}")
            }
        }
    }
}

/// keys of `Module.functions`, read off a `DoesNotExist` error
fn existing_keys(pkg: &mut Package<NoCtx>) -> Vec<String> {
    match family::probe::<fn() -> ()>(pkg, "\u{1}no-such-function") {
        Outcome::Err(d) if d.starts_with("DoesNotExist") => {
            let Some(i) = d.find("existing: [") else { return vec![] };
            let mut keys: Vec<String> =
                d[i..].split('"').skip(1).step_by(2).map(|s| s.to_string()).collect();
            keys.sort();
            keys
        }
        _ => vec![],
    }
}

/// Where the expected Rust type (image of the script type) and the requested
/// one differ: the mismatch class used in violation keys.
fn tdiff(want: &Option<RT>, got: &RT, cx: &Cx) -> String {
    let Some(w) = want else { return "roto-only-type".into() };
    fn ctor(r: &RT) -> &'static str {
        match r {
            RT::Leaf(_) => "leaf",
            RT::Val(_) => "Val",
            RT::Opt(_) => "Option",
            RT::List(_) => "List",
            RT::Res(..) => "Result",
            RT::Ver(..) => "Verdict",
        }
    }
    fn leaf_class(a: &str, b: &str) -> &'static str {
        let int = |s: &str| (s.starts_with('u') || s.starts_with('i')) && s[1..].parse::<u32>().is_ok();
        if int(a) && int(b) {
            if a[1..] == b[1..] { "signedness" } else if a[..1] == b[..1] { "width" } else { "signedness+width" }
        } else if a.starts_with('f') && b.starts_with('f') && a.len() == 3 && b.len() == 3 {
            "float-width"
        } else if a == "()" || b == "()" {
            "unit"
        } else {
            "other-leaf"
        }
    }
    match (w, got) {
        (RT::Leaf(a), RT::Leaf(b)) if a != b => format!("leaf:{}", leaf_class(a, b)),
        (RT::Val(a), RT::Val(b)) if a != b => {
            if *b == 2 { "unregistered-type".into() } else { "other-registered-type".into() }
        }
        (RT::Opt(a), RT::Opt(b)) | (RT::List(a), RT::List(b)) if a != b => {
            format!("{}/{}", ctor(w), tdiff(&Some((**a).clone()), b, cx))
        }
        (RT::Res(a1, a2), RT::Res(b1, b2)) | (RT::Ver(a1, a2), RT::Ver(b1, b2)) if w != got => {
            if a1 == b2 && a2 == b1 {
                format!("swapped-args:{}", ctor(w))
            } else if a1 != b1 {
                format!("{}.0/{}", ctor(w), tdiff(&Some((**a1).clone()), b1, cx))
            } else {
                format!("{}.1/{}", ctor(w), tdiff(&Some((**a2).clone()), b2, cx))
            }
        }
        _ if w == got => "same".into(),
        // a type registered in a runtime module under the name of a primitive, asked for as that primitive
        (RT::Val(k), RT::Leaf(n)) if cx.reg_named_like(*k) == Some(*n) => "registered-type-named-like-primitive".into(),
        (RT::Leaf(n), RT::Val(k)) if cx.reg_named_like(*k) == Some(*n) => "primitive-as-registered-type-of-same-name".into(),
        _ => format!("ctor:{}->{}", ctor(w), ctor(got)),
    }
}

/// `None`: the documented mapping makes `e` the true Rust type of `d`.
fn mismatch_class(d: &Decl, e: &Entry, cx: &Cx) -> Option<String> {
    if d.params.len() != e.args.len() {
        let n = d.params.len().min(e.args.len());
        let prefix_ok = d.params[..n].iter().zip(&e.args[..n]).all(|(t, r)| t.map().as_ref() == Some(r))
            && d.ret.map().as_ref() == Some(&e.ret);
        // the Rust type lists only a leading part of the parameters (or the
        // parameters plus extra ones) and is right otherwise
        let kind = match (prefix_ok, e.args.len() < d.params.len()) {
            (true, true) => "arity-prefix",
            (true, false) => "arity-extended",
            _ => "arity",
        };
        return Some(format!("{kind}:{}->{}", d.params.len(), e.args.len()));
    }
    let td = |t: &ST, r: &RT| {
        let w = t.map();
        if w.is_none() { t.why_none().to_string() } else { tdiff(&w, r, cx) }
    };
    for (i, (t, r)) in d.params.iter().zip(&e.args).enumerate() {
        if t.map().as_ref() != Some(r) {
            return Some(format!("arg{}:{}", i + 1, td(t, r)));
        }
    }
    if d.ret.map().as_ref() != Some(&e.ret) {
        return Some(format!("ret:{}", td(&d.ret, &e.ret)));
    }
    None
}

/// the mismatch class without its position: `arg3:Option/leaf:width` ↦ `arg:leaf:width`
fn key_class(c: &str) -> String {
    if c.starts_with("arity") {
        return c.split(':').next().unwrap_or("arity").to_string();
    }
    let (pos, rest) = c.split_once(':').unwrap_or((c, ""));
    let pos = pos.trim_end_matches(|ch: char| ch.is_ascii_digit());
    let last = rest.rsplit('/').next().unwrap_or(rest);
    if rest.is_empty() { pos.to_string() } else { format!("{pos}:{last}") }
}

// ------------------------------------------------------------ one script

struct Script {
    /// the root module's source; further modules follow a `//// module <name>` line each
    src: String,
    /// the functions, filtermaps and tests of all modules
    decls: Vec<Decl>,
    /// the declarations that are not functions: constants, types
    extras: Vec<Extra>,
    cx: Cx,
    /// the plan's class: `random`, or the boundary class the script represents
    kind: &'static str,
}

struct Pair {
    /// index into `decls`, or `None` for a name probe
    decl: Option<usize>,
    name: String,
    entry: usize,
    label: String,
}

/// What script number `index` of a run is about. The first `boundary_count`
/// indices are the boundary stream: one script per trigger class
/// (re-declared primitive / constructor names, module-registered types named
/// like primitives, one-sided arities), so that those classes are reached in
/// every run and not by luck; the rest is random, a quarter of it in the
/// non-standard contexts as well.
struct Plan {
    cx: Cx,
    kind: &'static str,
    /// leaf names / constructor names the stride targets must mention
    focus: Vec<&'static str>,
    /// variant kinds every target gets besides the exact signature
    forced: Vec<u64>,
}

fn boundary_count(thorough: bool) -> u64 {
    if thorough { 44 } else { 14 }
}

fn plan(seed: u64, index: u64, thorough: bool) -> Plan {
    let b = boundary_count(thorough);
    let s = seed as usize;
    let leaf = |k: usize| PRIMS[(k + s) % 16];
    let std = |kind, focus, forced| Plan { cx: Cx::default(), kind, focus, forced };
    if index < b {
        // quick: 4 leaf scripts (2 names each, rotating with the seed), 3
        // constructor scripts, 3 environments, 2 arity scripts; thorough: all
        // 16 leaf names in both forms first
        let (i, leaf_scripts) = (index as usize, if thorough { 32 } else { 4 });
        if i < leaf_scripts {
            let (a, b2) = if thorough { (leaf(i / 2), leaf(i / 2 + 5)) } else { (leaf(4 * i), leaf(4 * i + 2)) };
            let flip = i % 2 == 1;
            return Plan {
                cx: Cx { env: 0, shadow: vec![(a, flip), (b2, !flip)] },
                kind: "script-type-named-like-primitive",
                focus: vec![a, b2],
                forced: vec![],
            };
        }
        return match i - leaf_scripts {
            0 => Plan { cx: Cx { env: 0, shadow: vec![("Option", false)] }, kind: "script-type-named-like-constructor", focus: vec!["Option"], forced: vec![] },
            1 => Plan { cx: Cx { env: 0, shadow: vec![("Result", true), ("List", false)] }, kind: "script-type-named-like-constructor", focus: vec!["Result", "List"], forced: vec![] },
            2 => Plan { cx: Cx { env: 0, shadow: vec![("Verdict", false), (leaf(9), true)] }, kind: "script-type-named-like-constructor", focus: vec!["Verdict", leaf(9)], forced: vec![] },
            3 => Plan { cx: Cx { env: 1, shadow: vec![] }, kind: "registered-type-named-like-primitive", focus: vec!["u32", "String", "Val"], forced: vec![12] },
            4 => Plan { cx: Cx { env: 2, shadow: vec![] }, kind: "registered-type-named-like-primitive", focus: vec!["i64", "Val"], forced: vec![12] },
            5 => Plan { cx: Cx { env: 3, shadow: vec![] }, kind: "registered-type-named-like-primitive", focus: vec!["bool", "Option", "Val"], forced: vec![12] },
            6 => std("one-sided-arity", vec![], vec![10, 11]),
            7 => std("one-sided-arity", vec![], vec![10, 11, 10]),
            // filtermaps whose payloads are built from literals nothing else
            // constrains, below Option / List / Result / Verdict (13: one
            // component of the payload left unresolved)
            _ => std("literal-payload", vec![], vec![13]),
        };
    }
    let mut p = Prng::for_case(seed ^ 0x504c414e, index);
    match p.below(8) {
        0 => {
            let n = *p.pick(&PRIMS[..]);
            let c = *p.pick(&CTORS[..]);
            Plan { cx: Cx { env: 0, shadow: vec![(n, p.chance(1, 2)), (c, p.chance(1, 2))] }, kind: "random+redeclared-names", focus: vec![n, c], forced: vec![] }
        }
        1 => {
            let env = 1 + p.below(3) as usize;
            Plan { cx: Cx { env, shadow: vec![] }, kind: "random+module-types", focus: vec![ENVS[env][0].2, ENVS[env][1].2], forced: vec![12] }
        }
        _ => std("random", vec![], vec![]),
    }
}

/// does the Rust type mention the leaf (by Roto name) / constructor / `Val`?
fn mentions(r: &RT, what: &str) -> bool {
    match r {
        RT::Leaf(n) => *n == what || (*n == "RotoString" && what == "String"),
        RT::Val(k) => what == "Val" && *k < 2,
        RT::Opt(t) => what == "Option" || mentions(t, what),
        RT::List(t) => what == "List" || mentions(t, what),
        RT::Res(a, b) => what == "Result" || mentions(a, what) || mentions(b, what),
        RT::Ver(a, b) => what == "Verdict" || mentions(a, what) || mentions(b, what),
    }
}

fn gen_random_script(fam: &[Entry], seed: u64, index: u64, thorough: bool) -> (Script, Vec<Pair>) {
    let mut p = Prng::for_case(seed, index);
    let Plan { cx, kind: script_kind, focus, forced } = plan(seed, index, thorough);
    let targets_n = 8usize;
    let variants_n = (if thorough { 7 } else { 5 }).max(1 + forced.len() + 2);
    let mut decls: Vec<Decl> = vec![];
    let mut pairs: Vec<Pair> = vec![];
    let mut targets: Vec<usize> = vec![];
    fn has_binary(r: &RT) -> bool {
        match r {
            RT::Res(a, b) | RT::Ver(a, b) => a != b || has_binary(a) || has_binary(b),
            RT::Opt(t) | RT::List(t) => has_binary(t),
            _ => false,
        }
    }
    let pick_where = |p: &mut Prng, f: &dyn Fn(&Entry) -> bool| -> usize {
        for _ in 0..256 {
            let i = p.below(fam.len() as u64) as usize;
            if f(&fam[i]) {
                return i;
            }
        }
        p.below(fam.len() as u64) as usize
    };
    let all = |e: &Entry| -> Vec<RT> { e.args.iter().chain(std::iter::once(&e.ret)).cloned().collect() };
    for j in 0..targets_n {
        // a stride coprime to the family size walks the whole family; the other
        // targets are drawn from the filtermap-shaped, binary-constructor and
        // deep entries, or at random. With a focus (boundary classes), the
        // stride targets are entries that mention the focus names, of growing arity.
        let t = match j {
            0 | 2 | 4 | 6 if !focus.is_empty() => {
                let f = focus[(j / 2) % focus.len()];
                let want_arity = j / 2;
                let i = pick_where(&mut p, &|e| all(e).iter().any(|r| mentions(r, f)) && e.args.len() >= want_arity);
                if all(&fam[i]).iter().any(|r| mentions(r, f)) { i } else { pick_where(&mut p, &|e| all(e).iter().any(|r| mentions(r, f))) }
            }
            0 | 2 | 4 | 6 if script_kind == "one-sided-arity" => {
                // arities 1, 3, 5, 7 in one script, 2, 4, 6, 7 in the other
                let want = (j + 1 + (index as usize % 2)).min(7);
                pick_where(&mut p, &|e| e.args.len() == want)
            }
            _ if script_kind == "literal-payload" => {
                // walk the `lit` group: 8 targets per script, the walk starts
                // where the seed says and continues in the next such script
                let lit: Vec<usize> = (0..fam.len()).filter(|i| fam[*i].group == "lit").collect();
                let nth = index as usize - (boundary_count(thorough) as usize - if thorough { 4 } else { 2 });
                lit[(seed as usize * 5 + nth * targets_n + j) * 3 % lit.len()]
            }
            0 | 2 | 4 | 6 => ((index as usize * 4 + j / 2) * 389 + (seed as usize % 997)) % fam.len(),
            1 if p.chance(1, 3) => pick_where(&mut p, &|e| e.group == "lit"),
            1 => pick_where(&mut p, &|e| e.group == "fm"),
            3 => pick_where(&mut p, &|e| all(e).iter().any(has_binary)),
            5 => pick_where(&mut p, &|e| all(e).iter().any(|r| r.depth() >= 2)),
            _ => p.below(fam.len() as u64) as usize,
        };
        targets.push(t);
    }
    let mut exact_of: Vec<Option<usize>> = vec![None; targets_n];
    for (j, &t) in targets.iter().enumerate() {
        let e = &fam[t];
        let fm_shaped = e.group == "fm" || e.group == "lit" || (matches!(e.ret, RT::Ver(..)) && p.chance(1, 2));
        for v in 0..variants_n {
            let which = if v == 0 {
                0
            } else if v <= forced.len() {
                forced[v - 1]
            } else {
                // 10/11: one-sided arities; 12: module type of the same name (only where the host has one)
                1 + p.below(if cx.env == 0 { 11 } else { 12 })
            };
            let (params, ret, label) = variant(&mut p, e, which, &cx);
            let name = format!("q{}", decls.len());
            // a filtermap instead of a fn when the (variant's) return type is a
            // verdict whose sides can be produced by the body
            let mut kind = Kind::Fn;
            let mut label2 = label;
            let mut hole = false;
            if fm_shaped {
                if let ST::Ver(a, r) = &ret {
                    let side = |s: &ST, p: &mut Prng| -> Option<Side> {
                        if *s == ST::Unit {
                            return Some(if p.chance(1, 2) { Side::Unused } else { Side::NoPayload });
                        }
                        let cands: Vec<usize> =
                            params.iter().enumerate().filter(|(_, t)| *t == s).map(|(i, _)| i).collect();
                        if !cands.is_empty() {
                            return Some(Side::Param(*p.pick(&cands)));
                        }
                        match s {
                            ST::Prim("i32") => Some(Side::IntLit),
                            ST::Prim("f64") => Some(Side::FloatLit),
                            // a payload the body builds: constructors around
                            // parameters and unconstrained literals
                            _ => buildable(s, &params, &cx).map(Side::Built),
                        }
                    };
                    if let (Some(mut sa), Some(mut sr)) = (side(a, &mut p), side(r, &mut p)) {
                        if which == 13 {
                            // one component of a built payload stays an unresolved variable
                            let first = p.chance(1, 2);
                            for s in if first { [&mut sa, &mut sr] } else { [&mut sr, &mut sa] } {
                                if let Side::Built(t) = s {
                                    if let Some(t2) = with_hole(t, if cx.shadow.is_empty() { &params } else { &[] }, &mut p) {
                                        *s = Side::Built(t2);
                                        hole = true;
                                        break;
                                    }
                                }
                            }
                        }
                        if !(sa == Side::Unused && sr == Side::Unused) {
                            kind = Kind::Filtermap(sa, sr);
                            label2 = match label {
                                "exact" => "filtermap-exact",
                                _ => "filtermap-near",
                            };
                        }
                    }
                }
            }
            // what the written types denote in this script (re-declared names)
            let params: Vec<ST> = params.iter().map(|t| cx.shadowize(t)).collect();
            let ret = cx.shadowize(&ret);
            let was_exact = label == "exact" && !hole;
            if !cx.shadow.is_empty() && (params.iter().any(|t| matches!(t.why_none(), w if w.starts_with("script-type"))) || ret.why_none().starts_with("script-type")) {
                label2 = match (&kind, label) {
                    (Kind::Filtermap(..), _) => "filtermap-redeclared-name",
                    (_, "exact") => "redeclared-name",
                    _ => "redeclared-name-near",
                };
            }
            let mut d = Decl { module: "", name, kind, params, ret, label: label2, target: t };
            if let Kind::Filtermap(a, r) = &d.kind {
                d.ret = ST::Ver(Box::new(d.side_ty(a)), Box::new(d.side_ty(r)));
                // literal type variables below a constructor: the class the defaults must reach
                if hole {
                    d.label = "filtermap-unresolved-payload";
                } else if d.ret.literal_depth().is_some_and(|k| k >= 2) && d.label != "filtermap-redeclared-name" {
                    d.label = if d.label == "filtermap-exact" { "filtermap-nested-literal-exact" } else { "filtermap-nested-literal-near" };
                }
            }
            // the pair with its own target, and with one or two other targets
            let di = decls.len();
            if was_exact && exact_of[j].is_none() {
                exact_of[j] = Some(di);
            }
            pairs.push(Pair { decl: Some(di), name: d.ask(), entry: t, label: d.label.to_string() });
            // … and with other family members, mostly of the same arity
            let ar = d.params.len();
            let other = if p.chance(1, 4) {
                targets[(j + 1 + p.below(targets_n as u64 - 1) as usize) % targets_n]
            } else {
                pick_where(&mut p, &|e| e.args.len() == ar)
            };
            pairs.push(Pair { decl: Some(di), name: d.ask(), entry: other, label: format!("cross:{}", d.label) });
            if thorough || p.chance(1, 3) {
                let r = pick_where(&mut p, &|e| e.args.len() == ar && e.ret == fam[t].ret);
                pairs.push(Pair { decl: Some(di), name: d.ask(), entry: r, label: format!("cross:{}", d.label) });
            }
            // a payload built from literals: every family member of the arity
            // whose verdict sides differ from the defaults in width / signedness /
            // float width / order at the literal's position
            if matches!(d.kind, Kind::Filtermap(..)) && d.ret.has_literal() && d.ret.literal_depth() >= Some(2) {
                for (i, e) in fam.iter().enumerate() {
                    if i != t && e.args.len() == ar && (e.group == "lit" || e.group == "litnear") && (thorough || e.args == fam[t].args) {
                        pairs.push(Pair { decl: Some(di), name: d.ask(), entry: i, label: "literal-payload-other-type".into() });
                    }
                }
            }
            // one-sided arities: also `fn() -> R` and the one-parameter prefix
            if matches!(label, "arity-plus-k-suffix" | "arity-plus-1") {
                for want in [0usize, 1] {
                    let pre: Vec<RT> = fam[t].args.iter().take(want).cloned().collect();
                    if let Some(i) = fam.iter().position(|e| e.args == pre && e.ret == fam[t].ret) {
                        if i != t {
                            pairs.push(Pair { decl: Some(di), name: d.ask(), entry: i, label: "prefix-of-parameters".into() });
                        }
                    }
                }
            }
            // a module-registered type named like a primitive, asked for as that primitive
            if cx.env != 0 {
                let as_prim = |t: &ST| -> Option<RT> {
                    fn go(r: RT, cx: &Cx) -> RT {
                        match r {
                            RT::Val(k) => match cx.reg_named_like(k) {
                                Some(n) => RT::Leaf(n),
                                None => RT::Val(k),
                            },
                            RT::Opt(t) => RT::Opt(Box::new(go(*t, cx))),
                            RT::List(t) => RT::List(Box::new(go(*t, cx))),
                            RT::Res(a, b) => RT::Res(Box::new(go(*a, cx)), Box::new(go(*b, cx))),
                            RT::Ver(a, b) => RT::Ver(Box::new(go(*a, cx)), Box::new(go(*b, cx))),
                            leaf => leaf,
                        }
                    }
                    t.map().map(|r| go(r, &cx))
                };
                let args2: Option<Vec<RT>> = d.params.iter().map(as_prim).collect();
                if let (Some(args2), Some(ret2)) = (args2, as_prim(&d.ret)) {
                    let same = d.params.iter().map(|t| t.map()).collect::<Option<Vec<RT>>>() == Some(args2.clone()) && d.ret.map() == Some(ret2.clone());
                    if !same {
                        if let Some(i) = fam.iter().position(|e| e.args == args2 && e.ret == ret2) {
                            pairs.push(Pair { decl: Some(di), name: d.ask(), entry: i, label: "as-primitive-of-same-name".into() });
                        }
                    }
                }
            }
            decls.push(d);
        }
    }
    // the true type of one function asked for its neighbour (a memo of verified
    // Rust types must not leak from one function to another)
    for j in 0..targets_n {
        if let (Some(di), Some(_)) = (exact_of[j], exact_of[(j + 1) % targets_n]) {
            let t2 = targets[(j + 1) % targets_n];
            if t2 != targets[j] {
                pairs.push(Pair { decl: Some(di), name: decls[di].ask(), entry: t2, label: "neighbours-true-type".into() });
            }
        }
    }
    // a filtermap with an unused side for a random fm-shaped target's parameter list
    // (covered above); one test
    let td = Decl { module: "", name: "t0".into(), kind: Kind::Test, params: vec![], ret: ST::Ver(Box::new(ST::Unit), Box::new(ST::Unit)), label: "test", target: 0 };
    let ti = decls.len();
    decls.push(td);
    // `fn() -> Verdict<(), ()>` is in the family (light, ret0)
    let tv = fam
        .iter()
        .position(|e| e.args.is_empty() && e.ret == RT::Ver(Box::new(RT::Leaf("()")), Box::new(RT::Leaf("()"))))
        .expect("fn() -> Verdict<(), ()> in family");
    pairs.push(Pair { decl: Some(ti), name: "test#t0".into(), entry: tv, label: "test-exact".into() });
    for _ in 0..3 {
        let r = if p.chance(1, 2) { targets[p.below(targets_n as u64) as usize] } else { p.below(fam.len() as u64) as usize };
        pairs.push(Pair { decl: Some(ti), name: "test#t0".into(), entry: r, label: "test-other".into() });
    }
    // name probes: unknown names under the true type of an existing function
    let d0 = 0usize;
    for nm in ["nope", "pkg.q0", "Q0", "q0 ", "", "t0", "test#", "q0.q0"] {
        pairs.push(Pair { decl: None, name: nm.to_string(), entry: decls[d0].target, label: "unknown-name".into() });
    }
    let mut src = String::from(PRELUDE);
    src.push_str(&cx.shadow_decls());
    for d in &decls {
        src.push_str(&d.src(&mut p, &cx));
    }
    (Script { src, decls, extras: vec![], cx, kind: script_kind }, pairs)
}

// ------------------------------------- names that are no function of the script

/// A declaration of the script that is **not** a function: a constant (whose
/// initialiser the compiler turns into a function of type `fn() -> T`), a
/// record, an enum. `get_function` must refuse its name under every type.
#[derive(Clone, Debug)]
struct Extra {
    /// `const` | `type`
    kind: &'static str,
    /// the module it stands in, below the package root: `""` or `"sub."`
    module: &'static str,
    name: String,
    /// a constant's type
    ty: Option<ST>,
    /// the declaration as written
    src: String,
}

impl Extra {
    fn sexp(&self, cx: &Cx) -> String {
        let m = hex(&format!("pkg.{}", self.module));
        match (self.kind, &self.ty) {
            ("const", Some(t)) => format!("(const #{m} #{} {})", hex(&self.name), t.sexp(cx)),
            _ => format!("(type #{m} #{})", hex(&self.name)),
        }
    }
}

/// the line that begins a further module in a script's text
const MODULE_MARK: &str = "\n//// module ";

/// Types a constant is declared at, each with an initialiser: every leaf
/// (passed in a register or through a pointer), `()`, and one or two levels of
/// every constructor. `fn() -> T` is in the family for each.
fn const_pool() -> Vec<(ST, &'static str)> {
    let b = |t: ST| Box::new(t);
    vec![
        (ST::Prim("u32"), "42"),
        (ST::Prim("String"), "\"hello\""),
        (ST::Prim("bool"), "true"),
        (ST::Prim("IpAddr"), "1.2.3.4"),
        (ST::Prim("i64"), "-5"),
        (ST::Prim("Prefix"), "1.2.3.0/24"),
        (ST::Prim("f64"), "1.5"),
        (ST::Prim("Asn"), "AS65000"),
        (ST::Prim("u8"), "7"),
        (ST::Prim("char"), "'x'"),
        (ST::Prim("f32"), "0.5"),
        (ST::Prim("u16"), "3"),
        (ST::Prim("i8"), "-1"),
        (ST::Prim("i16"), "2"),
        (ST::Prim("i32"), "-70000"),
        (ST::Prim("u64"), "9"),
        (ST::Unit, "()"),
        (ST::Opt(b(ST::Prim("u32"))), "Some(3)"),
        (ST::List(b(ST::Prim("u8"))), "[1, 2]"),
        (ST::Res(b(ST::Prim("u32")), b(ST::Prim("u32"))), "Ok(3)"),
        (ST::Ver(b(ST::Prim("u8")), b(ST::Unit)), "Verdict.Accept(7)"),
        (ST::Opt(b(ST::Opt(b(ST::Prim("u8"))))), "Some(Some(7))"),
        (ST::List(b(ST::List(b(ST::Prim("u64"))))), "[[9]]"),
        (ST::List(b(ST::Prim("String"))), "[\"a\", \"b\"]"),
    ]
}

fn find_entry(fam: &[Entry], args: &[RT], ret: &RT) -> Option<usize> {
    fam.iter().position(|e| e.args == args && e.ret == *ret)
}

fn unit_rt() -> RT {
    RT::Leaf("()")
}

/// `fn() -> Verdict<(), ()>`: the type of every test
fn test_entry(fam: &[Entry]) -> usize {
    find_entry(fam, &[], &RT::Ver(Box::new(unit_rt()), Box::new(unit_rt()))).expect("fn() -> Verdict<(), ()> in family")
}

fn mentions_reserved(t: &ST, cx: &Cx) -> bool {
    match t {
        ST::Prim(n) => cx.shadowed(n).is_some(),
        ST::Opt(x) => cx.shadowed("Option").is_some() || mentions_reserved(x, cx),
        ST::List(x) => cx.shadowed("List").is_some() || mentions_reserved(x, cx),
        ST::Res(a, b2) => cx.shadowed("Result").is_some() || mentions_reserved(a, cx) || mentions_reserved(b2, cx),
        ST::Ver(a, b2) => cx.shadowed("Verdict").is_some() || mentions_reserved(a, cx) || mentions_reserved(b2, cx),
        _ => false,
    }
}

fn const_extra(module: &'static str, name: &str, t: &ST, init: &str, cx: &Cx) -> Extra {
    let mut p = Prng::new(0);
    // a sub-module does not see the root's declarations: its type names are the global ones
    let plain = Cx::default();
    let ty = t.src(&mut p, if module.is_empty() { cx } else { &plain });
    Extra { kind: "const", module, name: name.into(), ty: Some(t.clone()), src: format!("const {name}: {ty} = {init};\n") }
}

/// The Rust function types a name that is no function is asked under:
/// `fn() -> T` for the item's own type (what the initialiser of a constant
/// is, as compiled code), `fn()`, the true type of a neighbouring function;
/// with `full` also the type of a test and a one-parameter shape.
fn shapes(fam: &[Entry], ty: Option<&ST>, neighbour: usize, full: bool) -> Vec<(&'static str, usize)> {
    let mut v = vec![];
    if let Some(i) = ty.and_then(|t| t.map()).and_then(|r| find_entry(fam, &[], &r)) {
        v.push(("nullary-of-its-type", i));
    }
    v.push(("unit-fn", find_entry(fam, &[], &unit_rt()).expect("fn() -> () in family")));
    v.push(("neighbours-true-type", neighbour));
    if full {
        v.push(("test-type", test_entry(fam)));
        v.push(("one-parameter", find_entry(fam, &[RT::Leaf("u64")], &unit_rt()).expect("fn(u64) -> () in family")));
    }
    v
}

/// The requests for every name of the script that is no function: constants
/// and types (as spelled, and in near-miss spellings: with the `pkg.` prefix,
/// as `constant#K`, through the wrong module), the bare names of tests,
/// functions through a wrong module path. All must be refused.
fn extra_pairs(fam: &[Entry], s: &Script, full: bool, out: &mut Vec<Pair>) {
    let neighbour = s.decls.first().map(|d| d.target).unwrap_or(0);
    let has_sub = s.src.contains(MODULE_MARK);
    let declared: BTreeSet<String> = s.decls.iter().map(|d| d.ask()).collect();
    let mut asked: BTreeSet<(String, usize)> = BTreeSet::new();
    let mut push = |name: String, entry: usize, label: String| {
        if !declared.contains(&name) && asked.insert((name.clone(), entry)) {
            out.push(Pair { decl: None, name, entry, label });
        }
    };
    for x in &s.extras {
        let what = if x.kind == "const" { "const" } else { "type" };
        let exact = format!("{}{}", x.module, x.name);
        for (shape, e) in shapes(fam, x.ty.as_ref(), neighbour, full) {
            push(exact.clone(), e, format!("not-a-function:{what}:{shape}"));
        }
        let mut spellings = vec![format!("pkg.{exact}"), format!("{exact} ")];
        if what == "const" {
            spellings.push(format!("{}constant#{}", x.module, x.name));
            spellings.push(format!("constant#{exact}"));
        }
        if x.name.to_lowercase() != x.name {
            spellings.push(format!("{}{}", x.module, x.name.to_lowercase()));
        }
        if !x.module.is_empty() {
            // through no module, and through the wrong one
            spellings.push(x.name.clone());
            spellings.push(format!("pkg.{}", x.name));
        } else if has_sub {
            spellings.push(format!("sub.{}", x.name));
        }
        if !full {
            spellings.truncate(3);
        }
        for sp in spellings {
            for (shape, e) in shapes(fam, x.ty.as_ref(), neighbour, false).into_iter().take(2) {
                push(sp.clone(), e, format!("not-a-function:{what}-spelling:{shape}"));
            }
        }
    }
    for d in &s.decls {
        match d.kind {
            // a test is `test#<name>`: its bare name is no function
            Kind::Test => {
                for (shape, e) in [("test-type", test_entry(fam)), ("unit-fn", find_entry(fam, &[], &unit_rt()).unwrap())] {
                    push(format!("{}{}", d.module, d.name), e, format!("not-a-function:test-bare-name:{shape}"));
                }
                if !d.module.is_empty() {
                    push(format!("test#{}", d.name), test_entry(fam), "not-a-function:wrong-module-path:true-type".into());
                    push(format!("test#{}{}", d.module, d.name), test_entry(fam), "not-a-function:wrong-module-path:true-type".into());
                }
            }
            _ if !d.module.is_empty() => {
                // a module's function without its path, with too much of it, with other separators
                let m = d.module.trim_end_matches('.');
                for nm in [d.name.clone(), format!("pkg.{m}.{}", d.name), format!("{m}.{m}.{}", d.name), format!("{m}::{}", d.name), format!("{m}/{}", d.name), format!(".{}", d.name)] {
                    push(nm, d.target, "not-a-function:wrong-module-path:true-type".into());
                }
            }
            _ if has_sub && (full || d.name == "q0") => {
                push(format!("sub.{}", d.name), d.target, "not-a-function:wrong-module-path:true-type".into());
            }
            _ => {}
        }
    }
}

/// a declaration with the signature of family entry `entry`
fn decl_of(fam: &[Entry], module: &'static str, name: &str, kind: Kind, entry: usize, label: &'static str) -> Decl {
    Decl { module, name: name.into(), kind, params: fam[entry].args.iter().map(unmap).collect(), ret: unmap(&fam[entry].ret), label, target: entry }
}

/// the text of a script: the root module (prelude, re-declared names, extras,
/// functions), then every further module after its marker line
fn assemble(cx: &Cx, decls: &[Decl], extras: &[Extra], p: &mut Prng) -> String {
    let mut src = String::from(PRELUDE);
    src.push_str(&cx.shadow_decls());
    for x in extras.iter().filter(|x| x.module.is_empty()) {
        src.push_str(&x.src);
    }
    for d in decls.iter().filter(|d| d.module.is_empty()) {
        src.push_str(&d.src(p, cx));
    }
    let mut modules: Vec<&'static str> = extras.iter().map(|x| x.module).chain(decls.iter().map(|d| d.module)).filter(|m| !m.is_empty()).collect();
    modules.sort();
    modules.dedup();
    let plain = Cx::default();
    for m in modules {
        src.push_str(MODULE_MARK);
        src.push_str(m.trim_end_matches('.'));
        src.push('\n');
        for x in extras.iter().filter(|x| x.module == m) {
            src.push_str(&x.src);
        }
        for d in decls.iter().filter(|d| d.module == m) {
            src.push_str(&d.src(p, &plain));
        }
    }
    src
}

/// number of class representatives at the head of every run
const REPS: u64 = 5;

/// Script number `k < REPS` of every run, whatever the seed: one per kind of
/// item that is not a function of the script — constants (every type of the
/// pool), the items of a sub-module, types and tests, generated helpers,
/// names the host registered. Each name is asked under every shape of
/// `shapes`; the functions of the script are asked under their true types too
/// (so the script is known to be what it is meant to be).
fn rep_script(fam: &[Entry], k: u64) -> (Script, Vec<Pair>) {
    let cx = Cx::default();
    let mut p = Prng::new(0xC04 + k);
    let e = |args: &[RT], ret: RT| find_entry(fam, args, &ret).expect("family entry of a representative");
    let leaf = |n: &'static str| RT::Leaf(n);
    let mut decls = vec![
        decl_of(fam, "", "q0", Kind::Fn, e(&[leaf("u32")], leaf("bool")), "exact"),
        decl_of(fam, "", "q1", Kind::Fn, e(&[], leaf("u32")), "exact"),
        decl_of(fam, "", "t0", Kind::Test, test_entry(fam), "test"),
    ];
    let mut extras: Vec<Extra> = vec![];
    let kind: &'static str = match k {
        0 => {
            // every type of the pool, a register-passed and a by-reference one first
            for (i, (t, init)) in const_pool().iter().enumerate() {
                extras.push(const_extra("", &format!("K{i}"), t, init, &cx));
            }
            // a constant whose name differs from a function's by case only, of that function's return type
            extras.push(const_extra("", "Q1", &ST::Prim("u32"), "1", &cx));
            "rep:constants"
        }
        1 => {
            extras.push(const_extra("", "K0", &ST::Prim("u32"), "42", &cx));
            extras.push(const_extra("sub.", "SK0", &ST::Prim("u32"), "5", &cx));
            extras.push(const_extra("sub.", "SK1", &ST::Prim("String"), "\"sub\"", &cx));
            extras.push(const_extra("sub.", "K0", &ST::Prim("bool"), "true", &cx));
            extras.push(Extra { kind: "type", module: "sub.", name: "SR".into(), ty: None, src: "record SR { a: u8 }\n".into() });
            decls.push(decl_of(fam, "sub.", "s0", Kind::Fn, e(&[leaf("u8")], leaf("u8")), "exact"));
            decls.push(decl_of(fam, "sub.", "s1", Kind::Fn, e(&[], leaf("bool")), "exact"));
            decls.push(decl_of(fam, "sub.", "st", Kind::Test, test_entry(fam), "test"));
            "rep:sub-module"
        }
        2 => {
            extras.push(Extra { kind: "type", module: "", name: "G0".into(), ty: None, src: "record G0[T] { a: T }\n".into() });
            extras.push(Extra { kind: "type", module: "", name: "H0".into(), ty: None, src: "enum H0[T] { A(T), B }\n".into() });
            // a test and a function of one name: two different keys
            decls.push(decl_of(fam, "", "q0", Kind::Test, test_entry(fam), "test"));
            decls.push(decl_of(fam, "", "t1", Kind::Test, test_entry(fam), "test"));
            "rep:types-and-tests"
        }
        3 => {
            // constants and list literals make the compiler generate drop / clone / eq helpers
            for (i, (t, init)) in const_pool().iter().enumerate().filter(|(_, (t, _))| matches!(t, ST::Prim("String") | ST::List(_) | ST::Opt(_))) {
                extras.push(const_extra("", &format!("K{i}"), t, init, &cx));
            }
            "rep:generated-helpers"
        }
        _ => "rep:host-names",
    };
    // the prelude's types are items of every script
    for n in ["R0", "E0"] {
        extras.push(Extra { kind: "type", module: "", name: n.into(), ty: None, src: String::new() });
    }
    let src = assemble(&cx, &decls, &extras, &mut p);
    let script = Script { src, decls, extras, cx, kind };
    let mut pairs: Vec<Pair> = vec![];
    for (di, d) in script.decls.iter().enumerate() {
        pairs.push(Pair { decl: Some(di), name: d.ask(), entry: d.target, label: if matches!(d.kind, Kind::Test) { "test-exact".into() } else { "exact".into() } });
        // … and under the other declarations' true types
        for o in script.decls.iter().filter(|o| o.target != d.target) {
            pairs.push(Pair { decl: Some(di), name: d.ask(), entry: o.target, label: "neighbours-true-type".into() });
        }
    }
    extra_pairs(fam, &script, true, &mut pairs);
    (script, pairs)
}

/// Script number `index` of a run: the class representatives first, then the
/// generated scripts — each with a few declarations that are no functions
/// (constants of types walking the pool, every third script a sub-module with
/// a function, a test and a constant of its own).
fn gen_script(fam: &[Entry], seed: u64, index: u64, thorough: bool) -> (Script, Vec<Pair>) {
    if index < REPS {
        return rep_script(fam, index);
    }
    let (mut script, mut pairs) = gen_random_script(fam, seed, index - REPS, thorough);
    let mut p = Prng::for_case(seed ^ 0xE87A, index);
    let pool: Vec<(ST, &'static str)> = const_pool().into_iter().filter(|(t, _)| !mentions_reserved(t, &script.cx)).collect();
    let start = (seed as usize).wrapping_mul(7).wrapping_add(index as usize * 3);
    for i in 0..3usize {
        let (t, init) = &pool[(start + i) % pool.len()];
        script.extras.push(const_extra("", &format!("K{i}"), t, init, &script.cx));
    }
    if index % 3 == 0 {
        let leafy = |e: &Entry| e.args.len() <= 2 && e.args.iter().chain(std::iter::once(&e.ret)).all(|r| matches!(r, RT::Leaf(_)));
        let cands: Vec<usize> = (0..fam.len()).filter(|i| leafy(&fam[*i])).collect();
        let t = *p.pick(&cands);
        script.decls.push(decl_of(fam, "sub.", "s0", Kind::Fn, t, "exact"));
        script.decls.push(decl_of(fam, "sub.", "st", Kind::Test, test_entry(fam), "test"));
        let (ty, init) = &pool[(start + 3) % pool.len()];
        script.extras.push(const_extra("sub.", "SK0", ty, init, &script.cx));
        for di in [script.decls.len() - 2, script.decls.len() - 1] {
            let d = &script.decls[di];
            pairs.push(Pair { decl: Some(di), name: d.ask(), entry: d.target, label: if matches!(d.kind, Kind::Test) { "test-exact".into() } else { "exact".into() } });
        }
    }
    for n in ["R0", "E0"] {
        script.extras.push(Extra { kind: "type", module: "", name: n.into(), ty: None, src: String::new() });
    }
    // the text: the generated root as it is, the extras of the root after it, then the sub-module
    for x in script.extras.iter().filter(|x| x.module.is_empty()) {
        script.src.push_str(&x.src);
    }
    if script.decls.iter().any(|d| !d.module.is_empty()) {
        script.src.push_str(MODULE_MARK);
        script.src.push_str("sub\n");
        for x in script.extras.iter().filter(|x| !x.module.is_empty()) {
            script.src.push_str(&x.src);
        }
        let plain = Cx::default();
        for d in script.decls.iter().filter(|d| !d.module.is_empty()) {
            script.src.push_str(&d.src(&mut p, &plain));
        }
    }
    extra_pairs(fam, &script, false, &mut pairs);
    (script, pairs)
}

fn lean_request(s: &Script, helpers: &[String], pair: &Pair, e: &Entry, p: &mut Prng) -> String {
    let mut fns = String::new();
    let mut seen = BTreeSet::new();
    if let Some(di) = pair.decl {
        fns.push_str(&s.decls[di].sexp(&s.cx));
        seen.insert(di);
    }
    for _ in 0..3 {
        let k = p.below(s.decls.len() as u64) as usize;
        if seen.insert(k) {
            fns.push(' ');
            fns.push_str(&s.decls[k].sexp(&s.cx));
        }
    }
    // name probes must see every declared key, and every declaration that is no function
    if pair.decl.is_none() {
        for (k, d) in s.decls.iter().enumerate() {
            if seen.insert(k) {
                fns.push(' ');
                fns.push_str(&d.sexp(&s.cx));
            }
        }
        for x in &s.extras {
            fns.push(' ');
            fns.push_str(&x.sexp(&s.cx));
        }
    }
    for h in helpers.iter().take(if pair.decl.is_none() { 50 } else { 2 }) {
        fns.push_str(&format!(" (helper #{})", hex(h)));
    }
    let sx = format!(
        "(get {} (fns {fns}) #{} (rust ({}) {}))",
        s.cx.env_sexp(),
        hex(&pair.name),
        e.args.iter().map(rt_sexp).collect::<Vec<_>>().join(" "),
        rt_sexp(&e.ret)
    );
    format!("c04 get {}", hex(&sx))
}

/// The file tree of a script's text: the root module, and one child module
/// per `//// module <name>` line.
fn file_tree(src: &str) -> FileTree {
    let mut parts = src.split(MODULE_MARK);
    let mut tree = FileTree::test_file("c04.roto", parts.next().unwrap_or(""), 0);
    for part in parts {
        let (name, body) = part.split_once('\n').unwrap_or((part, ""));
        let idx = tree.files.len();
        tree.files.push(roto::SourceFile {
            name: format!("{}.roto", name.trim()),
            module_name: name.trim().to_string(),
            contents: body.to_string(),
            location_offset: 0,
            children: Vec::new(),
        });
        tree.files[0].children.push(idx);
    }
    tree
}

fn compile(src: &str, rt: &Runtime<NoCtx>) -> Result<Result<Package<NoCtx>, String>, ()> {
    std::panic::catch_unwind(std::panic::AssertUnwindSafe(|| file_tree(src).compile(rt).map_err(|e| e.to_string()))).map_err(|_| ())
}

/// One request of a history on one package.
type Req = (String, usize);

/// The answer to `last` on a fresh package after the requests `before`.
fn fresh_answer(fam: &[Entry], rt: &Runtime<NoCtx>, src: &str, before: &[Req], last: &Req) -> Option<String> {
    let mut pkg = compile(src, rt).ok()?.ok()?;
    for (name, e) in before {
        let _ = (fam[*e].probe)(&mut pkg, name);
    }
    Some(canon(&(fam[last.1].probe)(&mut pkg, &last.0)))
}

/// A wrong answer was seen for `log[k]` after `log[..k]` on one package. Find
/// the shortest of: no history, the same request asked before, the earlier
/// requests for the same name, the earlier requests under the same Rust type,
/// the whole prefix — that reproduces it on a fresh package.
fn minimise_history(fam: &[Entry], rt: &Runtime<NoCtx>, src: &str, log: &[Req], k: usize, wrong: &str) -> (Vec<Req>, &'static str) {
    let last = &log[k];
    let same = |b: &[Req]| fresh_answer(fam, rt, src, b, last).as_deref() == Some(wrong);
    if same(&[]) {
        return (vec![], "none");
    }
    let one = vec![last.clone()];
    if same(&one) {
        return (one, "same-request-repeated");
    }
    let by_name: Vec<Req> = log[..k].iter().filter(|r| r.0 == last.0).cloned().collect();
    if same(&by_name) {
        // one earlier request may be enough
        for r in &by_name {
            if same(std::slice::from_ref(r)) {
                return (vec![r.clone()], "one-earlier-request-for-the-same-function");
            }
        }
        return (by_name, "earlier-requests-for-the-same-function");
    }
    let by_type: Vec<Req> = log[..k].iter().filter(|r| r.1 == last.1).cloned().collect();
    if same(&by_type) {
        for r in &by_type {
            if same(std::slice::from_ref(r)) {
                return (vec![r.clone()], "one-earlier-request-under-the-same-rust-type");
            }
        }
        return (by_type, "earlier-requests-under-the-same-rust-type");
    }
    (log[..k].to_vec(), "whole-prefix")
}

// ------------------------------------------------ the process as a state

/// One request made earlier in this worker process: (script index, name,
/// family entry, answer). `get_function` consults the process-wide
/// `TypeRegistry`, so what a process asked before — on *any* package — is
/// state a wrong answer may depend on; a replay has to start from a fresh
/// process and carry the part of that history that matters.
type ProcReq = (u64, String, usize, String);

/// What the worker knows about itself while judging.
struct Proc {
    seed: u64,
    thorough: bool,
    /// requests on the packages of earlier scripts, in order
    log: Vec<ProcReq>,
    /// violation classes whose first instance was examined in fresh processes ↦ the dependence found
    class_dep: std::collections::BTreeMap<String, String>,
    /// process histories that explained an earlier violation of this worker
    found: Vec<Vec<ProcReq>>,
    /// fresh-process trials left for this worker
    budget: u32,
    /// wall time this worker spent in fresh-process trials (capped: the cross-package representatives give the
    /// cheap cold-start inputs; this search is for what they do not cover)
    spent: std::time::Duration,
    /// wrong answers seen per violation class
    per_class: std::collections::BTreeMap<String, u32>,
}

/// `[{script, env, index, requests: [{name, rust_type}…]}…]`: consecutive
/// requests on one script share a package.
fn proc_groups(fam: &[Entry], pc: &Proc, steps: &[ProcReq]) -> Value {
    let mut groups: Vec<Value> = vec![];
    let mut cur: Option<u64> = None;
    for (idx, name, e, _) in steps {
        if cur != Some(*idx) {
            let (sc, _) = gen_script(fam, pc.seed, *idx, pc.thorough);
            groups.push(json!({"index": idx, "env": sc.cx.env, "script": sc.src, "requests": []}));
            cur = Some(*idx);
        }
        let g = groups.last_mut().unwrap();
        g["requests"].as_array_mut().unwrap().push(json!({"name": name, "rust_type": fam[*e].show()}));
    }
    Value::Array(groups)
}

/// The answer a *fresh process* gives to the request described by `input`
/// (`process_history`, `script`, `env`, `history`, `name`, `rust_type`).
fn answer_in_fresh_process(input: &Value) -> Option<String> {
    use std::io::Write;
    use std::process::{Command, Stdio};
    let exe = std::env::current_exe().ok()?;
    let mut child = Command::new(exe).arg("answer").stdin(Stdio::piped()).stdout(Stdio::piped()).stderr(Stdio::null()).spawn().ok()?;
    let text = input.to_string();
    let mut stdin = child.stdin.take()?;
    // the child reads all of stdin before it answers, so writing cannot block on its output
    let w = std::thread::spawn(move || {
        let _ = stdin.write_all(text.as_bytes());
    });
    let out = child.wait_with_output().ok()?;
    let _ = w.join();
    String::from_utf8_lossy(&out.stdout).lines().find_map(|l| l.strip_prefix("ANSWER ").map(|a| a.to_string()))
}

/// Execute a replay description in this process: the earlier packages of the
/// process history, then the script, the earlier requests on its package, the
/// request. Returns the canonical answer and a transcript.
fn replay_here(fam: &[Entry], v: &Value) -> (String, Vec<String>) {
    let mut lines = vec![];
    let find = |ty: &str| fam.iter().find(|e| e.show() == ty).expect("rust type in family");
    if let Some(groups) = v["process_history"].as_array() {
        for (gi, g) in groups.iter().enumerate() {
            let rt = runtime(g["env"].as_u64().unwrap_or(0) as usize);
            let src = g["script"].as_str().unwrap_or("");
            let Ok(Ok(mut pkg)) = compile(src, &rt) else {
                lines.push(format!("earlier package {}: does not compile", gi + 1));
                continue;
            };
            for r in g["requests"].as_array().map(|a| &a[..]).unwrap_or(&[]) {
                let (hn, ht) = (r["name"].as_str().unwrap_or(""), r["rust_type"].as_str().unwrap_or(""));
                let a = canon(&(find(ht).probe)(&mut pkg, hn));
                if lines.len() < 40 {
                    lines.push(format!("earlier package {} (script {}): get_function::<{ht}>({hn:?}) -> {a}", gi + 1, g["index"]));
                }
            }
        }
    }
    let rt = runtime(v["env"].as_u64().unwrap_or(0) as usize);
    let src = v["script"].as_str().expect("script");
    let name = v["name"].as_str().expect("name");
    let ty = v["rust_type"].as_str().expect("rust_type");
    let mut pkg = file_tree(src).compile(&rt).map_err(|e| e.to_string()).expect("compiles");
    if let Some(h) = v["history"].as_array() {
        for (i, r) in h.iter().enumerate() {
            let (hn, ht) = (r["name"].as_str().unwrap_or(""), r["rust_type"].as_str().unwrap_or(""));
            let a = canon(&(find(ht).probe)(&mut pkg, hn));
            if lines.len() < 80 {
                lines.push(format!("before {:>3}: get_function::<{ht}>({hn:?}) -> {a}", i + 1));
            }
        }
    }
    (canon(&(find(ty).probe)(&mut pkg, name)), lines)
}

/// Retrieve and call functions of a script in a child process (`c04 calls`):
/// for each `(name, family entry)` the `Debug` rendering of what the call
/// returned, `"crashed"` if the child died in it, `None` if the handle was not
/// granted or the call was not made.
fn calls_in_child(fam: &[Entry], src: &str, env: usize, calls: &[(String, usize)]) -> Vec<Option<String>> {
    use std::io::Write;
    use std::process::{Command, Stdio};
    let mut out: Vec<Option<String>> = vec![None; calls.len()];
    let mut from = 0usize;
    for _ in 0..6 {
        if from >= calls.len() {
            break;
        }
        let input = json!({"script": src, "env": env,
            "calls": calls[from..].iter().map(|(n, e)| json!({"name": n, "rust_type": fam[*e].show()})).collect::<Vec<_>>()});
        let Ok(exe) = std::env::current_exe() else { break };
        let Ok(mut child) = Command::new(exe).arg("calls").stdin(Stdio::piped()).stdout(Stdio::piped()).stderr(Stdio::null()).spawn() else { break };
        if let Some(mut stdin) = child.stdin.take() {
            let _ = stdin.write_all(input.to_string().as_bytes());
        }
        // the output is a few short lines: it fits the pipe, so waiting first cannot block the child
        let start = std::time::Instant::now();
        let mut timed_out = false;
        loop {
            match child.try_wait() {
                Ok(Some(_)) => break,
                Ok(None) if start.elapsed().as_secs() > 30 => {
                    let _ = child.kill();
                    timed_out = true;
                    break;
                }
                Ok(None) => std::thread::sleep(std::time::Duration::from_millis(5)),
                Err(_) => break,
            }
        }
        let Ok(o) = child.wait_with_output() else { break };
        let text = String::from_utf8_lossy(&o.stdout).to_string();
        let mut started: Option<usize> = None;
        let mut done = 0usize;
        for l in text.lines() {
            if let Some(i) = l.strip_prefix("CALL ").and_then(|x| x.parse::<usize>().ok()) {
                started = Some(i);
            } else if let Some(rest) = l.strip_prefix("RET ") {
                let (i, v) = rest.split_once(' ').unwrap_or((rest, "-"));
                if let Ok(i) = i.parse::<usize>() {
                    if from + i < out.len() {
                        out[from + i] = if v == "-" { None } else { Some(v.to_string()) };
                    }
                    done = i + 1;
                    started = None;
                }
            }
        }
        match started {
            // the child died (or hung) inside call number `i`
            Some(i) if from + i < out.len() => {
                out[from + i] = Some(if timed_out { "did not return".into() } else { "crashed".into() });
                from += i + 1;
            }
            _ => {
                if done == 0 {
                    break;
                }
                from += done;
            }
        }
    }
    out
}

fn rt_ctors(r: &RT, out: &mut BTreeSet<&'static str>) {
    match r {
        RT::Leaf(_) => {}
        RT::Val(_) => {
            out.insert("Val");
        }
        RT::Opt(t) => {
            out.insert("Option");
            rt_ctors(t, out);
        }
        RT::List(t) => {
            out.insert("List");
            rt_ctors(t, out);
        }
        RT::Res(a, b) => {
            out.insert("Result");
            rt_ctors(a, out);
            rt_ctors(b, out);
        }
        RT::Ver(a, b) => {
            out.insert("Verdict");
            rt_ctors(a, out);
            rt_ctors(b, out);
        }
    }
}

fn entry_ctors(e: &Entry) -> BTreeSet<&'static str> {
    let mut s = BTreeSet::new();
    for r in e.args.iter().chain(std::iter::once(&e.ret)) {
        rt_ctors(r, &mut s);
    }
    s
}

/// A wrong answer `wrong` was seen for the request in `base` (which carries
/// the package-level history the in-process minimisation found). Decide in
/// fresh processes what it depends on and return the replay input that
/// reproduces it from a cold start, with the kind of dependence:
///  * `none` — the request (with its package history) alone;
///  * `package-history` — earlier requests on the same package that the
///    in-process minimisation could not see (this process was already warm);
///  * `one-earlier-request-in-the-process` — one request on another package;
///  * `earlier-requests-in-the-process` — a run of them (shortest found);
///  * `not-reproduced-in-a-fresh-process`.
fn minimise_process_history(fam: &[Entry], pc: &mut Proc, base: &Value, pkg_prefix: &[Req], last: &Req, wrong: &str) -> (Value, &'static str) {
    let with = |ph: Value, hist: Option<&[Req]>| -> Value {
        let mut v = base.clone();
        v["process_history"] = ph;
        if let Some(h) = hist {
            v["history"] = Value::Array(h.iter().map(|(nm, e)| json!({"name": nm, "rust_type": fam[*e].show()})).collect());
        }
        v
    };
    let trial = |pc: &mut Proc, v: &Value| -> bool {
        if pc.budget == 0 || pc.spent.as_secs() >= if pc.thorough { 600 } else { 40 } {
            return false;
        }
        pc.budget -= 1;
        let t0 = std::time::Instant::now();
        let same = answer_in_fresh_process(v).as_deref() == Some(wrong);
        pc.spent += t0.elapsed();
        same
    };
    // 1. cold start, the package history as minimised in this process
    let v0 = with(json!([]), None);
    if trial(pc, &v0) {
        return (v0, "none");
    }
    // 2. a process history that explained an earlier violation of this worker
    for h in pc.found.clone() {
        let v = with(proc_groups(fam, pc, &h), None);
        if trial(pc, &v) {
            return (v, if h.len() == 1 { "one-earlier-request-in-the-process" } else { "earlier-requests-in-the-process" });
        }
    }
    // 3. cold start, everything asked before on this package
    let full = with(json!([]), Some(pkg_prefix));
    if trial(pc, &full) {
        let want = entry_ctors(&fam[last.1]);
        let mut seen = BTreeSet::new();
        for r in pkg_prefix.iter().filter(|r| seen.insert(r.1) && !entry_ctors(&fam[r.1]).is_disjoint(&want)).take(10) {
            let v = with(json!([]), Some(std::slice::from_ref(r)));
            if trial(pc, &v) {
                return (v, "package-history");
            }
        }
        return (full, "package-history");
    }
    // 4. one earlier request on another package: the same request first, then the first
    // request per Rust type that shares a type constructor with this one (granted ones first)
    let want = entry_ctors(&fam[last.1]);
    let mut cands: Vec<ProcReq> = vec![];
    let mut seen = BTreeSet::new();
    for r in pc.log.iter().filter(|r| r.1 == last.0 && r.2 == last.1).take(2) {
        cands.push(r.clone());
    }
    for pass in 0..2 {
        for r in pc.log.iter() {
            let granted = r.3 == "ok";
            let reached = !(r.3.starts_with("dne") || r.3.starts_with("arity"));
            if ((pass == 0 && granted) || (pass == 1 && reached && !granted)) && !entry_ctors(&fam[r.2]).is_disjoint(&want) && seen.insert((pass, r.2)) {
                cands.push(r.clone());
            }
            if cands.len() >= 10 * (pass + 1) + 2 {
                break;
            }
        }
    }
    for c in &cands {
        let v = with(proc_groups(fam, pc, std::slice::from_ref(c)), None);
        if trial(pc, &v) {
            pc.found.push(vec![c.clone()]);
            return (v, "one-earlier-request-in-the-process");
        }
    }
    // 5. everything this process asked before; then the shortest prefix, then its shortest tail
    let log = pc.log.clone();
    let all = with(proc_groups(fam, pc, &log), Some(pkg_prefix));
    if !trial(pc, &all) {
        return (v0, "not-reproduced-in-a-fresh-process");
    }
    let (mut lo, mut hi) = (0usize, log.len());
    while hi - lo > 1 && pc.budget > 0 {
        let mid = (lo + hi) / 2;
        let v = with(proc_groups(fam, pc, &log[..mid]), Some(pkg_prefix));
        if trial(pc, &v) { hi = mid } else { lo = mid }
    }
    let k = hi;
    let (mut lo, mut hi) = (0usize, k);
    // invariant: log[lo..k] reproduces
    while hi - lo > 1 && pc.budget > 0 {
        let mid = (lo + hi) / 2;
        let v = with(proc_groups(fam, pc, &log[mid..k]), Some(pkg_prefix));
        if trial(pc, &v) { lo = mid } else { hi = mid }
    }
    let h = log[lo..k].to_vec();
    let v = with(proc_groups(fam, pc, &h), Some(pkg_prefix));
    let kind = if h.len() == 1 { "one-earlier-request-in-the-process" } else { "earlier-requests-in-the-process" };
    pc.found.push(h);
    (v, kind)
}

/// A type as the type checker prints it (`u32`, `Option[List[u8]]`, `u8?`,
/// `foo.String`), as the Rust type the documented mapping assigns to it.
fn parse_ty(t: &str, cx: &Cx) -> Option<RT> {
    let t = t.trim();
    if let Some(inner) = t.strip_suffix('?') {
        return Some(RT::Opt(Box::new(parse_ty(inner, cx)?)));
    }
    if t == "()" {
        return Some(unit_rt());
    }
    let (head, args): (&str, Vec<String>) = match t.find('[') {
        Some(i) if t.ends_with(']') => {
            let (mut depth, mut cur, mut out) = (0i32, String::new(), vec![]);
            for c in t[i + 1..t.len() - 1].chars() {
                match c {
                    '[' | '(' => depth += 1,
                    ']' | ')' => depth -= 1,
                    ',' if depth == 0 => {
                        out.push(std::mem::take(&mut cur));
                        continue;
                    }
                    _ => {}
                }
                cur.push(c);
            }
            out.push(cur);
            (&t[..i], out)
        }
        _ => (t, vec![]),
    };
    if cx.shadowed(head).is_some() {
        return None;
    }
    let args = args.iter().map(|a| parse_ty(a, cx)).collect::<Option<Vec<RT>>>()?;
    let n_args = args.len();
    let mut args = args.into_iter();
    let mut next = || Box::new(args.next().unwrap());
    Some(match (head, n_args) {
        ("Option", 1) => RT::Opt(next()),
        ("List", 1) => RT::List(next()),
        ("Result", 2) => RT::Res(next(), next()),
        ("Verdict", 2) => RT::Ver(next(), next()),
        ("String", 0) => RT::Leaf("RotoString"),
        (n, 0) => match PRIMS.iter().find(|p| **p == n) {
            Some(p) => RT::Leaf(p),
            None => RT::Val((0..2u8).find(|k| cx.reg_path(*k) == n)?),
        },
        _ => return None,
    })
}

struct Judged {
    expected_ok: bool,
    class: Option<String>,
    first: String,
    model: String,
}

/// A dumped union-find table (hook `Package::verif_c04_unionfind`) as driver tokens: the slots and the real
/// `find_ref` of every slot. Types that are no variables are numbered by their text (`ids`, shared between the
/// dumps of one package so that the numbers mean the same before and after the requests).
fn uf_encode(tab: &[(roto::verif_hooks::c04::UfSlot, roto::verif_hooks::c04::UfSlot)], ids: &mut BTreeMap<String, usize>) -> (Vec<String>, Vec<String>) {
    let mut enc = |s: &roto::verif_hooks::c04::UfSlot| match s.var {
        Some((k, i)) => format!("V{}{i}", match k { "Var" => 'v', "IntVar" => 'i', "FloatVar" => 'f', "RecordVar" => 'r', _ => 'e' }),
        None => {
            let n = ids.len();
            format!("T{}", *ids.entry(s.text.clone()).or_insert(n))
        }
    };
    let slots = tab.iter().map(|(s, _)| enc(s)).collect();
    let res = tab.iter().map(|(_, r)| enc(r)).collect();
    (slots, res)
}

/// The package's union-find table before its first request against the modelled `find` / `find_ref`
/// (`RotoV.GateUF`, variable kinds as generated): the model looks up every index in turn on one table and must
/// give, lookup by lookup, what the real `find_ref` gives; the read-only lookup on the table those lookups left
/// must give the same again.
fn uf_before(drv: &mut Driver, rep: &mut Report, seed: u64, index: u64, src: &str, slots: &[String], res: &[String]) {
    if slots.is_empty() {
        rep.hist("uf-table", "empty");
        return;
    }
    let ans = drv.ask(&format!("c04 uf {}", slots.join(" ")));
    rep.evaluations += 1;
    let parts: Vec<Vec<&str>> = ans.split(" | ").map(|p| p.split(' ').filter(|t| !t.is_empty()).collect()).collect();
    let want: Vec<&str> = res.iter().map(|s| s.as_str()).collect();
    let ok = parts.len() == 3 && parts[0] == want && parts[2] == want && parts[1].len() == slots.len();
    if !ok {
        let at = parts.first().and_then(|a| (0..want.len()).find(|&i| a.get(i) != Some(&want[i])));
        rep.mismatch(
            "the modelled UnionFind::find / find_ref and the real find_ref disagree on a package's type-variable table",
            json!({"seed": seed, "index": index, "script": src, "slots": slots.len(), "first_difference_at": at,
                   "slot": at.map(|i| slots[i].clone()), "real": at.map(|i| res[i].clone()),
                   "model": at.and_then(|i| parts.first().and_then(|a| a.get(i).map(|s| s.to_string()))),
                   "driver": if parts.len() == 3 { String::new() } else { ans.chars().take(200).collect() }}),
        );
    }
    let bound = slots.iter().zip(res).filter(|(s, r)| s != r).count();
    let compressed = if parts.len() == 3 { parts[1].iter().zip(slots).filter(|(a, b)| *a != b).count() } else { 0 };
    rep.hist("uf-table", if ok { "as modelled" } else { "differs from the model" });
    rep.hist("uf-slots", match slots.len() { 0..=99 => "<100", 100..=999 => "100..999", _ => ">=1000" });
    rep.hist("uf-bound-slots", if bound == 0 { "none" } else { "some" });
    rep.hist("uf-chains (the modelled find compresses)", if compressed == 0 { "none" } else { "some" });
}

/// The same table after all requests on the package: every slot still resolves to what it resolved to before
/// (`RotoV.C04UF.find_keeps_every_resolution`, `resolve_history_independent`), and a slot that changed holds its
/// resolution (the one write of `find`).
fn uf_after(rep: &mut Report, seed: u64, index: u64, src: &str, before: &(Vec<String>, Vec<String>), before_text: &[(String, String)], after: &(Vec<String>, Vec<String>), after_text: &[(String, String)]) {
    rep.evaluations += 1;
    let n = before.0.len();
    let mut bad: Option<(usize, &'static str)> = None;
    if after.0.len() != n {
        bad = Some((n.min(after.0.len()), "the table changed its length"));
    } else {
        for i in 0..n {
            if after.1[i] != before.1[i] || after_text[i].1 != before_text[i].1 {
                bad = Some((i, "a slot resolves to something else than before the requests"));
                break;
            }
            let same = after.0[i] == before.0[i] && after_text[i].0 == before_text[i].0;
            let is_res = after.0[i] == before.1[i] && after_text[i].0 == before_text[i].1;
            if !same && !is_res {
                bad = Some((i, "a slot was overwritten with something that is not its resolution"));
                break;
            }
        }
    }
    let changed = (0..n.min(after.0.len())).filter(|&i| after.0[i] != before.0[i]).count();
    rep.hist("uf-slots-rewritten-by-requests", if changed == 0 { "none" } else { "some" });
    rep.class(format!("uf|{}", if changed == 0 { "untouched" } else { "compressed" }));
    if let Some((i, what)) = bad {
        rep.mismatch(
            "the requests made on a package changed its type-variable table otherwise than by path compression (the model threads the package unchanged)",
            json!({"seed": seed, "index": index, "script": src, "what": what, "slot": i,
                   "before": before_text.get(i), "after": after_text.get(i)}),
        );
    }
}

/// **Cross-package class representatives** (run first, whatever the seed). Whatever the process remembers
/// about a request — the `TypeRegistry` is process-global — a type-checker `Type` in a signature means something
/// only relative to the package it belongs to: `Type::Var(n)` indexes that package's union-find table, a name is
/// resolved in that package's scope graph against the runtime it was compiled with. So: two packages compiled
/// from scripts of the *same shape* (the type-variable numbering coincides) whose filtermaps have different
/// inferred payload types, and two runtimes that register different Rust types under the same name. In a fresh
/// process the first package is asked for its function under its true type (granted), then the second package
/// is asked for its function under the *first* package's type: must be refused; under its own: granted. Each
/// representative runs in its own child process, so the replay (the same description) starts cold by construction.
fn cross_package_reps(fam: &[Entry], rep: &mut Report, seed: u64) {
    let pay: [(&str, &str); 8] = [
        ("Some(70000)", "Option<i32>"), ("[70000]", "List<i32>"), ("Some(0.5)", "Option<f64>"), ("[0.5]", "List<f64>"),
        ("[[0.5]]", "List<List<f64>>"), ("Some(Some(70000))", "Option<Option<i32>>"), ("Some([70000])", "Option<List<i32>>"), ("[Some(0.5)]", "List<Option<f64>>"),
    ];
    type Mk = fn(&str) -> String;
    let shapes: [(&str, Mk, Mk); 3] = [
        ("accept-side", |e| format!("filtermap f() {{ accept {e} }}"), |t| format!("fn() -> Verdict<{t}, ()>")),
        ("reject-side", |e| format!("filtermap f() {{ reject {e} }}"), |t| format!("fn() -> Verdict<(), {t}>")),
        ("reject-side-beside-a-parameter", |e| format!("filtermap f(p0: u8) {{ if true {{ accept p0 }} else {{ reject {e} }} }}"), |t| format!("fn(u8) -> Verdict<u8, {t}>")),
    ];
    // (class, env A, script A, type A, env B, script B, type asked of B, expected ok)
    let mut reps: Vec<(String, usize, String, String, usize, String, String, bool)> = vec![];
    for (si, (shape, mk_src, mk_ty)) in shapes.iter().enumerate() {
        for i in 0..pay.len() {
            let (a, b) = (pay[i], pay[(i + 1 + si) % pay.len()]);
            reps.push((format!("same-shape-script-other-payload:{shape}"), 0, mk_src(a.0), mk_ty(a.1), 0, mk_src(b.0), mk_ty(a.1), false));
            if si == 0 {
                reps.push((format!("same-shape-script-own-payload:{shape}"), 0, mk_src(a.0), mk_ty(a.1), 0, mk_src(b.0), mk_ty(b.1), true));
            }
        }
    }
    for (src, ty_foo, ty_bar) in [
        ("fn f(x: Foo) {}", "fn(Val<Foo>) -> ()", "fn(Val<Bar>) -> ()"),
        ("fn f() -> Foo? { None }", "fn() -> Option<Val<Foo>>", "fn() -> Option<Val<Bar>>"),
    ] {
        reps.push(("same-name-other-runtime".into(), 0, src.into(), ty_foo.into(), 4, src.into(), ty_foo.into(), false));
        reps.push(("same-name-other-runtime:own-type".into(), 0, src.into(), ty_foo.into(), 4, src.into(), ty_bar.into(), true));
        reps.push(("same-name-other-runtime".into(), 4, src.into(), ty_bar.into(), 0, src.into(), ty_bar.into(), false));
    }
    for (k, (class, env_a, src_a, ty_a, env_b, src_b, ty_b, expected_ok)) in reps.into_iter().enumerate() {
        if fam.iter().all(|e| e.show() != ty_a) || fam.iter().all(|e| e.show() != ty_b) {
            rep.mismatch("a cross-package representative asks for a Rust type outside the family", json!({"type_a": ty_a, "type_b": ty_b}));
            continue;
        }
        let expected = if expected_ok { "ok".to_string() } else { format!("refused (cross-package:{class}: the requested type is the true signature of the function of the same name in another package of this process)") };
        let mut v = json!({
            "seed": seed, "index": format!("cross-package representative {k}"), "env": env_b, "script": src_b, "function": src_b,
            "name": "f", "rust_type": ty_b, "label": format!("cross-package:{class}"), "expected": expected,
            "history": [], "history_kind": "none",
            "process_history": [{"index": format!("cross-package representative {k}, first package"), "env": env_a, "script": src_a, "requests": [{"name": "f", "rust_type": ty_a}]}],
            "process_history_kind": "one-earlier-request-in-the-process",
        });
        let real = answer_in_fresh_process(&v);
        rep.evaluations += 1;
        let outcome = match real.as_deref() { Some("ok") => "granted", Some("panic") => "panic", Some(_) => "refused", None => "no answer" };
        rep.hist("cross-package", format!("{}: {outcome}", class.split(':').next().unwrap_or("")));
        rep.class(format!("cross-package|{class}|{outcome}"));
        v["real"] = json!(real);
        match real.as_deref() {
            None => rep.mismatch("a cross-package representative got no answer from its child process (a script that does not compile, a crash)", v),
            Some(r) if (r == "ok") != expected_ok || r == "panic" => {
                let kind = if r == "panic" { "panics" } else if expected_ok { "refuses-true-signature" } else { "accepts-wrong-signature" };
                rep.violation(
                    if expected_ok {
                        "get_function refused a function under the documented image of its signature after a request on another package of the process"
                    } else {
                        "get_function returned a callable handle under a Rust type that is not the image of the script signature, after the same type was granted for another package of the process"
                    },
                    &format!("process-history-dependent(one-earlier-request-in-the-process):{kind}:cross-package:{class}"),
                    v,
                );
            }
            Some(_) => {}
        }
    }
}

/// **Bound-literal class representatives** (run first, whatever the seed): a literal below a type constructor
/// in a filtermap's payload whose type variable *another statement binds* (`reject Some(7)` beside
/// `reject Some(p0)`, `p0: u8`). The signature then carries, at depth, a literal variable that is bound — the
/// function is compiled at the bound type, so the true Rust type has `u8` there and the default (`i32` / `f64`)
/// must be refused: the gate has to *resolve* a component before it considers the default (the generated
/// payloads only ever leave their literals unconstrained, where both orders agree).
fn bound_literal_reps(fam: &[Entry], rt: &Runtime<NoCtx>, rep: &mut Report, seed: u64) {
    let reps: [(&str, &str, &str, &[&str]); 8] = [
        ("int-below-Option", "filtermap f(p0: u8) { if true { accept p0 } else { if true { reject Some(7) } else { reject Some(p0) } } }",
         "fn(u8) -> Verdict<u8, Option<u8>>", &["fn(u8) -> Verdict<u8, Option<i32>>", "fn(u8) -> Verdict<u8, Option<i64>>"]),
        ("float-below-Option", "filtermap f(p0: u8) { let y: f32 = 0.5; if true { accept p0 } else { if true { reject Some(0.25) } else { reject Some(y) } } }",
         "fn(u8) -> Verdict<u8, Option<f32>>", &["fn(u8) -> Verdict<u8, Option<f64>>"]),
        ("int-below-List", "filtermap f(p0: u8) { let y: u32 = 5; if true { accept p0 } else { if true { reject [7, 8] } else { reject [y] } } }",
         "fn(u8) -> Verdict<u8, List<u32>>", &["fn(u8) -> Verdict<u8, List<i32>>", "fn(u8) -> Verdict<u8, List<u64>>"]),
        ("float-below-List-List", "filtermap f(p0: u8) { let y: f32 = 0.5; if true { accept p0 } else { if true { reject [[0.25]] } else { reject [[y]] } } }",
         "fn(u8) -> Verdict<u8, List<List<f32>>>", &["fn(u8) -> Verdict<u8, List<List<f64>>>"]),
        ("int-below-Option-Option", "filtermap f(p0: u8) { let y: i64 = 5; if true { accept p0 } else { if true { reject Some(Some(1)) } else { reject Some(Some(y)) } } }",
         "fn(u8) -> Verdict<u8, Option<Option<i64>>>", &["fn(u8) -> Verdict<u8, Option<Option<i32>>>", "fn(u8) -> Verdict<u8, Option<Option<u32>>>"]),
        ("int-below-Option-both-sides", "filtermap f(p0: bool) { let y: i64 = 5; if p0 { accept Some(1) } else { if true { accept Some(y) } else { reject Some(y) } } }",
         "fn(bool) -> Verdict<Option<i64>, Option<i64>>", &["fn(bool) -> Verdict<Option<i32>, Option<i32>>"]),
        ("int-below-Result", "filtermap f(p0: u8) { let y: i64 = 5; if true { accept p0 } else { if true { reject Ok(1) } else { if true { reject Ok(y) } else { reject Err(0.5) } } } }",
         "fn(u8) -> Verdict<u8, Result<i64, f64>>", &["fn(u8) -> Verdict<u8, Result<i32, f64>>", "fn(u8) -> Verdict<u8, Result<f64, i32>>"]),
        ("int-accept-side", "filtermap f() { let y: i64 = 5; if true { accept Some(1) } else { accept Some(y) } }",
         "fn() -> Verdict<Option<i64>, ()>", &["fn() -> Verdict<Option<i32>, ()>", "fn() -> Verdict<Option<u32>, ()>"]),
    ];
    for (k, (class, src, true_ty, wrong)) in reps.iter().enumerate() {
        let mut pkg = match compile(src, rt) {
            Ok(Ok(p)) => p,
            _ => {
                rep.mismatch("a bound-literal representative does not compile (the generator's model of the language is wrong)", json!({"script": src}));
                continue;
            }
        };
        // the true type first and last: a refusal or a grant in between must not change it
        let asks: Vec<(&str, bool)> = std::iter::once((*true_ty, true)).chain(wrong.iter().map(|w| (*w, false))).chain(std::iter::once((*true_ty, true))).collect();
        let mut history: Vec<Value> = vec![];
        for (ty, expected_ok) in asks {
            let Some(e) = fam.iter().find(|e| e.show() == ty) else {
                rep.mismatch("a bound-literal representative asks for a Rust type outside the family", json!({"type": ty}));
                continue;
            };
            let real = canon(&(e.probe)(&mut pkg, "f"));
            rep.evaluations += 1;
            let outcome = if real == "ok" { "granted" } else if real == "panic" { "panic" } else { "refused" };
            rep.hist("bound-literal", format!("{}: {outcome}", if expected_ok { "true signature" } else { "the literal's default instead of the bound type" }));
            rep.class(format!("bound-literal|{class}|{expected_ok}|{outcome}"));
            if (real == "ok") != expected_ok || real == "panic" {
                let kind = if real == "panic" { "panics" } else if expected_ok { "refuses-true-signature" } else { "accepts-wrong-signature" };
                rep.violation(
                    if expected_ok { "get_function refused a function under the documented image of its signature" } else { "get_function returned a callable handle under a Rust type that is not the image of the script signature" },
                    &format!("{kind}:filtermap:ret:bound-literal-below-constructor:{class}"),
                    json!({
                        "seed": seed, "index": format!("bound-literal representative {k}"), "env": 0, "script": src, "function": src, "name": "f", "rust_type": ty,
                        "label": format!("bound-literal:{class}"),
                        "expected": if expected_ok { "ok".to_string() } else { format!("refused (ret: the literal below the constructor is bound to another type by the second statement; the function is compiled at {true_ty})") },
                        "real": real, "history": history.clone(), "history_kind": if history.is_empty() { "none" } else { "whole prefix" },
                    }),
                );
            }
            history.push(json!({"name": "f", "rust_type": ty}));
        }
    }
}

fn run_script(fam: &[Entry], rts: &[Runtime<NoCtx>], drv: &mut Driver, rep: &mut Report, pc: &mut Proc, index: u64) {
    let (seed, thorough) = (pc.seed, pc.thorough);
    let (script, mut pairs) = gen_script(fam, seed, index, thorough);
    let cx = script.cx.clone();
    let rt = &rts[cx.env];
    rep.hist("script-kind", script.kind);
    let mut pkg = match compile(&script.src, rt) {
        Ok(Ok(p)) => p,
        Ok(Err(e)) => {
            rep.hist("script", "does-not-compile");
            let plain: String = e.chars().filter(|c| c.is_ascii() && !c.is_ascii_control() || *c == '\n').collect();
            let msg = format!("script {index} ({}) does not compile: {}", script.kind, plain.lines().take(6).collect::<Vec<_>>().join(" | "));
            if index < REPS + boundary_count(thorough) {
                // a boundary script that does not compile is a hole in the
                // coverage the check claims: the generator's idea of the language is wrong
                rep.mismatch("a boundary script does not compile (the generator's model of the language is wrong)", json!({"seed": seed, "index": index, "script": script.src, "error": msg}));
            }
            if rep.notes.len() < 5 {
                rep.notes.push(msg);
            }
            return;
        }
        Err(_) => {
            rep.hist("script", "compiler-panic");
            return;
        }
    };
    rep.hist("script", "compiled");
    // the one piece of package state a retrieval writes to: the type checker's union-find table (hook),
    // dumped before the first request and fed to the modelled `find`
    let mut uf_ids: BTreeMap<String, usize> = BTreeMap::new();
    let uf0 = pkg.verif_c04_unionfind();
    let uf0_enc = uf_encode(&uf0, &mut uf_ids);
    let uf0_text: Vec<(String, String)> = uf0.iter().map(|(a, b)| (a.text.clone(), b.text.clone())).collect();
    uf_before(drv, rep, seed, index, &script.src, &uf0_enc.0, &uf0_enc.1);
    // the module's real name table
    let keys = existing_keys(&mut pkg);
    let declared: BTreeSet<String> = script.decls.iter().map(|d| d.key()).collect();
    let helpers: Vec<String> = keys.iter().filter(|k| !declared.contains(*k)).cloned().collect();
    let real_pkg: BTreeSet<String> = keys.iter().filter(|k| k.starts_with("pkg.")).cloned().collect();
    if real_pkg != declared {
        rep.mismatch(
            "the module's `pkg.` keys differ from the declared functions (model of the name table)",
            json!({"seed": seed, "index": index, "real": real_pkg, "declared": declared}),
        );
    }
    // The table `get_function` consults (hook), against the table the modelled compiler
    // pipeline builds from the script's declarations (`Pipeline.table` over the stages as
    // the source has them): the same keys, and a signature on exactly the same ones — the
    // functions, filtermaps and tests of the script. The helpers the compiler generated are
    // taken from the real table (the model does not predict which types need them).
    let table = pkg.verif_c04_function_table();
    let real_tab: BTreeSet<(String, bool)> = table.iter().map(|e| (e.key.clone(), e.signature.is_some())).collect();
    {
        let mut items: Vec<String> = script.decls.iter().map(|d| d.sexp(&cx)).collect();
        items.extend(script.extras.iter().map(|x| x.sexp(&cx)));
        items.extend(table.iter().filter(|e| e.signature.is_none()).map(|e| format!("(helper #{})", hex(&e.key))));
        let ans = drv.ask(&format!("c04 table {}", hex(&format!("(fns {})", items.join(" ")))));
        let model_tab: BTreeSet<(String, bool)> = ans
            .split(' ')
            .filter_map(|t| {
                let t = t.strip_prefix('#')?;
                let (h, signed) = (t.trim_end_matches(['+', '-']), t.ends_with('+'));
                let bytes: Option<Vec<u8>> = (0..h.len() / 2).map(|i| u8::from_str_radix(&h[2 * i..2 * i + 2], 16).ok()).collect();
                Some((String::from_utf8(bytes?).ok()?, signed))
            })
            .collect();
        rep.evaluations += 1;
        if model_tab != real_tab {
            let only_real: Vec<&(String, bool)> = real_tab.difference(&model_tab).collect();
            let only_model: Vec<&(String, bool)> = model_tab.difference(&real_tab).collect();
            rep.mismatch(
                "the module's function table is not the one the modelled pipeline builds from the declarations (an entry with a signature that is no declared function, a declared function without one, a helper under another name)",
                json!({"seed": seed, "index": index, "env": cx.env, "script": script.src, "only_in_real_table": only_real, "only_in_model_table": only_model, "driver": if model_tab.is_empty() { ans.clone() } else { String::new() }}),
            );
        }
        rep.hist("function-table", if model_tab == real_tab { "as modelled" } else { "differs from the model" });
    }
    // Whatever carries a signature in the real table and is no declared function is asked
    // for under the type the table itself advertises (and under `fn()`): if anything that is
    // not a function of the script got in there — under whatever name — this is the request
    // that retrieves it.
    for e in &table {
        let (Some((params, ret)), Some(name)) = (&e.signature, e.key.strip_prefix("pkg.")) else { continue };
        if declared.contains(&e.key) {
            continue;
        }
        let what = script
            .extras
            .iter()
            .find(|x| format!("pkg.{}{}", x.module, x.name) == e.key)
            .map(|x| x.kind)
            .unwrap_or("unknown-item");
        let args: Option<Vec<RT>> = params.iter().map(|t| parse_ty(t, &cx)).collect();
        if let Some(i) = args.and_then(|a| parse_ty(ret, &cx).and_then(|r| find_entry(fam, &a, &r))) {
            pairs.push(Pair { decl: None, name: name.to_string(), entry: i, label: format!("not-a-function:{what}:type-the-table-advertises") });
        }
        pairs.push(Pair { decl: None, name: name.to_string(), entry: find_entry(fam, &[], &unit_rt()).unwrap(), label: format!("not-a-function:{what}:unit-fn") });
    }
    // helper names: ask for them verbatim and without a leading separator
    let mut p = Prng::for_case(seed ^ 0xC04, index);
    let rep_helpers = script.kind == "rep:generated-helpers";
    for h in helpers.iter().take(if rep_helpers { 64 } else { 4 }) {
        let e = p.below(fam.len() as u64) as usize;
        pairs.push(Pair { decl: None, name: h.clone(), entry: e, label: "helper-name".into() });
        pairs.push(Pair { decl: None, name: h.trim_start_matches("pkg.").trim_start_matches(':').to_string(), entry: e, label: "helper-name".into() });
        if rep_helpers {
            // the ABI shapes of the helpers themselves (pointers as integers): drop, clone, eq
            let u = RT::Leaf("u64");
            let short = h.rsplit("::").next().unwrap_or(h).to_string();
            for (shape, args, ret) in [("unit-fn", vec![], unit_rt()), ("drop-shape", vec![u.clone()], unit_rt()), ("clone-shape", vec![u.clone(), u.clone()], unit_rt()), ("eq-shape", vec![u.clone(), u.clone()], RT::Leaf("bool"))] {
                let i = find_entry(fam, &args, &ret).expect("helper shape in family");
                for nm in [h.clone(), short.clone(), format!("generated::{short}")] {
                    pairs.push(Pair { decl: None, name: nm, entry: i, label: format!("not-a-function:generated-helper:{shape}") });
                }
            }
        }
    }
    rep.hist("helpers", if helpers.is_empty() { "none" } else { "some" });
    // names the host registered with the runtime: functions (by qualified name and by their
    // last segment) and constants are no functions of the script
    {
        let host: Vec<(String, usize)> = roto::verif_hooks::c06::runtime_functions(rt);
        let all = script.kind == "rep:host-names";
        let n = if all { host.len() } else { 2.min(host.len()) };
        let start = if host.is_empty() { 0 } else { (seed as usize + index as usize * 5) % host.len() };
        let neighbour = script.decls.first().map(|d| d.target).unwrap_or(0);
        let twice = find_entry(fam, &[RT::Leaf("u32")], &RT::Leaf("u32")).expect("fn(u32) -> u32 in family");
        let mut names: Vec<String> = (0..n).map(|i| host[(start + i) % host.len()].0.clone()).collect();
        names.extend(host.iter().filter(|h| h.0.ends_with("host_twice") || h.0.ends_with(".get")).map(|h| h.0.clone()));
        let mut seen = BTreeSet::new();
        for q in names {
            let last = q.rsplit('.').next().unwrap_or(&q).to_string();
            for nm in [q.clone(), last] {
                if declared.contains(&format!("pkg.{nm}")) || !seen.insert(nm.clone()) {
                    continue;
                }
                for (shape, e) in [("unit-fn", find_entry(fam, &[], &unit_rt()).unwrap()), ("host-functions-type", twice), ("neighbours-true-type", neighbour)] {
                    pairs.push(Pair { decl: None, name: nm.clone(), entry: e, label: format!("not-a-function:runtime-function:{shape}") });
                }
            }
        }
        let cpath = match cx.env { 1 | 3 => "foo.HOST_LIMIT", _ => "HOST_LIMIT" };
        for nm in [cpath, "HOST_LIMIT"] {
            if seen.insert(nm.to_string()) {
                for (shape, e) in shapes(fam, Some(&ST::Prim("u32")), neighbour, all).into_iter().take(if all { 5 } else { 2 }) {
                    pairs.push(Pair { decl: None, name: nm.to_string(), entry: e, label: format!("not-a-function:runtime-constant:{shape}") });
                }
            }
        }
        rep.hist("host-functions-known", host.len().to_string());
    }

    let reqs: Vec<String> = pairs.iter().map(|pr| lean_request(&script, &helpers, pr, &fam[pr.entry], &mut p)).collect();
    let answers = drv.ask_all(&reqs);

    // The history explored on this one package: every pair in order (round 1),
    // every pair again in reverse order (round 2: a refusal followed by the
    // same request, a wrong request before the right one), and once more in
    // the original order (round 3). `get_function` is specified as a function
    // of (package, name, Rust type) alone — the model has no state
    // (`RotoV.C04.history_independent`) — so every round has the same oracle.
    let n = pairs.len();
    let order: Vec<(u8, usize)> =
        (0..n).map(|k| (1u8, k)).chain((0..n).rev().map(|k| (2u8, k))).chain((0..n).map(|k| (3u8, k))).collect();
    let mut judged: Vec<Option<Judged>> = (0..n).map(|_| None).collect();
    let mut log: Vec<Req> = vec![];
    let mut answers_log: Vec<String> = vec![];
    let mut to_call: Vec<(usize, String)> = vec![];
    for (round, k) in order {
        let pr = &pairs[k];
        let e = &fam[pr.entry];
        let real = (e.probe)(&mut pkg, &pr.name);
        let real_s = canon(&real);
        log.push((pr.name.clone(), pr.entry));
        answers_log.push(real_s.clone());
        rep.evaluations += 1;
        if judged[k].is_none() {
            let ans = &answers[k];
            let (model_s, spec_s) = match ans.rsplit_once(' ') {
                Some((m, s)) => (m.to_string(), s.to_string()),
                None => (ans.clone(), String::new()),
            };
            // oracle: the documented mapping, independently
            let (exists, class) = match pr.decl {
                Some(di) => (true, mismatch_class(&script.decls[di], e, &cx)),
                None => (false, Some(if pr.label == "helper-name" {
                    "generated-helper".to_string()
                } else if pr.label.starts_with("not-a-function:") {
                    pr.label.clone()
                } else {
                    "unknown-name".to_string()
                })),
            };
            let expected_ok = exists && class.is_none();
            if (spec_s == "spec-ok") != expected_ok {
                rep.mismatch(
                    "the Lean `mapping` (spec side of get_function_iff) and the harness oracle disagree",
                    json!({"seed": seed, "index": index, "script": script.src, "name": pr.name, "rust_type": e.show(), "label": pr.label, "lean": ans, "oracle_ok": expected_ok}),
                );
            }
            judged[k] = Some(Judged { expected_ok, class, first: real_s.clone(), model: model_s });
        }
        let j = judged[k].as_ref().unwrap();
        let (expected_ok, class) = (j.expected_ok, j.class.clone());
        let kc = key_class(&class.clone().unwrap_or_default());
        let wrong = (real == Outcome::Ok) != expected_ok || real == Outcome::Panic;
        // at most a dozen instances of one violation class per worker, so that one class (every
        // constant of a script, say) does not use up the report before the others are seen
        let body0 = format!("{}:{kc}:{}", if real == Outcome::Ok { "ok" } else { "no" }, pr.decl.is_some());
        let room = {
            let n = pc.per_class.entry(body0).or_insert(0);
            *n += u32::from(wrong);
            *n <= 12
        };
        if wrong && room && rep.impl_violations.len() < 200 {
            // is the wrong answer a function of the request alone, or of what was asked before?
            let (history, how) = minimise_history(fam, rt, &script.src, &log, log.len() - 1, &real_s);
            let hist_json: Vec<Value> = history.iter().map(|(nm, e)| json!({"name": nm, "rust_type": fam[*e].show()})).collect();
            let input = json!({
                "seed": seed, "index": index, "env": cx.env,
                "host_types": [format!("{} = Val<Foo>", cx.reg_path(0)), format!("{} = Val<Bar>", cx.reg_path(1))],
                "redeclared_by_script": cx.shadow.iter().map(|s| s.0).collect::<Vec<_>>(),
                "script": script.src,
                "function": pr.decl.map(|di| script.decls[di].show(&cx)),
                "name": pr.name,
                "rust_type": e.show(),
                "label": pr.label,
                "expected": if expected_ok { "ok".to_string() } else { format!("refused ({})", class.clone().unwrap_or_default()) },
                "real": real_s, "model": j.model,
                "round": round,
                "history": hist_json,
                "history_kind": how,
            });
            let mut input = input;
            let mut dep = if how == "none" { String::new() } else { format!("history-dependent({how}):") };
            // The first instance of a violation class becomes a replay file: make sure it
            // reproduces from a cold start, and find what else of this process it needs.
            // the violation key without the dependence prefix
            let body = if real == Outcome::Ok && !expected_ok {
                format!("accepts-wrong-signature:{kc}")
            } else if real == Outcome::Panic {
                format!("panics:{kc}")
            } else {
                format!(
                    "refuses-true-signature:{}:{}",
                    match &script.decls[pr.decl.unwrap()].kind { Kind::Fn => "fn", Kind::Filtermap(..) => "filtermap", Kind::Test => "test" },
                    real_s.split(' ').next().unwrap_or("")
                )
            };
            let provisional = format!("{dep}{body}");
            if let Some(d) = pc.class_dep.get(&provisional) {
                // a later instance of a class already examined: it is reported under the same key
                // (the first instance, which is the one examined, becomes the replay file)
                dep = d.clone();
                input["process_history_kind"] = json!("not-examined (a later instance of its class)");
            } else {
                let last = log.last().unwrap().clone();
                let (v, phow) = minimise_process_history(fam, pc, &input, &log[..log.len() - 1], &last, &real_s);
                input = v;
                input["process_history_kind"] = json!(phow);
                match phow {
                    "none" => {}
                    "package-history" => {
                        input["history_kind"] = json!("earlier-requests-on-the-package(found-in-fresh-processes)");
                        dep = "history-dependent(package):".to_string();
                    }
                    other => dep = format!("process-history-dependent({other}):"),
                }
                pc.class_dep.insert(provisional, dep.clone());
            }
            let key = format!("{dep}{body}");
            if real == Outcome::Ok && !expected_ok {
                rep.violation("get_function returned a callable handle under a Rust type that is not the image of the script signature", &key, input);
            } else if real == Outcome::Panic {
                rep.violation("get_function panicked instead of returning an error", &key, input);
            } else {
                rep.violation("get_function refused the true Rust signature of a script function", &key, input);
            }
        }
        // A handle granted under the true signature of a filtermap whose payload types were
        // inferred from literals: the code behind it must have been compiled at that very
        // signature (`TypeInfo::convert` defaults literal types on its own). It is called
        // after the requests, in a child process (a wrong signature is undefined behaviour).
        if round == 1 && real == Outcome::Ok && expected_ok && e.call.is_some() {
            if let Some(di) = pr.decl {
                let d = &script.decls[di];
                if let (true, Some(want)) = (d.ret.has_literal(), d.call_value(&cx)) {
                    to_call.push((k, want));
                }
            }
        }
        if real_s != j.model {
            rep.mismatch(
                "model and implementation disagree on get_function",
                json!({"seed": seed, "index": index, "env": cx.env, "script": script.src, "name": pr.name, "rust_type": e.show(),
                       "label": pr.label, "round": round, "real": real_s, "model": j.model, "first_answer": j.first}),
            );
        }
        rep.hist("round", round.to_string());
        if round != 1 {
            rep.class(format!("round{round}|{}|{}", if expected_ok { "true" } else { "wrong" }, pr.label.split(':').next().unwrap_or("")));
            continue;
        }
        // distribution (first round only)
        let kind = real_s.split(' ').next().unwrap_or("").to_string();
        rep.hist("label", pr.label.clone());
        rep.hist("outcome", kind.clone());
        rep.hist("rust-arity", e.args.len().to_string());
        rep.hist("rust-depth", e.args.iter().chain(std::iter::once(&e.ret)).map(|r| r.depth()).max().unwrap_or(0).to_string());
        if let Some(c) = &class {
            // drop positions so the histogram stays small
            let c2: String = c.split(':').skip(1).collect::<Vec<_>>().join(":");
            let c3 = c2.rsplit('/').next().unwrap_or("").to_string();
            rep.hist("mismatch-class", if c.starts_with("arity") { c.split(':').next().unwrap_or("arity").to_string() } else if c3.is_empty() { c.clone() } else { c3 });
            rep.hist("mismatch-depth", c2.matches('/').count().to_string());
        } else if exists_decl(pr) {
            rep.hist("mismatch-class", "none (true signature)");
        }
        let class_s = match &class {
            Some(c) if c.starts_with("arity") => c.split(':').next().unwrap_or("arity").to_string(),
            Some(c) => c.clone(),
            None => "true".into(),
        };
        rep.class(format!("{}|{}|{}|a{}", pr.label, kind, class_s, e.args.len()));
        // one sample per label, the trigger classes of the boundary stream first
        let wanted = ["filtermap-nested-literal-exact", "filtermap-unresolved-payload", "literal-payload-other-type", "redeclared-name", "filtermap-redeclared-name", "named-like-primitive", "as-primitive-of-same-name", "prefix-of-parameters", "exact", "filtermap-exact", "leaf-changed", "swapped-type-args"];
        if pr.decl.is_some() && wanted.contains(&pr.label.as_str()) {
            let dup = rep.samples.iter().filter(|s| s["label"] == pr.label.as_str()).count();
            if dup < 1 {
                rep.sample(json!({"function": script.decls[pr.decl.unwrap()].show(&cx), "rust_type": e.show(), "label": pr.label, "real": real_s, "model": j.model,
                    "host_types": [format!("{} = Val<Foo>", cx.reg_path(0)), format!("{} = Val<Bar>", cx.reg_path(1))],
                    "redeclared_by_script": cx.shadow.iter().map(|s| s.0).collect::<Vec<_>>()}));
            }
        }
    }
    // … and after the three rounds of requests
    {
        let uf1 = pkg.verif_c04_unionfind();
        let uf1_enc = uf_encode(&uf1, &mut uf_ids);
        let uf1_text: Vec<(String, String)> = uf1.iter().map(|(a, b)| (a.text.clone(), b.text.clone())).collect();
        uf_after(rep, seed, index, &script.src, &uf0_enc, &uf0_text, &uf1_enc, &uf1_text);
    }
    // the calls: every literal-payload script of the boundary stream, every fourth other script
    if !to_call.is_empty() && (thorough || script.kind == "literal-payload" || index % 4 == 0) {
        let reqs: Vec<(String, usize)> = to_call.iter().map(|(k, _)| (pairs[*k].name.clone(), pairs[*k].entry)).collect();
        let got = calls_in_child(fam, &script.src, cx.env, &reqs);
        for ((k, want), got) in to_call.iter().zip(got) {
            let pr = &pairs[*k];
            let d = &script.decls[pr.decl.unwrap()];
            rep.evaluations += 1;
            let same = got.as_deref() == Some(want.as_str());
            rep.hist("called", if same { "returned the script's value" } else { "returned another value / crashed" });
            rep.class(format!("called|{}|{}", d.label, if same { "same" } else { "other" }));
            if !same && rep.impl_violations.len() < 200 {
                rep.violation(
                    "a handle granted under the documented image of an inferred signature does not return the value the script computes (the function was compiled at another signature than the one the gate checked)",
                    &format!("granted-signature-is-not-the-compiled-one:{}", d.label),
                    json!({
                        "seed": seed, "index": index, "env": cx.env, "script": script.src, "function": d.show(&cx),
                        "name": pr.name, "rust_type": fam[pr.entry].show(), "label": pr.label, "expected": "ok",
                        "call": true, "expected_value": want, "returned": got, "real": "ok", "model": "ok",
                        "history": [], "history_kind": "none",
                    }),
                );
            }
        }
    }
    // what this package was asked is, for the scripts that follow, the history of the process
    for ((name, e), a) in log.into_iter().zip(answers_log) {
        pc.log.push((index, name, e, a));
    }
}

fn exists_decl(pr: &Pair) -> bool {
    pr.decl.is_some()
}

/// The hypothesis `TypeInfo.WF` of the gate theorems, asked of the real
/// registration: a host type under a reserved name in the global scope is
/// refused. Returns the names for which registration succeeded.
fn wf_probe() -> Vec<&'static str> {
    let mut accepted = vec![];
    macro_rules! attempt {
        ($($name:ident),*) => { $(
            let r = std::panic::catch_unwind(|| {
                Runtime::<NoCtx>::from_lib(library! {
                    /// a host type under a reserved name
                    #[clone] type $name = Val<Foo>;
                })
                .is_ok()
            });
            if r.unwrap_or(false) {
                accepted.push(stringify!($name));
            }
        )* };
    }
    attempt!(bool, char, u8, u16, u32, u64, i8, i16, i32, i64, f32, f64, Asn, IpAddr, Prefix, String, Option, Result, Verdict, List);
    accepted
}

fn runtimes() -> Vec<Runtime<NoCtx>> {
    (0..ENVS.len()).map(runtime).collect()
}

fn main() {
    let args: Vec<String> = std::env::args().collect();
    std::panic::set_hook(Box::new(|_| {}));
    let mut rep = Report::default();
    match args.get(1).map(|s| s.as_str()) {
        Some("run") => {
            let seed: u64 = args.get(2).and_then(|s| s.parse().ok()).unwrap_or(1);
            let thorough = args.get(3).map(|s| s == "thorough").unwrap_or(false);
            let tier = if thorough { "thorough" } else { "quick" };
            let scripts: u64 = REPS + if thorough { 3000 } else { 300 };
            let seed_s = seed.to_string();
            use rotov_harness::worker::{Ended, run_batches};
            run_batches(
                &[&seed_s, tier],
                scripts,
                if thorough { 125 } else { 100 },
                std::time::Duration::from_secs(1500),
                &mut rep,
                |rep: &mut Report, idx: u64, how: &Ended| {
                    let fam = family();
                    let (s, _) = gen_script(&fam, seed, idx, thorough);
                    rep.violation(
                        "process died while compiling a script of declarations or while retrieving functions from it",
                        "crash",
                        json!({"seed": seed, "index": idx, "env": s.cx.env, "script": s.src, "ended": format!("{how:?}")}),
                    );
                },
            );
            rep.notes.push(format!("family: {} Rust function types", family().len()));
        }
        Some("worker") => {
            let seed: u64 = args[2].parse().unwrap();
            let thorough = args[3] == "thorough";
            let from: u64 = args[4].parse().unwrap();
            let n: u64 = args[5].parse().unwrap();
            let fam = family();
            let rts = runtimes();
            let mut drv = Driver::spawn().expect("lean driver");
            if from == 0 {
                rep.notes.push(format!("lean tables: {}", drv.ask("c04 tables")));
                let accepted = wf_probe();
                rep.evaluations += 20;
                rep.hist("wf-probe", if accepted.is_empty() { "all 20 reserved global names refused" } else { "some accepted" });
                if !accepted.is_empty() {
                    rep.mismatch(
                        "hypothesis TypeInfo.WF of the gate theorems does not hold: the runtime registered a host type under a reserved global name",
                        json!({"accepted": accepted, "library": "#[clone] type <name> = Val<Foo>;"}),
                    );
                }
            }
            if from == 0 {
                cross_package_reps(&fam, &mut rep, seed);
                bound_literal_reps(&fam, &rts[0], &mut rep, seed);
            }
            let mut pc = Proc { seed, thorough, log: vec![], class_dep: Default::default(), found: vec![], budget: 160, spent: Default::default(), per_class: Default::default() };
            for i in from..from + n {
                println!("START {i}");
                run_script(&fam, &rts, &mut drv, &mut rep, &mut pc, i);
            }
        }
        Some("gen") => {
            // print script number <index> of a run and the requests made on it (for the builder)
            let seed: u64 = args[2].parse().unwrap();
            let thorough = args[3] == "thorough";
            let index: u64 = args[4].parse().unwrap();
            let fam = family();
            let (s, pairs) = gen_script(&fam, seed, index, thorough);
            println!("// kind: {}  env: {}\n{}", s.kind, s.cx.env, s.src);
            for pr in &pairs {
                println!("// {:<32} {:<10} {}", pr.label, pr.name, fam[pr.entry].show());
            }
            return;
        }
        Some("calls") => {
            // child of `calls_in_child`: {script, env, calls: [{name, rust_type}…]} on stdin
            use std::io::{Read, Write};
            let mut text = String::new();
            std::io::stdin().read_to_string(&mut text).expect("stdin");
            let v: Value = serde_json::from_str(&text).expect("calls json");
            let fam = family();
            let rt = runtime(v["env"].as_u64().unwrap_or(0) as usize);
            let Ok(Ok(mut pkg)) = compile(v["script"].as_str().unwrap_or(""), &rt) else { return };
            for (i, c) in v["calls"].as_array().map(|a| &a[..]).unwrap_or(&[]).iter().enumerate() {
                let (name, ty) = (c["name"].as_str().unwrap_or(""), c["rust_type"].as_str().unwrap_or(""));
                println!("CALL {i}");
                let _ = std::io::stdout().flush();
                let got = fam.iter().find(|e| e.show() == ty).and_then(|e| e.call).and_then(|call| {
                    std::panic::catch_unwind(std::panic::AssertUnwindSafe(|| call(&mut pkg, name))).unwrap_or(Some("panicked".into()))
                });
                println!("RET {i} {}", got.as_deref().unwrap_or("-"));
                let _ = std::io::stdout().flush();
            }
            return;
        }
        Some("answer") => {
            // the answer of this (fresh) process to a replay description on stdin
            use std::io::Read;
            let mut text = String::new();
            std::io::stdin().read_to_string(&mut text).expect("stdin");
            let v: Value = serde_json::from_str(&text).expect("replay json");
            let fam = family();
            let (a, _) = replay_here(&fam, &v);
            println!("ANSWER {a}");
            return;
        }
        Some("replay") => {
            // {process_history: [{script, env, requests}…], script, env, history: [{name, rust_type}…], name,
            // rust_type}: in this fresh process make the requests on the earlier packages, compile the script, make
            // the earlier requests on its package, ask, compare with the oracle stored in the file.
            // `@path` reads the description from a file.
            let text = match args[2].strip_prefix('@') {
                Some(path) => std::fs::read_to_string(path).expect("replay file"),
                None => args[2].clone(),
            };
            let v: Value = serde_json::from_str(&text).expect("replay json");
            let fam = family();
            let name = v["name"].as_str().expect("name");
            let ty = v["rust_type"].as_str().expect("rust_type");
            println!("function : {}", v["function"].as_str().unwrap_or("-"));
            let (real, lines) = replay_here(&fam, &v);
            for l in lines {
                println!("{l}");
            }
            let expected_ok = v["expected"].as_str() == Some("ok");
            println!("request  : get_function::<{ty}>({name:?})");
            println!("expected : {}", v["expected"].as_str().unwrap_or("?"));
            println!("real     : {real}");
            rep.evaluations = 1;
            if v["call"].as_bool() == Some(true) {
                // a granted handle, called — in a child process
                let ei = fam.iter().position(|e| e.show() == ty).expect("rust type in family");
                let got = calls_in_child(&fam, v["script"].as_str().unwrap_or(""), v["env"].as_u64().unwrap_or(0) as usize, &[(name.to_string(), ei)]).pop().flatten();
                let want = v["expected_value"].as_str().unwrap_or("?");
                println!("called   : {} — the script computes {want}", got.as_deref().unwrap_or("(not granted)"));
                if got.as_deref() != Some(want) {
                    rep.violation("replayed: the granted handle does not return the value the script computes", v["label"].as_str().unwrap_or("replay"), v.clone());
                }
            }
            if (real == "ok") != expected_ok || real == "panic" {
                rep.violation("replayed: the gate's answer differs from the documented mapping", v["label"].as_str().unwrap_or("replay"), v.clone());
            }
        }
        _ => {
            eprintln!("usage: c04 run <seed> <quick|thorough> | c04 replay <json>");
            std::process::exit(64);
        }
    }
    rep.emit();
}

#[allow(dead_code)]
fn _unused(_: Foo, _: Bar, _: Val<Foo>) {}
