//! C03: measured ownership oracle + verified checker over real MIR dumps.
//!
//! usage: c03 run <seed> <quick|thorough>
//!        c03 replay <json>
//!        c03 worker gen <seed> <depth> <from> <n>   (crash-isolated batch of generated programs)
//!        c03 dump '<source>'             (print the structured MIR dump)
//!        c03 exec <ret> '<source>' n m c (run main once, print the balance)
//!        c03 gone '<source>'             (variables whose only writes dead-code elimination removed)

#[path = "../c03/progen.rs"]
mod progen;
#[path = "../c03/host.rs"]
mod host;
#[path = "../c03/glue.rs"]
mod glue;

use host::*;
use roto::{FileTree, List, Package, RotoString, Val, Verdict};
use rotov_harness::driver::Driver;
use rotov_harness::{Prng, Report};
use serde_json::{Value, json};

#[global_allocator]
static GLOBAL: Counting = Counting;

/// What `main` returns; the parameters are always
/// `(n: u32, m: u32, c: bool, t: Tk, s: String)`.
#[derive(Clone, Copy, Debug, PartialEq, Eq)]
pub enum Ret {
    U32,
    Tk,
    Str,
    OptTk,
    ListTk,
    Verdict,
    Unit,
}

impl Ret {
    fn name(self) -> &'static str {
        match self {
            Ret::U32 => "u32",
            Ret::Tk => "tk",
            Ret::Str => "str",
            Ret::OptTk => "opttk",
            Ret::ListTk => "listtk",
            Ret::Verdict => "verdict",
            Ret::Unit => "unit",
        }
    }
    fn parse(s: &str) -> Option<Ret> {
        [Ret::U32, Ret::Tk, Ret::Str, Ret::OptTk, Ret::ListTk, Ret::Verdict, Ret::Unit]
            .into_iter()
            .find(|r| r.name() == s)
    }
    fn roto(self) -> &'static str {
        match self {
            Ret::U32 => "u32",
            Ret::Tk => "Tk",
            Ret::Str => "String",
            Ret::OptTk => "Tk?",
            Ret::ListTk => "List[Tk]",
            Ret::Verdict => "Verdict[Tk, String]",
            Ret::Unit => "()",
        }
    }
}

#[derive(Clone, Copy, Debug, PartialEq)]
pub struct Inputs {
    pub n: u32,
    pub m: u32,
    pub c: bool,
}

#[derive(Debug, Clone, Copy, PartialEq)]
pub struct Balance {
    /// live tokens after − before (arguments created inside the window, the result dropped inside)
    pub live: i64,
    pub double_drop: u64,
    pub use_after_drop: u64,
    pub allocs: i64,
    pub created: u64,
    pub cloned: u64,
    pub dropped: u64,
}

impl Balance {
    fn ok(&self) -> bool {
        self.live == 0 && self.double_drop == 0 && self.use_after_drop == 0
    }
}

fn compile(src: &str) -> Result<Package<roto::NoCtx>, String> {
    let rt = runtime();
    FileTree::test_file("c03.roto", src, 0)
        .compile(&rt)
        .map_err(|e| format!("{e}"))
}

/// Which token type a script is written over: the sized `Tk` (id + tag) or its zero-sized twin
/// `Tz` (`progen::zero_src`). The origin of a zero-sized case ends in `/zst`.
#[derive(Clone, Copy, Debug, PartialEq, Eq)]
pub enum Tok {
    Sized,
    Zero,
}

impl Tok {
    fn of(origin: &str) -> Tok {
        if origin.split('|').next().unwrap_or("").ends_with("/zst") { Tok::Zero } else { Tok::Sized }
    }
}

/// Call `main` once and measure.
fn call_once(pkg: &mut Package<roto::NoCtx>, ret: Ret, i: Inputs, tok: Tok) -> Result<Balance, String> {
    match tok {
        Tok::Sized => call_once_with::<Tk>(pkg, ret, i),
        Tok::Zero => call_once_with::<Tz>(pkg, ret, i),
    }
}

fn call_once_with<T: TokenCall>(pkg: &mut Package<roto::NoCtx>, ret: Ret, i: Inputs) -> Result<Balance, String> {
    T::call_once(pkg, ret, i)
}

trait TokenCall {
    fn call_once(pkg: &mut Package<roto::NoCtx>, ret: Ret, i: Inputs) -> Result<Balance, String>;
}

macro_rules! measured_call {
    ($pkg:ident, $i:ident, $t:ty, $r:ty) => {{
        let f = $pkg
            .get_function::<fn(u32, u32, bool, Val<$t>, RotoString) -> $r>("main")
            .map_err(|e| format!("{e}"))?;
        let before = counters();
        {
            let a: (u32, u32, bool, Val<$t>, RotoString) = ($i.n, $i.m, $i.c, Val(<$t as Token>::fresh()), RotoString::from("arg"));
            let out = f.call(a.0, a.1, a.2, a.3, a.4);
            drop(out);
        }
        let after = counters();
        Balance {
            live: after.live - before.live,
            double_drop: after.double_drop - before.double_drop,
            use_after_drop: after.use_after_drop - before.use_after_drop,
            allocs: after.allocs - before.allocs,
            created: after.created - before.created,
            cloned: after.cloned - before.cloned,
            dropped: after.dropped - before.dropped,
        }
    }};
}

macro_rules! token_call {
    ($t:ty) => {
        impl TokenCall for $t {
            fn call_once(pkg: &mut Package<roto::NoCtx>, ret: Ret, i: Inputs) -> Result<Balance, String> {
                Ok(match ret {
                    Ret::U32 => measured_call!(pkg, i, $t, u32),
                    Ret::Tk => measured_call!(pkg, i, $t, Val<$t>),
                    Ret::Str => measured_call!(pkg, i, $t, RotoString),
                    Ret::OptTk => measured_call!(pkg, i, $t, Option<Val<$t>>),
                    Ret::ListTk => measured_call!(pkg, i, $t, List<Val<$t>>),
                    Ret::Verdict => measured_call!(pkg, i, $t, Verdict<Val<$t>, RotoString>),
                    Ret::Unit => measured_call!(pkg, i, $t, ()),
                })
            }
        }
    };
}
token_call!(Tk);
token_call!(Tz);

fn dump(src: &str) -> Result<Vec<roto::verif_hooks::c03::ItemDump>, String> {
    let rt = runtime();
    roto::verif_hooks::c03::dump(FileTree::test_file("c03.roto", src, 0), &rt)
        .map_err(|e| format!("{e}"))
}

/// per item: (variable, label of the block that wrote it) for the variables whose only writes
/// were removed by dead-code elimination
type Gone = Vec<(String, Vec<(String, String)>)>;

/// The dump together with the eliminated definitions of the *same* lowering: two lowerings of one
/// script number the temporaries of a `match` differently (guard chains in hash-set order).
fn dump_with_gone(src: &str) -> Result<(Vec<roto::verif_hooks::c03::ItemDump>, Gone), String> {
    let rt = runtime();
    roto::verif_hooks::c03::dump_with_eliminated(FileTree::test_file("c03.roto", src, 0), &rt)
        .map_err(|e| format!("{e}"))
}

fn nums_line(nums: &[u64]) -> String {
    nums.iter().map(|n| n.to_string()).collect::<Vec<_>>().join(" ")
}


/// All steering inputs: trip counts 0/1/2/5 for both counters, both branch outcomes.
fn all_inputs() -> Vec<Inputs> {
    let mut v = vec![];
    for n in [0u32, 1, 2, 5] {
        for m in [0u32, 1, 2, 5] {
            for c in [false, true] {
                v.push(Inputs { n, m, c });
            }
        }
    }
    v
}

#[derive(Debug, Clone)]
struct Reject {
    item: String,
    block: String,
    reason: String,
    var: String,
    def_block: String,
    status: String,
    agg: bool,
    arg: bool,
    /// the variable is written by no block of the item: `def_block` is then the block that
    /// wrote it before dead-code elimination removed that block (hook `eliminated_definitions`)
    eliminated: bool,
}

impl Reject {
    /// the construct class a rejection (and the measured defect behind it) belongs to
    fn class(&self, src: &str) -> String {
        let strip = |s: &str| -> String {
            let last = s.rsplit('.').next().unwrap_or(s);
            last.chars().filter(|c| !c.is_ascii_digit() && *c != '(' && *c != ')').collect()
        };
        if self.reason == "variant-read" {
            // `… = clone x.V.i` where something may have written `x` since the switch on its
            // discriminant selected `V`: the arm reads the payload of a value that was dropped
            // and replaced (a `match` whose arms read the matched variable instead of a copy)
            return "variant-read-of-overwritten-value".into();
        }
        if self.status.starts_with('P') || (self.agg && self.reason == "dropUninit") {
            return "aggregate-literal-diverging-field".into();
        }
        if self.arg && self.reason == "return-leak" {
            // An argument temporary still owned at an exit. The known class is: the exit sits
            // in a *later argument / operand* of a call, list literal or operator. If the script
            // has no exit in such a position the leak has another cause; when its only exits in
            // expression position sit inside f-string interpolations the leaked temporary is the
            // f-string's accumulator (or a part on its way to `append`).
            let sites = exit_sites(src);
            if sites.iter().any(|s| s.later_operand) {
                return "diverging-later-call-argument".into();
            }
            if sites.iter().any(|s| s.in_interpolation) {
                return "f-string-interpolation-exit".into();
            }
            return format!("call-argument-leak:{}", strip(&self.def_block));
        }
        if self.def_block.contains("guard_") {
            if self.var.starts_with('$') {
                // temporaries of a guard expression live in the frame enclosing the match
                return "match-guard-temporaries".into();
            }
            if self.reason == "return-leak" && self.block.contains("guard_") {
                // a `return` inside a guard: the arm's bindings were already popped
                return "match-guard-return-leaks-bindings".into();
            }
            return format!("match-binding:{}", self.reason);
        }
        if self.def_block.contains("while-condition") {
            return "while-cond-temporaries".into();
        }
        if self.eliminated {
            // a variable whose only definition was removed as dead code is released: the
            // construct is the one whose (unreachable) block defined it
            return format!("dead-definition:{}:{}", strip(&self.def_block), self.reason);
        }
        if self.def_block.is_empty() {
            return format!("never-written:{}", self.reason);
        }
        format!("other:{}:{}", strip(&self.def_block), self.reason)
    }
}

/// Where an early exit (`return` / `accept` / `reject` / `(…)?`) of the script sits.
#[derive(Debug, Clone, Copy, PartialEq)]
pub struct ExitSite {
    /// inside the `{…}` of an f-string
    pub in_interpolation: bool,
    /// after a `,` inside `(…)` / `[…]` or after a binary operator of an enclosing expression
    pub later_operand: bool,
}

/// Scan our own scripts (generated or from the table) for the syntactic position of every exit.
pub fn exit_sites(src: &str) -> Vec<ExitSite> {
    #[derive(PartialEq, Clone, Copy)]
    enum K {
        Paren,
        Brace,
        Interp,
        FStr,
    }
    // only `main` (the prelude's functions are the same in every script)
    let body = src.find("main(").and_then(|i| src[i..].find('{').map(|j| &src[i + j..])).unwrap_or(src);
    let b: Vec<char> = body.chars().collect();
    let mut stack: Vec<(K, bool)> = vec![];
    let mut out = vec![];
    let mut i = 0;
    let word_at = |i: usize, w: &str| -> bool {
        let n = w.chars().count();
        i + n <= b.len()
            && b[i..i + n].iter().copied().eq(w.chars())
            && (i == 0 || !(b[i - 1].is_alphanumeric() || b[i - 1] == '_'))
            && (i + n == b.len() || !(b[i + n].is_alphanumeric() || b[i + n] == '_'))
    };
    while i < b.len() {
        let c = b[i];
        if stack.last().map(|t| t.0) == Some(K::FStr) {
            match c {
                '"' => {
                    stack.pop();
                }
                '{' => stack.push((K::Interp, false)),
                _ => {}
            }
            i += 1;
            continue;
        }
        let site = |stack: &Vec<(K, bool)>| ExitSite {
            in_interpolation: stack.iter().any(|t| t.0 == K::Interp),
            later_operand: stack.iter().any(|t| t.1),
        };
        match c {
            'f' if i + 1 < b.len() && b[i + 1] == '"' && (i == 0 || !(b[i - 1].is_alphanumeric() || b[i - 1] == '_')) => {
                stack.push((K::FStr, false));
                i += 2;
                continue;
            }
            '"' => {
                i += 1;
                while i < b.len() && b[i] != '"' {
                    i += 1;
                }
            }
            '(' => {
                // a method call `x.f(…)`: the receiver is an earlier argument
                let mut j = i;
                while j > 0 && (b[j - 1].is_alphanumeric() || b[j - 1] == '_') {
                    j -= 1;
                }
                let method = j < i && j > 0 && b[j - 1] == '.';
                stack.push((K::Paren, method));
            }
            // a list literal creates the list handle before its first element
            '[' => stack.push((K::Paren, true)),
            '{' => {
                // `if a == b {` / `while i < n {`: the condition's operators end here
                let prev = b[..i].iter().rev().find(|c| !c.is_whitespace()).copied().unwrap_or(' ');
                if let Some(t) = stack.last_mut() {
                    if t.0 != K::Paren && !matches!(prev, '+' | '=' | '<' | '(' | ',') {
                        t.1 = false;
                    }
                }
                stack.push((K::Brace, false));
            }
            ')' | ']' | '}' => {
                stack.pop();
            }
            ',' => {
                if let Some(t) = stack.last_mut() {
                    t.1 = t.0 == K::Paren;
                }
            }
            ';' => {
                if let Some(t) = stack.last_mut() {
                    if t.0 != K::Paren {
                        t.1 = false;
                    }
                }
            }
            '+' | '<' => {
                if let Some(t) = stack.last_mut() {
                    t.1 = true;
                }
            }
            '=' | '!' if i + 1 < b.len() && b[i + 1] == '=' => {
                if let Some(t) = stack.last_mut() {
                    t.1 = true;
                }
                i += 1;
            }
            '=' if i + 1 < b.len() && b[i + 1] == '>' => {
                i += 1;
            }
            '?' => {
                let prev = b[..i].iter().rev().find(|c| !c.is_whitespace());
                if prev == Some(&')') {
                    out.push(site(&stack));
                }
            }
            _ => {
                if word_at(i, "return") || word_at(i, "accept") || word_at(i, "reject") {
                    out.push(site(&stack));
                    i += 5;
                }
            }
        }
        i += 1;
    }
    out
}

struct Checked {
    items: usize,
    blocks: u64,
    rejects: Vec<Reject>,
    bad: Vec<String>,
    /// blocks whose clone / drop calls in the real LIR differ from what the model of the
    /// MIR → LIR lowering (`c03 lir-expect`) emits for the MIR block
    lir_diffs: Vec<String>,
    lir_blocks: u64,
}

/// The clone / drop calls in the LIR of every function of `src`, per block in block order:
/// `C<root>` for `mem::clone(dst, src, …)` / `::generated::clone_N(dst, src)`, `D<root>` for
/// `mem::drop(v, …)` / `::generated::drop_N(v)`, where `<root>` is the variable the pointer is
/// an offset of (`$k = ptr::offset(w, 16)` → `w`).
fn lir_ownership_calls(text: &str) -> Result<std::collections::HashMap<String, Vec<(String, Vec<String>)>>, String> {
    let mut out: std::collections::HashMap<String, Vec<(String, Vec<String>)>> = Default::default();
    let mut cur: Option<(String, Vec<(String, Vec<String>)>, std::collections::HashMap<String, String>)> = None;
    for line in text.lines() {
        let l = line.trim();
        if let Some(r) = l.strip_prefix("fn ") {
            let name = r.split('(').next().unwrap_or("").trim().to_string();
            cur = Some((name, vec![], Default::default()));
            continue;
        }
        let Some((_, blocks, ptrs)) = cur.as_mut() else { continue };
        if l == "}" {
            let (name, blocks, _) = cur.take().unwrap();
            out.insert(name, blocks);
            continue;
        }
        if let Some(lbl) = l.strip_prefix('.') {
            blocks.push((lbl.to_string(), vec![]));
            continue;
        }
        let root = |ptrs: &std::collections::HashMap<String, String>, v: &str| -> String {
            let mut v = v.trim().to_string();
            for _ in 0..64 {
                match ptrs.get(&v) {
                    Some(b) => v = b.clone(),
                    None => break,
                }
            }
            v
        };
        let args = |r: &str| -> Vec<String> {
            r.trim_end_matches(')').split(',').map(|x| x.trim().to_string()).collect()
        };
        if let Some((lhs, rhs)) = l.split_once(" = ptr::offset(") {
            let base = rhs.split(',').next().unwrap_or("").trim().to_string();
            ptrs.insert(lhs.trim().to_string(), base);
        } else if let Some(r) = l.strip_prefix("mem::drop(") {
            let a = args(r);
            let e = format!("D{}", root(ptrs, &a[0]));
            if let Some(b) = blocks.last_mut() { b.1.push(e) }
        } else if l.starts_with("::generated::drop_") {
            let a = args(l.split_once('(').map(|x| x.1).unwrap_or(""));
            let e = format!("D{}", root(ptrs, &a[0]));
            if let Some(b) = blocks.last_mut() { b.1.push(e) }
        } else if let Some(r) = l.strip_prefix("mem::clone(") {
            let a = args(r);
            let e = format!("C{}", root(ptrs, a.get(1).map(|x| x.as_str()).unwrap_or("")));
            if let Some(b) = blocks.last_mut() { b.1.push(e) }
        } else if l.starts_with("::generated::clone_") {
            let a = args(l.split_once('(').map(|x| x.1).unwrap_or(""));
            let e = format!("C{}", root(ptrs, a.get(1).map(|x| x.as_str()).unwrap_or("")));
            if let Some(b) = blocks.last_mut() { b.1.push(e) }
        }
    }
    Ok(out)
}

/// Compare, block by block, what the model of the lowering emits for the MIR item (`ans` of
/// `c03 lir-expect`) with the calls in the real LIR function.
fn lir_compare(it: &roto::verif_hooks::c03::ItemDump, ans: &str, lir: Option<&Vec<(String, Vec<String>)>>, out: &mut Checked) {
    if lir.is_none() && it.is_constant {
        // a constant's initialiser is not printed as a function of the LIR
        return;
    }
    let Some(lir) = lir else {
        out.lir_diffs.push(format!("{}: no function of that name in the LIR", it.name));
        return;
    };
    let groups: Vec<&str> = ans.split(" ; ").collect();
    if groups.len() != lir.len() {
        out.lir_diffs.push(format!("{}: {} MIR blocks, {} LIR blocks", it.name, groups.len(), lir.len()));
        return;
    }
    for (g, (label, calls)) in groups.iter().zip(lir) {
        out.lir_blocks += 1;
        let (head, body) = g.split_once(':').unwrap_or((g, ""));
        let mir_label = head.trim().trim_start_matches('B').parse::<usize>().ok().and_then(|i| it.labels.get(i).cloned()).unwrap_or_default();
        let mir_label = mir_label.trim_start_matches('.').to_string();
        let expect: Vec<String> = body.split_whitespace().map(|e| {
            let (k, v) = e.split_at(1);
            match v.parse::<usize>().ok().and_then(|i| it.vars.get(i)) {
                Some(name) => format!("{k}{name}"),
                None => e.to_string(),
            }
        }).collect();
        // a clone of a constant / of the context reads from a compiler temporary: only the kind is compared
        let same = mir_label == *label && expect.len() == calls.len()
            && expect.iter().zip(calls).all(|(e, c)| e == c || (e == "C-" && c.starts_with('C')));
        if !same {
            out.lir_diffs.push(format!("{} block {} (LIR .{}): the lowering model emits [{}] for the MIR block, the LIR has [{}]",
                it.name, mir_label, label, expect.join(" "), calls.join(" ")));
        }
    }
}

/// Dump every item of `src` and run the verified checker on each.
fn check_script(drv: &mut Driver, src: &str) -> Result<Checked, String> {
    // the MIR dump, the eliminated definitions and the LIR of ONE lowering
    let rt = runtime();
    let (items, gone, lir_text) = roto::verif_hooks::c03::dump_with_eliminated_and_lir(FileTree::test_file("c03.roto", src, 0), &rt).map_err(|e| format!("{e}"))?;
    let mut out = Checked { items: items.len(), blocks: 0, rejects: vec![], bad: vec![], lir_diffs: vec![], lir_blocks: 0 };
    let lir = lir_ownership_calls(&lir_text)?;
    for it in &items {
        if !it.lowered {
            // the LIR lowerer skips items with an uninhabited parameter
            continue;
        }
        let expect = drv.ask(&format!("c03 lir-expect {}", nums_line(&it.nums)));
        if expect.starts_with('B') {
            lir_compare(it, &expect, lir.get(&it.name), &mut out);
        } else {
            out.bad.push(format!("{}: lir-expect: {expect}", it.name));
        }
        let ans = drv.ask(&format!("c03 check {}", nums_line(&it.nums)));
        let w: Vec<&str> = ans.split_whitespace().collect();
        match w.first().copied() {
            Some("ok") => out.blocks += it.labels.len() as u64,
            Some("reject") if w.len() >= 6 => {
                let lbl = |s: &str| -> String {
                    s.parse::<usize>().ok().and_then(|i| it.labels.get(i).cloned()).unwrap_or_else(|| s.to_string())
                };
                let var = w[3].parse::<usize>().ok().and_then(|i| it.vars.get(i).cloned()).unwrap_or_else(|| w[3].to_string());
                // No block of the item writes the variable (the checker answers with an
                // out-of-range label): ask the compiler which block wrote it before dead-code
                // elimination. Guard chains are lowered once per discriminant, also behind an
                // unguarded arm, so such a variable is typically the temporary of an unreachable
                // copy of a guard that the frame enclosing the `match` still drops.
                let known = w[4].parse::<usize>().ok().is_some_and(|i| i < it.labels.len());
                let (def_block, eliminated) = if known || w[4] == "-" {
                    (lbl(w[4]), false)
                } else {
                    let found = gone.iter().find(|(item, _)| *item == it.name)
                        .and_then(|(_, defs)| defs.iter().find(|(v, _)| *v == var).map(|(_, l)| l.clone()));
                    match found {
                        Some(l) => (l, true),
                        None => (String::new(), false),
                    }
                };
                out.rejects.push(Reject {
                    item: it.name.clone(),
                    block: lbl(w[1]),
                    reason: w[2].to_string(),
                    var,
                    def_block,
                    status: if eliminated { format!("{}, only written in a block removed as dead code", w[5]) } else { w[5].to_string() },
                    agg: w.get(6) == Some(&"1"),
                    arg: w.get(7) == Some(&"1"),
                    eliminated,
                });
            }
            _ => out.bad.push(format!("{}: {ans}", it.name)),
        }
    }
    Ok(out)
}

fn balance_json(b: &Balance) -> Value {
    json!({"live": b.live, "double_drop": b.double_drop, "use_after_drop": b.use_after_drop,
           "allocs": b.allocs, "created": b.created, "cloned": b.cloned, "dropped": b.dropped})
}

/// One script through both oracles. Returns the class signature.
fn one_case(rep: &mut Report, drv: &mut Driver, src: &str, ret: Ret, origin: &str) {
    one_case_glue(rep, drv, src, ret, origin, None)
}

/// The generated drop and clone functions in the LIR of `src`, canonically: per function the
/// list (one entry per variant block, or one for a record) of what it performs.
/// drop: `offset/kind`, `r` = a runtime drop function, `g` = a call of another generated drop
/// function. clone: `v<src>>r<dst>/kind` and `v<src>>r<dst>#<bytes>` for a memcpy, where `v` is
/// an offset from the source (`val`) and `r` one from the destination (`$return`).
fn lir_glue_functions(src: &str) -> Result<(Vec<Vec<String>>, Vec<Vec<String>>), String> {
    let rt = runtime();
    let text = roto::verif_hooks::core::lower_to_mir(FileTree::test_file("c03.roto", src, 0), &rt)
        .map_err(|e| format!("{e}"))?
        .lower_to_lir()
        .text();
    let (mut drops, mut clones): (Vec<Vec<String>>, Vec<Vec<String>>) = (vec![], vec![]);
    // (blocks, pointer variables, has a switch, is a clone function)
    let mut cur: Option<(Vec<String>, std::collections::HashMap<String, String>, bool, bool)> = None;
    for line in text.lines() {
        let l = line.trim();
        if l.starts_with("fn ::generated::drop_") || l.starts_with("fn ::generated::clone_") {
            cur = Some((vec![], Default::default(), false, l.starts_with("fn ::generated::clone_")));
            continue;
        }
        let Some((blocks, ptrs, is_enum, is_clone)) = cur.as_mut() else { continue };
        if l == "}" {
            let (mut blocks, _, is_enum, is_clone) = cur.take().unwrap();
            if is_enum && !blocks.is_empty() {
                blocks.remove(0); // the block holding the switch
            }
            if is_clone { clones.push(blocks) } else { drops.push(blocks) }
            continue;
        }
        if l.starts_with('.') {
            blocks.push(String::new());
            continue;
        }
        if l.starts_with("switch ") {
            *is_enum = true;
            continue;
        }
        let clone_fn = *is_clone;
        let ptr = |ptrs: &std::collections::HashMap<String, String>, v: &str| -> String {
            match v {
                "val" => if clone_fn { "v0".into() } else { "0".into() },
                "$return" => "r0".into(),
                _ => ptrs.get(v).cloned().unwrap_or_else(|| format!("?{v}")),
            }
        };
        let mut push = |e: String| {
            if let Some(b) = blocks.last_mut() {
                if !b.is_empty() {
                    b.push(' ');
                }
                b.push_str(&e);
            }
        };
        if let Some((lhs, rhs)) = l.split_once(" = ptr::offset(") {
            let mut it = rhs.trim_end_matches(')').split(',').map(|x| x.trim());
            let (base, off) = (it.next().unwrap_or(""), it.next().unwrap_or(""));
            let p = match base {
                "val" => if clone_fn { format!("v{off}") } else { off.to_string() },
                "$return" => format!("r{off}"),
                o => format!("?{o}+{off}"),
            };
            ptrs.insert(lhs.trim().to_string(), p);
        } else if let Some(r) = l.strip_prefix("mem::drop(") {
            let v = r.split(',').next().unwrap_or("").trim();
            push(format!("{}/r", ptr(ptrs, v)));
        } else if let Some(r) = l.strip_prefix("::generated::drop_") {
            let v = r.split('(').nth(1).unwrap_or("").trim_end_matches(')').trim();
            push(format!("{}/g", ptr(ptrs, v)));
        } else if let Some(r) = l.strip_prefix("mem::clone(") {
            let mut it = r.trim_end_matches(')').split(',').map(|x| x.trim());
            let (d, s_) = (it.next().unwrap_or(""), it.next().unwrap_or(""));
            push(format!("{}>{}/r", ptr(ptrs, s_), ptr(ptrs, d)));
        } else if let Some(r) = l.strip_prefix("mem::copy(") {
            let mut it = r.trim_end_matches(')').split(',').map(|x| x.trim());
            let (d, s_, n) = (it.next().unwrap_or(""), it.next().unwrap_or(""), it.next().unwrap_or(""));
            push(format!("{}>{}#{n}", ptr(ptrs, s_), ptr(ptrs, d)));
        } else if let Some(r) = l.strip_prefix("::generated::clone_") {
            let args = r.split('(').nth(1).unwrap_or("").trim_end_matches(')');
            let mut it = args.split(',').map(|x| x.trim());
            let (d, s_) = (it.next().unwrap_or(""), it.next().unwrap_or(""));
            push(format!("{}>{}/g", ptr(ptrs, s_), ptr(ptrs, d)));
        } else if l.starts_with("return") || l.is_empty() || l.contains("mem::read(") || l.starts_with("mem::write($return,")
            || (l.starts_with('$') && l.contains(": ") && !l.contains('=')) {
        } else {
            // anything else inside a glue function is outside the model
            push(format!("?{l}"));
        }
    }
    Ok((drops, clones))
}

/// `D<i> v<k>: …` groups of the model's answer → per declaration the list of variant strings
fn parse_shallow(ans: &str) -> std::collections::BTreeMap<usize, Vec<String>> {
    let mut m: std::collections::BTreeMap<usize, Vec<String>> = Default::default();
    for g in ans.split(" ; ") {
        let Some((head, body)) = g.split_once(':') else { continue };
        let head = head.trim();
        // drop functions under 2*decl, clone functions under 2*decl + 1
        let odd = if head.starts_with('C') { 1 } else { 0 };
        let Some(d) = head.get(1..).and_then(|h| h.split(' ').next()).and_then(|d| d.parse::<usize>().ok()) else { continue };
        m.entry(2 * d + odd).or_default().push(body.trim().to_string());
    }
    m
}

fn one_case_glue(rep: &mut Report, drv: &mut Driver, src: &str, ret: Ret, origin: &str, glue_nums: Option<(&[u64], &[bool])>) {
    let checked = match check_script(drv, src) {
        Ok(c) => c,
        Err(_) => {
            rep.hist("compile", "rejected-by-compiler");
            return;
        }
    };
    rep.hist("compile", "ok");
    let tok = Tok::of(origin);
    for b in &checked.bad {
        rep.mismatch("driver could not read the dump", json!({"script": src, "answer": b}));
    }
    rep.evaluations += checked.lir_blocks;
    rep.hist("lir-blocks-compared", if checked.lir_diffs.is_empty() { "same-calls" } else { "different-calls" });
    let mut pkg = match compile(src) {
        Ok(p) => p,
        Err(e) => {
            rep.mismatch("hook compiled the script but Package compilation failed", json!({"script": src, "error": e}));
            return;
        }
    };
    // measured oracle: every steering input; where the tokens balance a second (warm) call
    // measures the heap too: a leaked or doubly freed String / List shows as an allocation delta
    let mut bad: Option<(Inputs, Balance)> = None;
    let mut alloc_bad: Option<(Inputs, Balance)> = None;
    let mut sig = std::collections::BTreeSet::new();
    for i in all_inputs() {
        let b1 = match call_once(&mut pkg, ret, i, tok) {
            Ok(b) => b,
            Err(e) => {
                // A generated script may leave a type undetermined (`[].get(0)` whose element is
                // never used): the signature gate then refuses `main`. Whether that refusal is
                // right is property C04's business; the script cannot be run, so it is skipped
                // (visible in the `compile` histogram).
                if origin.starts_with("gen:") {
                    rep.hist("compile", "main-not-obtainable-skipped");
                } else {
                    rep.mismatch("main has an unexpected signature", json!({"script": src, "error": e}));
                }
                return;
            }
        };
        rep.evaluations += 1;
        sig.insert((b1.created.min(9), b1.cloned.min(9)));
        if !b1.ok() && bad.is_none() {
            bad = Some((i, b1));
        }
        if b1.ok() {
            let b2 = call_once(&mut pkg, ret, i, tok).unwrap();
            rep.evaluations += 1;
            if b2.ok() && b2.allocs != 0 && alloc_bad.is_none() {
                alloc_bad = Some((i, b2));
            }
        }
    }
    rep.hist("paths-per-program", format!("{}", sig.len().min(12)));
    let input = |i: &Inputs, b: &Balance| {
        let mut v = json!({"script": src, "ret": ret.name(), "inputs": {"n": i.n, "m": i.m, "c": i.c},
               "balance": balance_json(b), "origin": origin, "token": if tok == Tok::Zero { "zero-sized" } else { "sized" }});
        if let Some((nums, reach)) = glue_nums {
            v["glue_nums"] = json!(nums);
            v["glue_reach"] = json!(reach);
        }
        v
    };
    let glue = origin.starts_with("glue");
    // token imbalance first, then heap imbalance
    let measured = bad.or(alloc_bad);
    // drop / clone glue: what the Lean model of the generated functions (the loops as extracted
    // from the current source) says about these declarations, and whether the generated
    // functions in the real LIR are the model's
    let mut model_says: Option<String> = None;
    if let Some((nums, reach)) = glue_nums {
        let ans = drv.ask(&format!("c03 glue-check {}", nums_line(nums)));
        if !ans.starts_with("ok") && !ans.starts_with("mismatch") {
            rep.mismatch("driver could not read the glue declarations", json!({"script": src, "answer": ans}));
        }
        if ans.starts_with("mismatch") {
            model_says = Some(ans);
        }
        let shallow = parse_shallow(&drv.ask(&format!("c03 glue-shallow {}", nums_line(nums))));
        match lir_glue_functions(src) {
            Ok((dfns, cfns)) => {
                for (key, variants) in &shallow {
                    let (d, is_clone) = (key / 2, key % 2 == 1);
                    // a function is generated for a declaration that is part of the value and
                    // holds something to drop (otherwise it is memcpy'd / ignored by the caller)
                    let droppable = shallow.get(&(2 * d)).is_some_and(|v| v.iter().any(|x| !x.is_empty()));
                    if !reach.get(d).copied().unwrap_or(false) || !droppable {
                        continue;
                    }
                    rep.evaluations += 1;
                    let fns = if is_clone { &cfns } else { &dfns };
                    if !fns.iter().any(|f| f == variants) {
                        rep.mismatch(
                            &format!("no generated {} function in the LIR performs what the model computes for declaration {} ({}): the model of {} is not faithful",
                                if is_clone { "clone" } else { "drop" }, d, variants.join(" | "), if is_clone { "clones.rs" } else { "drops.rs" }),
                            json!({"script": src, "origin": origin, "model": variants, "lir": fns}));
                    }
                }
            }
            Err(e) => rep.mismatch("glue script does not lower to LIR", json!({"script": src, "error": e})),
        }
    }
    let describe = |b: &Balance| {
        if b.ok() {
            format!("heap allocations not balanced after the call (delta {:+}): a String or List leaked or was freed twice", b.allocs)
        } else {
            format!("live-token delta {}, double drops {}, use after drop {}", b.live, b.double_drop, b.use_after_drop)
        }
    };
    match (&measured, checked.rejects.first()) {
        (None, None) if model_says.is_some() => {
            rep.mismatch(
                &format!("the glue model predicts a wrong release ({}) but every path balanced on the real code", model_says.clone().unwrap_or_default()),
                json!({"script": src, "origin": origin}));
        }
        (None, None) if !checked.lir_diffs.is_empty() => {
            // every path balanced, yet the LIR's clone / drop calls are not those the model of the
            // lowering emits: the model (or the translator's reading of src/lir/lower.rs) is not
            // faithful to what the lowering does
            rep.mismatch(
                &format!("the clone / drop calls in the LIR differ from what the model of the MIR → LIR lowering emits: {}", checked.lir_diffs.iter().take(3).cloned().collect::<Vec<_>>().join(" || ")),
                json!({"script": src, "origin": origin}));
        }
        (None, None) => {
            let z = if tok == Tok::Zero { "zst:" } else { "" };
            rep.class(if glue { format!("balanced-glue:{}", class_of_glue(origin, src)) } else { format!("balanced:{z}{}", class_sig(src)) });
        }
        (Some((i, b)), Some(r)) => {
            rep.violation(
                &format!("{}: {} (checker: {} at {} on {} [{}])", r.class(src), describe(b), r.reason, r.block, r.var, r.status),
                &r.class(src), input(i, b));
            rep.class(format!("defect:{}", r.class(src)));
        }
        (Some((i, b)), None) if glue => {
            // the MIR is justified by the verified checker: what is wrong is below it, in the
            // generated drop / clone functions of the declared types
            rep.violation(
                &format!("drop/clone glue: {} for a value of the declared types ({}) on the path n={} m={} c={}; the MIR is accepted by the verified checker; glue model on the current loops: {}",
                    describe(b), src.lines().filter(|l| l.starts_with("record") || l.starts_with("enum")).collect::<Vec<_>>().join("; "), i.n, i.m, i.c,
                    model_says.clone().unwrap_or_else(|| "no wrong release predicted".into())),
                "drop-clone-glue", input(i, b));
            if glue_nums.is_some() && model_says.is_none() {
                rep.mismatch("imbalance measured on a glue program for which the model predicts exact release", input(i, b));
            }
            rep.class("defect:drop-clone-glue".to_string());
        }
        (Some((i, b)), None) if (tok == Tok::Zero || progen::sized_src(src) != src) && twin_balances(src, ret, *i) => {
            // The MIR is justified by both verified checkers (it does not depend on sizes) and
            // the same script over the sized token balances on this input: what differs is how
            // the clone / drop glue below the MIR (call_clone_function / call_drop_of, the
            // generated clone / drop functions of aggregates, list element vtables) treats a
            // registered `#[clone]` type whose Rust type has size 0.
            rep.violation(
                &format!("zero-sized registered #[clone] type: {} (created {}, cloned {}, dropped {}) while the same script over the sized token balances on every steering input (here n={} m={} c={}); the MIR is accepted by the verified checkers: the clone / drop glue treats a type of size 0 differently from a sized one",
                    describe(b), b.created, b.cloned, b.dropped, i.n, i.m, i.c),
                "zero-sized-token-glue", input(i, b));
            rep.class("defect:zero-sized-token-glue".to_string());
        }
        (Some((i, b)), None) if !checked.lir_diffs.is_empty() => {
            // The MIR is justified by both verified checkers, and the LIR does not perform the
            // clone / drop calls that the MIR's ownership events name (`block_lowering_keeps_events`
            // over the lowering as extracted from src/lir/lower.rs): the MIR → LIR lowering took an
            // ownership decision of its own.
            rep.violation(
                &format!("MIR → LIR lowering: {} on the path n={} m={} c={} of a program whose MIR the verified checkers accept; the clone / drop calls in the LIR are not the ownership events of the MIR: {}",
                    describe(b), i.n, i.m, i.c, checked.lir_diffs.iter().take(3).cloned().collect::<Vec<_>>().join(" || ")),
                "lir-lowering-ownership", input(i, b));
            rep.class("defect:lir-lowering-ownership".to_string());
        }
        (Some((i, b)), None) if !runtime_element_calls(src).is_empty() => {
            // The MIR is justified by both verified checkers and hands a value to the list
            // runtime by raw pointer: MIR lowering emits no Drop for it (the callee owns it), so
            // the Rust side (`ErasedList::push / contains_owned / index_owned`) has to store or
            // release it on every path, whatever the list holds.
            rep.violation(
                &format!("runtime boundary: {} on a program whose MIR the verified checkers accept; main hands a value to the list runtime by raw pointer ({}), which must store or release it on every path (inputs n={} m={} c={})",
                    describe(b), runtime_element_calls(src).join(", "), i.n, i.m, i.c),
                "runtime-consumed-argument", input(i, b));
            rep.class("defect:runtime-consumed-argument".to_string());
        }
        (Some((i, b)), None) => {
            if b.ok() {
                rep.violation(&describe(b), "alloc-imbalance", input(i, b));
            } else {
                rep.violation(
                    &format!("imbalance measured ({}) on a program the verified checker accepted", describe(b)),
                    "unpredicted-imbalance", input(i, b));
                rep.mismatch("checker accepted, execution imbalanced: the ownership model is not faithful here", input(i, b));
            }
            rep.class(format!("balanced:{}", class_sig(src)));
        }
        (None, Some(r)) => {
            // The checker cannot justify this program and none of the steering inputs drives
            // the real function down the offending path: the search cannot decide, so the
            // rejection stands as a broken obligation of that construct class.
            rep.violation(
                &format!("{}: the verified checker rejects the compiler's MIR ({} at {} on {} [{}]); none of the {} steering inputs reaches the offending path, so no imbalance was measured",
                    r.class(src), r.reason, r.block, r.var, r.status, all_inputs().len()),
                &r.class(src),
                json!({"script": src, "ret": ret.name(), "origin": origin, "confirmed": false}));
            rep.class(format!("defect-unconfirmed:{}", r.class(src)));
        }
    }
}

/// Does the sized twin of a zero-sized script balance (tokens, and heap on the warm call) on
/// EVERY steering input? (The two twins may take different paths on one input — a zero-sized
/// token has no tag, so `==` / `contains` / `index` answer differently — so one input says little.)
fn twin_balances(src: &str, ret: Ret, _i: Inputs) -> bool {
    let Ok(mut pkg) = compile(&progen::sized_src(src)) else { return false };
    for i in all_inputs() {
        let Ok(b1) = call_once(&mut pkg, ret, i, Tok::Sized) else { return false };
        if !b1.ok() {
            return false;
        }
        if !matches!(call_once(&mut pkg, ret, i, Tok::Sized), Ok(b2) if b2.ok() && b2.allocs == 0) {
            return false;
        }
    }
    true
}

/// the list methods used in `main` that receive an element as a `DynVal` (raw pointer)
fn runtime_element_calls(src: &str) -> Vec<&'static str> {
    let body = src.split("main(").nth(1).unwrap_or(src);
    [".push(", ".contains(", ".index("].into_iter().filter(|m| body.contains(m)).collect()
}

/// class of a glue program: the field-order pattern of its declarations (carried in the origin)
fn class_of_glue(origin: &str, _src: &str) -> String {
    origin.split('|').nth(1).unwrap_or("?").to_string()
}

/// signature of a program: which constructs it uses
fn class_sig(src: &str) -> String {
    let body = src.split("main(").nth(1).unwrap_or(src);
    let mut f = vec![];
    for (k, pat) in [("w", "while "), ("f", "for "), ("m", "match "), ("g", ") if "), ("r", "return"),
                     ("a", "accept"), ("j", "reject"), ("q", ")?"), ("&", "&&"), ("|", "||"), ("R", "R {"),
                     ("Q", "Q {"), ("E", "E."), ("F", "f\""), ("K", "KT"), ("L", "["), ("_", "_ "), ("=", ".a = "), ("S", "= w"), ("p", ".push("), ("c", ".contains("), ("i", ".index("), ("x", ".concat("), ("s", ".swap("), ("G", ") if { ")] {
        let n = body.matches(pat).count();
        if n > 0 {
            f.push(format!("{k}{}", n.min(3)));
        }
    }
    f.join("")
}

/// a `W` (record with sibling fields of the same droppable types) built from the parameters
const W0: &str = "let w = W { x: t, y: mk(n), l: V { v: mk(1), s: s }, r: V { v: mk(2), s: \"r\" + s }, p: maybe(c, m), q: maybe(true, 3), u: many(n), w: many(m) };";

const RETS: [Ret; 7] = [Ret::U32, Ret::Tk, Ret::Str, Ret::OptTk, Ret::ListTk, Ret::Verdict, Ret::Unit];

/// the generated program `(seed, index, depth)`; every third one is written over the
/// zero-sized token (`progen::zero_src` of what the generator produced)
fn gen_case(seed: u64, index: u64, depth: u32) -> (String, Ret, std::collections::BTreeMap<&'static str, u64>) {
    let mut rng = Prng::for_case(seed, index);
    let ret = *rng.pick(&RETS);
    let mut g = progen::Gen::new(rng, ret);
    let src = g.program(depth);
    if gen_tok(index) == Tok::Zero {
        return (progen::zero_src(&src), ret, g.used);
    }
    (src, ret, g.used)
}

fn gen_tok(index: u64) -> Tok {
    if index % 3 == 2 { Tok::Zero } else { Tok::Sized }
}

fn gen_origin(seed: u64, index: u64, depth: u32) -> String {
    format!("gen:{seed}:{index}:{depth}{}", if gen_tok(index) == Tok::Zero { "/zst" } else { "" })
}

/// The class representatives: the hand-written table over the sized token, then the same
/// scripts over the zero-sized token (one per construct x {sized, zero-sized}), then scripts
/// whose aggregates mix both.
fn table_case(index: usize) -> Option<(String, Ret, String)> {
    let t = table();
    if let Some((name, ret, src)) = t.get(index) {
        return Some((format!("table:{name}"), *ret, src.clone()));
    }
    let (name, ret, src) = t.get(index - t.len())?;
    Some((format!("table:{name}/zst"), *ret, progen::zero_src(src)))
}

fn table_len() -> u64 {
    2 * table().len() as u64
}

/// The hand-written table: the known defect witnesses and one clean script per construct.
fn table() -> Vec<(&'static str, Ret, String)> {
    let p = progen::PARAMS;
    let pre = progen::PRELUDE;
    let f = |ret: &str, body: &str| format!("{pre}fn main({p}) -> {ret} {{ {body} }}\n");
    vec![
        ("witness-while", Ret::U32, f("u32", "let i = 0; while mk(i) != mk(n) { i = i + 1; } i")),
        ("witness-match-guard", Ret::U32, f("u32", "let x = maybe(c, m); match x { Some(y) if mk(id(y)) == mk(n) => 1, Some(y) => 2, None => 3 }")),
        ("witness-aggregate", Ret::U32, f("u32", "let r = R { a: mk(1), b: if c { return 7 } else { \"x\" }, k: 2 }; 3")),
        ("clean-enum-ctor-diverging", Ret::U32, f("u32", "let e = E.B(\"x\", if c { return 7 } else { mk(2) }); 3")),
        ("clean-while", Ret::U32, f("u32", "let i = 0; while i < n { let x = mk(i); i = i + 1; } i")),
        ("clean-for", Ret::U32, f("u32", "let k = 0; for e in many(n) { k = k + id(e); } k")),
        ("clean-and-or", Ret::U32, f("u32", "if (id(mk(n)) == 1 && id(mk(m)) == 2) || same(t, mk(1000)) { 1 } else { 2 }")),
        ("clean-question", Ret::OptTk, f("Tk?", "let q = maybe(c, n)?; Some(q)")),
        ("clean-assign", Ret::Tk, f("Tk", "let x = mk(1); x = mk(2); let r = R { a: x, b: s, k: n }; r.a = t; r.b = \"z\"; r.a")),
        ("clean-match-guard-fails", Ret::U32, f("u32", "match opt(t, c) { Some(y) if id(y) == n => 1, Some(y) if id(y) == m => 2, Some(y) => id(y), None => 3 }")),
        ("clean-assign-loop", Ret::Str, f("String", "let x = s; let i = 0; while i < n { x = x + \"a\"; i = i + 1; } x")),
        ("clean-match", Ret::Str, f("String", "match opt(t, c) { Some(y) => name(y), None => s }")),
        ("clean-fstring", Ret::Str, f("String", "f\"a{n}b{s}c{name(t)}\"")),
        // early exits inside f-string interpolations: the accumulator and the parts appended so far
        ("clean-fstring-question", Ret::OptTk, f("Tk?", "let x = f\"a{n}b{id(maybe(c, m)?)}c\"; Some(mk(slen(x)))")),
        ("clean-fstring-question-first", Ret::OptTk, f("Tk?", "let x = f\"{id(maybe(c, m)?)}\"; Some(mk(slen(x)))")),
        ("clean-fstring-return", Ret::Str, f("String", "f\"a{name(t)}b{if c { return s } else { n }}c\"")),
        ("clean-fstring-return-nested", Ret::U32, f("u32", "let x = f\"a{match opt(t, c) { Some(y) => id(y), None => { return 7 } }}b{s}\"; slen(x)")),
        ("clean-fstring-in-loop-return", Ret::U32, f("u32", "let i = 0; while i < n { let x = f\"p{i}q{if i == m { return i } else { s }}\"; i = i + slen(x); } i")),
        // several `?` in one function whose sets of live values differ (a value created between
        // them; a value of an inner scope that is gone at the second)
        ("clean-question-twice", Ret::OptTk, f("Tk?", "let a = maybe(c, n)?; let b = mk(id(a)); let d = maybe((m == 1), 2)?; Some(thru(b))")),
        ("clean-question-inner-scope", Ret::OptTk, f("Tk?", "let a = { let z = mk(1); id(maybe(c, n)?) + id(z) }; let d = maybe((m == 1), a)?; Some(d)")),
        ("clean-question-in-branches", Ret::OptTk, f("Tk?", "let a = if c { let z = mk(1); same(maybe((n == 1), 1)?, z) } else { false }; let y = mk(2); let d = maybe((m == 1), 2)?; if a { Some(y) } else { Some(d) }")),
        ("clean-question-in-loop", Ret::OptTk, f("Tk?", "let i = 0; let acc = mk(0); while i < n { let e = maybe((i < m), i)?; acc = thru(e); i = i + 1; } Some(acc)")),
        ("clean-question-in-match-arm", Ret::OptTk, f("Tk?", "match opt(t, c) { Some(y) => { let z = maybe((n == 1), 1)?; if same(y, z) { Some(mk(1)) } else { maybe((m == 1), 2)? ; None } }, None => Some(mk(id(maybe((m == 2), 3)?))) }")),
        // several exits of the same kind whose live sets differ
        ("clean-returns-differ", Ret::U32, f("u32", "let a = mk(1); if c { return 1; } let b = mk(2); if n == 1 { return id(a); } if n == 2 { let z = mk(3); if m == 1 { return id(z) + id(b); } } 4")),
        ("clean-accepts-differ", Ret::Verdict, format!("{pre}filtermap main({p}) {{ let a = mk(1); if c {{ accept a }} let b = \"x\" + s; if n == 1 {{ reject b }} let z = mk(3); if m == 1 {{ accept z }} reject b }}\n")),
        // values nobody uses: loop elements, match bindings, discarded results, constants
        ("clean-for-unused-element", Ret::U32, f("u32", "let k = 0; for e in many(n) { k = k + 1; } for e in [t, mk(1)] { if c { return k; } } k")),
        ("clean-match-unused-binding", Ret::U32, f("u32", "let a = match opt(t, c) { Some(y) => 1, None => 2 }; a + match E.B(s, mk(3)) { B(q, x) => 1, A(x) => 2, C => 3 }")),
        ("clean-discard", Ret::U32, f("u32", "mk(1); name(mk(2)); many(n); [t]; f\"a{n}\"; opt(mk(4), c); E.A(mk(5)); R { a: mk(6), b: s, k: 1 }; 3")),
        ("clean-constants", Ret::U32, f("u32", "let a = KT; let i = 0; while i < n { let b = KS; i = i + id(KT) + slen(b); } id(a) + slen(KS)")),
        ("clean-assign-rhs-exits", Ret::U32, f("u32", "let x = mk(1); x = if c { return 7 } else { mk(2) }; let r = R { a: x, b: s, k: n }; r.a = if n == 1 { return 8 } else { t }; id(r.a)")),
        // exits while other compiler-internal values are pending
        ("clean-for-return", Ret::U32, f("u32", "for e in many(n) { if id(e) == m { return 1; } } 0")),
        ("clean-match-scrutinee-return", Ret::U32, f("u32", "match E.B(s, t) { B(q, x) => { if c { return 1; } slen(q) + id(x) }, A(x) => id(x), C => 0 }")),
        ("witness-call-arg", Ret::U32, f("u32", "let b = same(mk(1), if c { return 3 } else { mk(2) }); 3")),
        ("witness-list-literal", Ret::U32, f("u32", "let l = [mk(1), if c { return 3 } else { mk(2) }]; 3")),
        ("witness-guard-return", Ret::U32, f("u32", "match opt(t, true) { Some(y) if { if c { return 1 } else { mk(n) == y } } => 2, Some(y) => 3, None => 4 }")),
        // a guard behind an unguarded arm of the same chain: its block is dead code, its temporaries are not
        ("witness-dead-guard", Ret::U32, f("u32", "match maybe(c, m) { None => 1, _ if s == \"lit1\" => 2, _ => 3 }")),
        ("clean-fstring-accept", Ret::Verdict, format!("{pre}filtermap main({p}) {{ let x = f\"a{{n}}b{{if c {{ accept t }} else {{ m }}}}\"; reject x }}\n")),
        ("clean-list", Ret::ListTk, f("List[Tk]", "let l = [t, mk(1)]; l.push(mk(2)); if c { return l + many(n); } l")),
        // a guard that assigns to the variable being matched: the arms must read the value the
        // match started with (its own copy of the examinee), not what the variable holds now
        ("witness-examinee-reassigned", Ret::U32, f("u32", "let x = opt(t, true); match x { Some(y) if { x = None; id(y) == n } => 1, Some(z) => id(z), None => 3 }")),
        ("witness-examinee-enum-reassigned", Ret::U32, f("u32", "let e = E.B(s, t); match e { B(q, x) if { e = E.C; slen(q) == n } => 1, B(q, x) => id(x) + slen(q), A(x) => id(x), C => 0 }")),
        ("clean-examinee-param-reassigned", Ret::U32, format!("{pre}fn g(x: Tk?, n: u32) -> u32 {{ match x {{ Some(y) if {{ x = Some(mk(1)); id(y) == n }} => 1, Some(z) if {{ x = None; id(z) == n + 1 }} => 2, Some(w) => id(w), None => 3 }} }}\nfn main({p}) -> u32 {{ g(opt(t, true), n) + g(opt(mk(m), c), m) }}\n")),
        ("clean-examinee-reassigned-in-loop", Ret::U32, f("u32", "let x = opt(t, true); let i = 0; let k = 0; while i < n { k = k + match x { Some(y) if { x = maybe((i == m), i); false } => 1, Some(z) => id(z), None => 3 }; i = i + 1; } k")),
        ("clean-examinee-binding-reassigned", Ret::U32, f("u32", "match E.A(t) { A(w) => { let o = opt(w, true); match o { Some(y) if { o = None; c } => id(y), Some(z) => id(z) + 1, None => 0 } }, B(q, w) => 1, C => 2 }")),
        ("clean-examinee-field-reassigned", Ret::U32, f("u32", "let q = Q { r: R { a: t, b: s, k: n }, o: maybe(true, m) }; match q.o { Some(y) if { q.o = None; id(y) == n } => 1, Some(z) => id(z), None => 3 }")),
        ("clean-examinee-reassigned-in-arm", Ret::U32, f("u32", "let x = opt(t, c); match x { Some(y) => { x = None; id(y) }, None => { x = Some(mk(n)); 3 } }")),
        ("clean-question-on-variable", Ret::OptTk, f("Tk?", "let x = maybe(c, n); let y = x?; x = None; Some(y)")),
        // values handed to the type-erased list runtime by raw pointer (`List.push / contains /
        // index`): the Rust side releases or stores them, whatever the list holds at that moment
        // (n = number of elements: 0, 1, 2, 5; m decides found / not found)
        ("rt-contains-tk", Ret::U32, f("u32", "let l = many(n); if l.contains(mk(m)) { 1 } else { 0 }")),
        ("rt-index-tk", Ret::U32, f("u32", "match many(n).index(mk(m)) { Some(i) => 1, None => 0 }")),
        ("rt-contains-empty-literal", Ret::U32, f("u32", "let l: List[Tk] = []; if l.contains(t) { 1 } else { 0 }")),
        ("rt-index-empty-literal", Ret::U32, f("u32", "let l: List[Tk] = []; match l.index(mk(n)) { Some(i) => 1, None => 0 }")),
        ("rt-contains-string", Ret::U32, f("u32", "let l: List[String] = []; let i = 0; while i < n { l.push(f\"a{i}\"); i = i + 1; } if l.contains(f\"a{m}\") { 1 } else { 0 }")),
        ("rt-index-string", Ret::U32, f("u32", "let l: List[String] = []; let i = 0; while i < n { l.push(s + f\"{i}\"); i = i + 1; } match l.index(s + f\"{m}\") { Some(i) => 1, None => 0 }")),
        ("rt-contains-list", Ret::U32, f("u32", "let l: List[List[Tk]] = []; let i = 0; while i < n { l.push(many(i)); i = i + 1; } if l.contains(many(m)) { 1 } else { 0 }")),
        // element types whose drop function is generated glue (the vtable's drop_fn)
        ("rt-contains-enum", Ret::U32, f("u32", "let l: List[E] = []; let i = 0; while i < n { l.push(E.B(s, mk(i))); i = i + 1; } if l.contains(if c { E.A(mk(m)) } else { E.B(s, mk(m)) }) { 1 } else { 0 }")),
        ("rt-index-record", Ret::U32, f("u32", "let l: List[R] = []; let i = 0; while i < n { l.push(R { a: mk(i), b: s, k: i }); i = i + 1; } match l.index(R { a: mk(m), b: s, k: m }) { Some(j) => 1, None => 0 }")),
        ("rt-contains-option", Ret::U32, f("u32", "let l: List[Tk?] = []; let i = 0; while i < n { l.push(maybe(c, i)); i = i + 1; } if l.contains(Some(mk(m))) { 1 } else { 0 }")),
        ("rt-seen-loop", Ret::U32, f("u32", "let seen: List[Tk] = []; for e in many(n) + many(m) { if !seen.contains(e) { seen.push(e); } } count(seen)")),
        // aggregates that hold the sized and the zero-sized token side by side (their zero-sized
        // twins hold only zero-sized tokens next to a scalar)
        ("mixed-record", Ret::U32, format!("record M {{ z: Tz, a: Tk, y: Tz, k: u32 }}\n{}", f("u32", "let r = M { z: mkz(1), a: t, y: mkz(2), k: n }; let r2 = r; let z2 = r2.z; r2.y = z2; if c { return 1; } let l = [r, r2]; match l.get(0) { Some(x) => idz(x.y) + id(x.a), None => 0 }"))),
        ("mixed-enum", Ret::U32, format!("enum ME {{ A(Tz, Tk), B(Tk, Tz), C(Tz), D }}\n{}", f("u32", "let e = if n == 0 { ME.A(mkz(1), t) } else if n == 1 { ME.B(t, mkz(2)) } else if n == 2 { ME.C(mkz(3)) } else { ME.D }; let g = e; if c { return 1; } let l = [e, g]; match l.get(0) { Some(x) => match x { A(z, a) => id(a) + idz(z), B(a, z) => idz(z), C(z) => 2, D => 3 }, None => 4 }"))),
        ("mixed-option-list", Ret::U32, f("u32", "let o = maybez(c, 1); let p = o; let l: List[Tz?] = [o, p, None]; let k = 0; for e in l { k = k + match e { Some(z) => 1 + idz(z), None => 0 }; } let q = [manyz(n), manyz(m)]; for e in q { k = k + countz(e); } k + id(t)")),
        // assignment from a SIBLING place: the right-hand side is a plain place read rooted in the
        // same variable as the assigned place (same droppable type, different projection path).
        // The MIR is `tmp = clone w.<b>; drop w.<a>; w.<a> = tmp`: a clone and a drop of one root
        // variable and one type stand next to each other, and only their paths tell them apart —
        // for the MIR checker and for everything below the MIR (LIR lowering, code generation).
        ("sib-assign-field", Ret::U32, f("u32", &format!("{W0} w.x = w.y; id(w.x) + id(w.y)"))),
        ("sib-assign-nested", Ret::U32, f("u32", &format!("{W0} w.l.v = w.r.v; id(w.l.v) + id(w.r.v)"))),
        ("sib-assign-string", Ret::U32, f("u32", &format!("{W0} w.l.s = w.r.s; slen(w.l.s)"))),
        ("sib-assign-record", Ret::U32, f("u32", &format!("{W0} w.l = w.r; id(w.l.v) + slen(w.r.s)"))),
        ("sib-assign-option", Ret::U32, f("u32", &format!("{W0} w.p = w.q; match w.p {{ Some(y) => id(y), None => 0 }}"))),
        ("sib-assign-list", Ret::U32, f("u32", &format!("{W0} w.u = w.w; count(w.u)"))),
        ("sib-assign-loop", Ret::U32, f("u32", &format!("{W0} let i = 0; while i < n {{ w.l.v = w.r.v; w.x = w.y; w.l.s = w.r.s; i = i + 1; }} id(w.x) + id(w.l.v)"))),
        ("sib-assign-swap", Ret::U32, f("u32", &format!("{W0} let tmp = w.x; w.x = w.y; w.y = tmp; if c {{ return id(w.x); }} id(w.y)"))),
        ("sib-assign-cross-level", Ret::U32, f("u32", &format!("{W0} w.x = w.l.v; w.r.v = w.y; id(w.x) + id(w.r.v)"))),
        ("sib-assign-then-overwrite", Ret::U32, f("u32", &format!("{W0} w.x = w.y; w.y = mk(7); let k = id(w.x); w.l.s = w.r.s; w.r.s = \"new\"; k + slen(w.l.s)"))),
        ("sib-assign-self", Ret::Tk, f("Tk", &format!("{W0} w.x = w.x; w.l.s = w.l.s; w.l = w.l; let z = t; z = z; if c {{ return w.x; }} z"))),
        ("sib-assign-param", Ret::U32, format!("{pre}fn g(w: W, k: u32) -> W {{ let i = 0; while i < k {{ w.x = w.y; w.p = w.q; i = i + 1; }} w }}\nfn main({p}) -> u32 {{ {W0} let r = g(w, n); id(r.x) + id(w.y) }}\n")),
        ("sib-assign-in-match-arm", Ret::U32, f("u32", &format!("{W0} match w.p {{ Some(y) => {{ w.x = w.y; id(y) }}, None => {{ w.l.v = w.r.v; 0 }} }}"))),
        ("rt-push-get-swap-concat", Ret::U32, f("u32", "let l = many(n); l.push(t); l.swap(0, 1); let a = l.concat(many(m)); let k = match a.get(1) { Some(x) => id(x), None => 0 }; if a.is_empty() { k } else { k + 1 }")),
    ]
}

/// the glue case `(kind, seed, depth, index)` and its origin string `glue:…|<class>`
fn glue_case(kind: &str, seed: u64, depth: u32, index: u64) -> Option<(glue::Glue, String)> {
    if kind == "gtable" {
        let (name, g) = glue::table().into_iter().nth(index as usize)?;
        let o = format!("glue-table:{name}|{}", g.class_sig());
        Some((g, o))
    } else {
        let mut rng = Prng::for_case(seed ^ 0x61c8_8646_80b5_83eb, index);
        let g = glue::Glue::random(&mut rng, depth);
        let o = format!("glue:{seed}:{index}:{depth}|{}", g.class_sig());
        Some((g, o))
    }
}

fn run_worker_batch(kind: &str, seed: u64, depth: u32, from: u64, n: u64) {
    let mut rep = Report::default();
    let mut drv = Driver::spawn().expect("lean driver");
    use std::io::Write;
    for index in from..from + n {
        println!("START {index}");
        std::io::stdout().flush().unwrap();
        match kind {
            "gen" => {
                let (src, ret, used) = gen_case(seed, index, depth);
                for (k, v) in used {
                    *rep.histograms.entry("constructs".into()).or_default().entry(k.to_string()).or_insert(0) += v;
                }
                rep.hist("return-kind", ret.name());
                rep.hist("token", if gen_tok(index) == Tok::Zero { "zero-sized" } else { "sized" });
                if index < from + 2 {
                    rep.sample(json!({"seed": seed, "index": index, "ret": ret.name(), "script": src}));
                }
                one_case(&mut rep, &mut drv, &src, ret, &gen_origin(seed, index, depth));
            }
            "table" => {
                if let Some((origin, ret, src)) = table_case(index as usize) {
                    rep.hist("token", if Tok::of(&origin) == Tok::Zero { "zero-sized" } else { "sized" });
                    one_case(&mut rep, &mut drv, &src, ret, &origin);
                }
            }
            "gtable" | "glue" => {
                if let Some((g, origin)) = glue_case(kind, seed, depth, index) {
                    rep.hist("glue-decls", format!("{}", g.decls.len()));
                    if kind == "glue" && index < from + 2 {
                        rep.sample(json!({"seed": seed, "index": index, "glue": g.describe()}));
                    }
                    let (nums, reach) = (g.nums(), g.reachable());
                    one_case_glue(&mut rep, &mut drv, &g.script(), Ret::U32, &origin, Some((&nums, &reach)));
                }
            }
            _ => {}
        }
    }
    rep.emit();
}

/// Harvest scripts from the repository: examples/*.roto, tests/**/*.roto, the
/// doctests, and the `src!(…)` literals of src/codegen/tests.rs. They are only
/// checked (their host types and signatures are not ours to call).
fn harvest(repo: &str) -> Vec<(String, String)> {
    let mut out = vec![];
    fn walk(dir: &std::path::Path, out: &mut Vec<(String, String)>) {
        if let Ok(rd) = std::fs::read_dir(dir) {
            let mut es: Vec<_> = rd.flatten().map(|e| e.path()).collect();
            es.sort();
            for p in es {
                if p.is_dir() {
                    walk(&p, out);
                } else if p.extension().is_some_and(|e| e == "roto") {
                    if let Ok(s) = std::fs::read_to_string(&p) {
                        out.push((p.display().to_string(), s));
                    }
                }
            }
        }
    }
    walk(&std::path::Path::new(repo).join("examples"), &mut out);
    walk(&std::path::Path::new(repo).join("tests"), &mut out);
    if let Ok(s) = std::fs::read_to_string(std::path::Path::new(repo).join("tests/doctests.json")) {
        if let Ok(Value::Array(a)) = serde_json::from_str::<Value>(&s) {
            for (i, e) in a.iter().enumerate() {
                if e["lang"] == "roto" {
                    if let Some(c) = e["code"].as_str() {
                        out.push((format!("doctest:{i}"), c.to_string()));
                        // statement-level snippets are wrapped by the doc runner
                        out.push((format!("doctest-wrapped:{i}"), format!("fn main() {{\n{c}\n}}")));
                    }
                }
            }
        }
    }
    if let Ok(s) = std::fs::read_to_string(std::path::Path::new(repo).join("src/codegen/tests.rs")) {
        let b = s.as_bytes();
        let mut i = 0;
        let mut k = 0;
        while let Some(off) = s[i..].find("src!(") {
            let mut j = i + off + 5;
            while j < b.len() && (b[j] as char).is_whitespace() {
                j += 1;
            }
            if j < b.len() && b[j] == b'"' {
                j += 1;
                let mut lit = String::new();
                while j < b.len() && b[j] != b'"' {
                    if b[j] == b'\\' && j + 1 < b.len() {
                        match b[j + 1] {
                            b'n' => lit.push('\n'),
                            b't' => lit.push('\t'),
                            b'"' => lit.push('"'),
                            b'\\' => lit.push('\\'),
                            b'\n' => {
                                // line continuation: skip leading whitespace of the next line
                                j += 2;
                                while j < b.len() && (b[j] == b' ' || b[j] == b'\t') {
                                    j += 1;
                                }
                                continue;
                            }
                            c => {
                                lit.push('\\');
                                lit.push(c as char);
                            }
                        }
                        j += 2;
                    } else {
                        let ch = s[j..].chars().next().unwrap();
                        lit.push(ch);
                        j += ch.len_utf8();
                    }
                }
                out.push((format!("codegen-tests:{k}"), lit));
                k += 1;
            }
            i = j.min(b.len());
        }
    }
    out
}

fn run_corpus(rep: &mut Report, repo: &str) {
    let mut drv = Driver::spawn().expect("lean driver");
    let scripts = harvest(repo);
    let (mut compiled, mut items, mut blocks) = (0u64, 0u64, 0u64);
    for (name, src) in &scripts {
        // a compiler panic on a corpus script is not this property's business
        let r = std::panic::catch_unwind(std::panic::AssertUnwindSafe(|| check_script(&mut drv, src)));
        let Ok(Ok(c)) = r else {
            rep.hist("corpus", "not-compilable-with-harness-runtime");
            continue;
        };
        compiled += 1;
        items += c.items as u64;
        blocks += c.blocks;
        rep.hist("corpus", "checked");
        rep.evaluations += c.items as u64;
        for b in &c.bad {
            rep.mismatch("driver could not read the dump", json!({"script": src, "answer": b, "origin": name}));
        }
        for r in &c.rejects {
            rep.mismatch(
                &format!("corpus script: checker rejects item {} ({} at {} on {} [{}], class {}); it cannot be executed by the harness, so the search cannot decide",
                    r.item, r.reason, r.block, r.var, r.status, r.class(src)),
                json!({"script": src, "origin": name, "class": r.class(src)}));
        }
        if c.rejects.is_empty() {
            rep.class(format!("corpus:{name}"));
        }
    }
    rep.notes.push(format!(
        "corpus: {} scripts harvested, {} compile with the harness runtime, {} MIR items / {} blocks accepted by ownCheck and varCheck",
        scripts.len(), compiled, items, blocks
    ));
}

fn on_crash(rep: &mut Report, kind: &str, seed: u64, depth: u32, index: u64, ended: &rotov_harness::worker::Ended) {
    if matches!(ended, rotov_harness::worker::Ended::Timeout) {
        // generated scripts may legitimately not terminate (pushing to the list being iterated)
        rep.hist("compile", "timeout-skipped");
        return;
    }
    let (src, ret) = match kind {
        "gen" => {
            let (s, r, _) = gen_case(seed, index, depth);
            (s, r)
        }
        "gtable" | "glue" => match glue_case(kind, seed, depth, index) {
            Some((g, origin)) => {
                // the MIR of a glue program is plain; a crash here is the generated drop / clone
                // function running on something that is not a value
                let src = g.script();
                let mir_ok = Driver::spawn().ok().map(|mut d| check_script(&mut d, &src)).and_then(|r| r.ok()).is_some_and(|c| c.rejects.is_empty());
                rep.violation(
                    &format!("drop/clone glue: the host process died ({}) while a value of the declared types ({}) was created, cloned and released{}",
                        match ended { rotov_harness::worker::Ended::Signal(s, _) => format!("signal {s}"), e => format!("{e:?}").chars().take(60).collect() },
                        g.describe(), if mir_ok { "; the MIR is accepted by the verified checker" } else { "" }),
                    "drop-clone-glue",
                    json!({"script": src, "ret": "u32", "origin": origin, "crash": true}));
                rep.class("defect:drop-clone-glue".to_string());
                return;
            }
            None => return,
        },
        _ => table_case(index as usize).map(|t| (t.2, t.1)).unwrap_or_default_case(),
    };
    let origin = match kind {
        "gen" => gen_origin(seed, index, depth),
        _ => table_case(index as usize).map(|t| t.0).unwrap_or_else(|| format!("{kind}:{seed}:{index}:{depth}")),
    };
    // classify by what the verified checker says about the script
    let (key, why) = match Driver::spawn().ok().map(|mut d| check_script(&mut d, &src)) {
        Some(Ok(c)) => match c.rejects.first() {
            Some(r) => (r.class(&src), format!("checker: {} at {} on {} [{}]", r.reason, r.block, r.var, r.status)),
            None => {
                // Heap corruption surfaces late: the blamed script may be innocent. Run it alone.
                if kind == "gen" {
                    let (sd, dp, ix) = (seed.to_string(), depth.to_string(), index.to_string());
                    let (alone, _) = rotov_harness::worker::run_worker_keep_stdout(
                        &["gen", &sd, &dp, &ix, "1"], std::time::Duration::from_secs(60));
                    if matches!(alone, rotov_harness::worker::Ended::Exit(0, _)) {
                        rep.notes.push(format!(
                            "worker died at gen:{seed}:{index}:{depth} but the script runs cleanly alone: memory was corrupted by an earlier case of the batch (reported separately if measured)"));
                        return;
                    }
                }
                // C03 is about values a RUNNING script owns. When compiling the script alone
                // already kills the process, no script ran and nothing was released: that is a
                // defect of the compiler (C06/C10: compilation is total), not of ownership.
                let (conly, _) = rotov_harness::worker::run_worker_keep_stdout(
                    &["compile-only", &src], std::time::Duration::from_secs(60));
                if !matches!(conly, rotov_harness::worker::Ended::Exit(0, _)) {
                    rep.notes.push(format!(
                        "compiler-crash (not an ownership violation; no script ran): FileTree::compile alone ended {conly:?} on {origin}: {}",
                        src.replace('\n', " ")));
                    return;
                }
                ("crash".to_string(), "checker accepted the script".to_string())
            }
        },
        _ => ("crash".to_string(), "script could not be dumped".to_string()),
    };
    rep.violation(
        &format!("{key}: the host process died while running the script ({ended:?}) — released memory that was never initialised or already freed ({why})"),
        &key,
        json!({"script": src, "ret": ret.name(), "origin": origin, "crash": true}),
    );
    rep.class(format!("defect:{key}"));
}

trait OrDefaultCase {
    fn unwrap_or_default_case(self) -> (String, Ret);
}
impl OrDefaultCase for Option<(String, Ret)> {
    fn unwrap_or_default_case(self) -> (String, Ret) {
        self.unwrap_or((String::new(), Ret::Unit))
    }
}

fn main() {
    let args: Vec<String> = std::env::args().collect();
    match args.get(1).map(|s| s.as_str()) {
        Some("run") => {
            let seed: u64 = args[2].parse().expect("seed");
            let thorough = args.get(3).map(|s| s == "thorough").unwrap_or(false);
            let repo = args.get(4).cloned().or_else(|| std::env::var("ROTO_REPO").ok()).unwrap_or_else(|| "/repo".into());
            let mut rep = Report::default();
            let timeout = std::time::Duration::from_secs(30);
            // 1. the table (witnesses first)
            let nt = table_len();
            // one process per representative: a crash must not swallow the verdicts of its neighbours
            rotov_harness::worker::run_batches(&["table", "0", "0"], nt, 1, timeout, &mut rep,
                |rep, idx, ended| on_crash(rep, "table", 0, 0, idx, ended));
            // 1b. drop/clone glue: the class representatives of declared types
            let ng = glue::table().len() as u64;
            rotov_harness::worker::run_batches(&["gtable", "0", "0"], ng, 1, timeout, &mut rep,
                |rep, idx, ended| on_crash(rep, "gtable", 0, 0, idx, ended));
            // 2. the repository's own scripts
            run_corpus(&mut rep, &repo);
            // 3. generated programs, shallow first
            let plan: &[(u32, u64)] = if thorough { &[(1, 400), (2, 1200), (3, 1200)] } else { &[(1, 60), (2, 160), (3, 80)] };
            for (depth, total) in plan {
                let (s, d) = (seed.to_string(), depth.to_string());
                let (sd, dp) = (seed, *depth);
                rotov_harness::worker::run_batches(&["gen", &s, &d], *total, 40, timeout, &mut rep,
                    |rep, idx, ended| on_crash(rep, "gen", sd, dp, idx, ended));
            }
            // 4. drop/clone glue on generated type declarations
            let gplan: &[(u32, u64)] = if thorough { &[(1, 300), (2, 600), (3, 600)] } else { &[(1, 40), (2, 60), (3, 40)] };
            for (depth, total) in gplan {
                let (s, d) = (seed.to_string(), depth.to_string());
                let (sd, dp) = (seed, *depth);
                rotov_harness::worker::run_batches(&["glue", &s, &d], *total, 40, timeout, &mut rep,
                    |rep, idx, ended| on_crash(rep, "glue", sd, dp, idx, ended));
            }
            // replays: measured (script + inputs) before predicted-only
            rep.impl_violations.sort_by_key(|v| v["input"]["confirmed"] == json!(false) || v["input"]["crash"] == json!(true));
            rep.emit();
        }
        Some("worker") if args.get(2).map(|s| s.as_str()) == Some("compile-only") => {
            // exit 0 when FileTree::compile returns (a package or a report), die with the
            // compiler when it panics: tells a compiler crash from a crash of the running script
            let _ = compile(&args[3]);
        }
        Some("worker") if args.get(2).map(|s| s.as_str()) == Some("replay-one") => {
            let v: Value = serde_json::from_str(&args[3]).expect("json");
            let src = v["script"].as_str().expect("script");
            let ret = Ret::parse(v["ret"].as_str().unwrap_or("u32")).expect("ret");
            let mut rep = Report::default();
            let mut drv = Driver::spawn().expect("lean driver");
            let nums: Option<Vec<u64>> = v["glue_nums"].as_array().map(|a| a.iter().filter_map(|x| x.as_u64()).collect());
            let reach: Vec<bool> = v["glue_reach"].as_array().map(|a| a.iter().map(|x| x.as_bool().unwrap_or(false)).collect()).unwrap_or_default();
            one_case_glue(&mut rep, &mut drv, src, ret, v["origin"].as_str().unwrap_or("replay"),
                nums.as_ref().map(|n| (n.as_slice(), reach.as_slice())));
            rep.emit();
        }
        Some("worker") => {
            let kind = args[2].as_str();
            let seed: u64 = args[3].parse().unwrap();
            let depth: u32 = args[4].parse().unwrap();
            let from: u64 = args[5].parse().unwrap();
            let n: u64 = args[6].parse().unwrap();
            run_worker_batch(kind, seed, depth, from, n);
        }
        Some("replay") => {
            // crash-isolated: the replayed script may corrupt memory
            let mut rep = Report::default();
            let (ended, out) = rotov_harness::worker::run_worker_keep_stdout(&["replay-one", &args[2]], std::time::Duration::from_secs(120));
            match Report::parse_stdout(&out) {
                Some(v) => rep.merge_json(&v),
                None => {
                    let v: Value = serde_json::from_str(&args[2]).expect("json");
                    rep.violation(&format!("replayed script killed the host process ({ended:?})"),
                        v["key"].as_str().unwrap_or("crash"), v.clone());
                }
            }
            rep.emit();
        }
        Some("lir") => {
            let rt = runtime();
            match roto::verif_hooks::core::lower_to_mir(FileTree::test_file("c03.roto", &args[2], 0), &rt) {
                Ok(m) => println!("{}", m.lower_to_lir().text()),
                Err(e) => println!("ERROR\n{e}"),
            }
        }
        Some("dump") => match dump(&args[2]) {
            Ok(items) => {
                for it in items {
                    println!("ITEM {} constant={}", it.name, it.is_constant);
                    println!("{}", it.text);
                    for (i, (t, nd)) in it.types.iter().enumerate() {
                        println!("  type {i}: {t} needs_drop={nd}");
                    }
                    for (i, v) in it.vars.iter().enumerate() {
                        println!("  var {i}: {v}");
                    }
                    for (i, v) in it.labels.iter().enumerate() {
                        println!("  label {i}: {v}");
                    }
                    println!("NUMS {}", nums_line(&it.nums));
                }
            }
            Err(e) => println!("ERROR\n{e}"),
        },
        Some("lirdiff") => {
            let mut drv = Driver::spawn().expect("lean driver");
            match check_script(&mut drv, &args[2]) {
                Ok(c) => {
                    println!("blocks compared {} diffs {}", c.lir_blocks, c.lir_diffs.len());
                    for d in c.lir_diffs { println!("{d}") }
                    for d in c.bad { println!("BAD {d}") }
                }
                Err(e) => println!("ERROR {e}"),
            }
        }
        Some("gone") => {
            // the variables whose only writes were removed by dead-code elimination
            for (item, defs) in dump_with_gone(&args[2]).map(|x| x.1).unwrap_or_default() {
                for (v, l) in defs {
                    println!("{item}: {v} written only in {l}");
                }
            }
        }
        Some("emit-lean") => {
            // write the current tree's dumps of the witness scripts as Lean definitions
            let out = &args[2];
            let module_ns = args.get(3).map(|s| s.as_str()).unwrap_or("RotoV.C03.Now");
            let mut drv = Driver::spawn().expect("lean driver");
            let mut text = String::from("/- generated by `c03 emit-lean` from the compiler's MIR dumps; do not edit -/\nimport RotoV.Model.Mir\nimport RotoV.Model.MirVariant\n\n");
            text.push_str(&format!("namespace {module_ns}\nopen RotoV.Mir\n\n"));
            for (name, _ret, src) in table() {
                if !name.starts_with("witness-") {
                    continue;
                }
                let items = match dump(&src) {
                    Ok(i) => i,
                    Err(e) => {
                        println!("EXTRACT-FAIL C03Dumps {name}: {}", e.lines().next().unwrap_or(""));
                        std::process::exit(2);
                    }
                };
                let it = items.iter().find(|i| i.name.ends_with("main")).expect("main item");
                let ident: String = std::iter::once("w".to_string())
                    .chain(name["witness-".len()..].split('-').map(|w| format!("{}{}", w[..1].to_uppercase(), &w[1..])))
                    .collect();
                let lean = drv.ask(&format!("c03 lean {}", nums_line(&it.nums)));
                let cert = drv.ask(&format!("c03 cert {}", nums_line(&it.nums)));
                text.push_str(&format!("/-- MIR of `main` in:\n{}\n-/\ndef {ident} : Item :=\n  {lean}\n\n", src.replace("-/", "- /")));
                text.push_str(&format!("/-- certificate proposed by the untrusted search (empty if it found none) -/\ndef {ident}Cert : Cert :=\n  {cert}\n\n"));
                let vcert = drv.ask(&format!("c03 vcert {}", nums_line(&it.nums)));
                text.push_str(&format!("/-- known-variant certificate proposed by the untrusted search (empty if it found none) -/\ndef {ident}VCert : VCert :=\n  {vcert}\n\n"));
            }
            text.push_str(&format!("end {module_ns}\n"));
            std::fs::write(out, text).expect("write");
            println!("EXTRACT-OK C03Dumps");
        }
        Some("table-src") => {
            // every class representative: origin, return kind, whether it compiles, the script
            for i in 0..table_len() as usize {
                if let Some((origin, ret, src)) = table_case(i) {
                    let ok = match compile(&src) { Ok(_) => "compiles".to_string(), Err(e) => format!("REJECTED {}", e.lines().take(6).collect::<Vec<_>>().join(" / ")) };
                    if args.get(2).is_none_or(|f| origin.contains(f.as_str())) {
                        println!("{origin} [{}] {ok}\n{src}", ret.name());
                    }
                }
            }
        }
        Some("table-nums") => {
            for (name, _ret, src) in table() {
                if let Ok(items) = dump(&src) {
                    if let Some(it) = items.iter().find(|i| i.name.ends_with("main")) {
                        println!("{name} {}", nums_line(&it.nums));
                    }
                }
            }
        }
        Some("gen") => {
            let (src, ret, _) = gen_case(args[2].parse().unwrap(), args[3].parse().unwrap(), args[4].parse().unwrap());
            println!("// ret {}\n{src}", ret.name());
        }
        Some("exec") => {
            let ret = Ret::parse(&args[2]).expect("ret kind");
            let i = Inputs {
                n: args[4].parse().unwrap(),
                m: args[5].parse().unwrap(),
                c: args[6].parse().unwrap(),
            };
            match compile(&args[3]) {
                Ok(mut pkg) => {
                    let tok = if args.get(7).map(|s| s.as_str()) == Some("zst") { Tok::Zero } else { Tok::Sized };
                    let b1 = call_once(&mut pkg, ret, i, tok);
                    let b2 = call_once(&mut pkg, ret, i, tok);
                    println!("first  {b1:?}\nsecond {b2:?}");
                }
                Err(e) => println!("ERROR\n{e}"),
            }
        }
        _ => {
            eprintln!("usage: c03 run <seed> <tier> [repo] | replay <json> | dump <src> | exec <ret> <src> n m c | gen <seed> <index> <depth>");
            std::process::exit(2);
        }
    }
}
