//! C03: measured ownership oracle + verified checker over real MIR dumps.
//!
//! usage: c03 run <seed> <quick|thorough>
//!        c03 replay <json>
//!        c03 dump '<source>'             (print the structured MIR dump)
//!        c03 exec <ret> '<source>' n m c (run main once, print the balance)

#[path = "../c03/host.rs"]
mod host;

use host::*;
use roto::{FileTree, List, Package, RotoString, Val, Verdict};
use rotov_harness::driver::Driver;
use rotov_harness::{Prng, Report};
use serde_json::{Value, json};

#[global_allocator]
static GLOBAL: Counting = Counting;

/// What `main` returns; the parameters are always
/// `(n: u32, m: u32, c: bool, t: Tk, s: String)`.
#[derive(Clone, Copy, Debug, PartialEq, Eq)]
pub enum Ret {
    U32,
    Tk,
    Str,
    OptTk,
    ListTk,
    Verdict,
    Unit,
}

impl Ret {
    fn name(self) -> &'static str {
        match self {
            Ret::U32 => "u32",
            Ret::Tk => "tk",
            Ret::Str => "str",
            Ret::OptTk => "opttk",
            Ret::ListTk => "listtk",
            Ret::Verdict => "verdict",
            Ret::Unit => "unit",
        }
    }
    fn parse(s: &str) -> Option<Ret> {
        [Ret::U32, Ret::Tk, Ret::Str, Ret::OptTk, Ret::ListTk, Ret::Verdict, Ret::Unit]
            .into_iter()
            .find(|r| r.name() == s)
    }
    fn roto(self) -> &'static str {
        match self {
            Ret::U32 => "u32",
            Ret::Tk => "Tk",
            Ret::Str => "String",
            Ret::OptTk => "Tk?",
            Ret::ListTk => "List[Tk]",
            Ret::Verdict => "Verdict[Tk, String]",
            Ret::Unit => "()",
        }
    }
}

#[derive(Clone, Copy, Debug, PartialEq)]
pub struct Inputs {
    pub n: u32,
    pub m: u32,
    pub c: bool,
}

#[derive(Debug, Clone, Copy, PartialEq)]
pub struct Balance {
    /// live tokens after − before (arguments created inside the window, the result dropped inside)
    pub live: i64,
    pub double_drop: u64,
    pub use_after_drop: u64,
    pub allocs: i64,
    pub created: u64,
    pub cloned: u64,
    pub dropped: u64,
}

impl Balance {
    fn ok(&self) -> bool {
        self.live == 0 && self.double_drop == 0 && self.use_after_drop == 0
    }
}

fn compile(src: &str) -> Result<Package<roto::NoCtx>, String> {
    let rt = runtime();
    FileTree::test_file("c03.roto", src, 0)
        .compile(&rt)
        .map_err(|e| format!("{e}"))
}

/// Call `main` once and measure.
fn call_once(pkg: &mut Package<roto::NoCtx>, ret: Ret, i: Inputs) -> Result<Balance, String> {
    type A = (u32, u32, bool, Val<Tk>, RotoString);
    macro_rules! go {
        ($r:ty) => {{
            let f = pkg
                .get_function::<fn(u32, u32, bool, Val<Tk>, RotoString) -> $r>("main")
                .map_err(|e| format!("{e}"))?;
            let before = counters();
            {
                let a: A = (i.n, i.m, i.c, Val(Tk::new(1000)), RotoString::from("arg"));
                let out = f.call(a.0, a.1, a.2, a.3, a.4);
                drop(out);
            }
            let after = counters();
            Balance {
                live: after.live - before.live,
                double_drop: after.double_drop - before.double_drop,
                use_after_drop: after.use_after_drop - before.use_after_drop,
                allocs: after.allocs - before.allocs,
                created: after.created - before.created,
                cloned: after.cloned - before.cloned,
                dropped: after.dropped - before.dropped,
            }
        }};
    }
    Ok(match ret {
        Ret::U32 => go!(u32),
        Ret::Tk => go!(Val<Tk>),
        Ret::Str => go!(RotoString),
        Ret::OptTk => go!(Option<Val<Tk>>),
        Ret::ListTk => go!(List<Val<Tk>>),
        Ret::Verdict => go!(Verdict<Val<Tk>, RotoString>),
        Ret::Unit => go!(()),
    })
}

fn dump(src: &str) -> Result<Vec<roto::verif_hooks::c03::ItemDump>, String> {
    let rt = runtime();
    roto::verif_hooks::c03::dump(FileTree::test_file("c03.roto", src, 0), &rt)
        .map_err(|e| format!("{e}"))
}

fn nums_line(nums: &[u64]) -> String {
    nums.iter().map(|n| n.to_string()).collect::<Vec<_>>().join(" ")
}

fn main() {
    let args: Vec<String> = std::env::args().collect();
    match args.get(1).map(|s| s.as_str()) {
        Some("dump") => match dump(&args[2]) {
            Ok(items) => {
                for it in items {
                    println!("ITEM {} constant={}", it.name, it.is_constant);
                    println!("{}", it.text);
                    for (i, (t, nd)) in it.types.iter().enumerate() {
                        println!("  type {i}: {t} needs_drop={nd}");
                    }
                    for (i, v) in it.vars.iter().enumerate() {
                        println!("  var {i}: {v}");
                    }
                    println!("NUMS {}", nums_line(&it.nums));
                }
            }
            Err(e) => println!("ERROR\n{e}"),
        },
        Some("exec") => {
            let ret = Ret::parse(&args[2]).expect("ret kind");
            let i = Inputs {
                n: args[4].parse().unwrap(),
                m: args[5].parse().unwrap(),
                c: args[6].parse().unwrap(),
            };
            match compile(&args[3]) {
                Ok(mut pkg) => {
                    let b1 = call_once(&mut pkg, ret, i);
                    let b2 = call_once(&mut pkg, ret, i);
                    println!("first  {b1:?}\nsecond {b2:?}");
                }
                Err(e) => println!("ERROR\n{e}"),
            }
        }
        _ => {
            let _ = (Driver::spawn as fn() -> _, Prng::new(0), Report::default(), json!(0), Value::Null);
            eprintln!("usage: c03 run <seed> <tier> | replay <json> | dump <src> | exec <ret> <src> n m c");
            std::process::exit(2);
        }
    }
    let _ = Ret::U32.roto();
    let _ = Balance::ok;
}
