//! C12 correspondence: compiled functions under concurrent use.
//!
//! `c12 run <seed> <tier> [--repo <path>] [--fn-bounds "<w w w;w w …>"] [--focus c1,c2]`
//!   0. share cases (`../c12/share.rs`, one worker process per case): lists,
//!      registered closures / constants and `into_func` closures shared
//!      between threads through the safe API (`--focus` restricts the classes).
//!   1. rustc probe: three tiny programs built against the repository under
//!      test (in `target/c12-probe`): a `move` closure capturing a `Cell`
//!      (must be rejected; if it builds it is run: 4 × 100 000 increments
//!      through a shared handle), an `Rc` constant (must be rejected) and an
//!      `Arc<AtomicU32>` closure (must build and count exactly).
//!      The model's verdict (`c12 admits 1 0 <bounds>` on the generated bound
//!      lists) is compared with what rustc did.
//!   2. stress cases (crash-isolated worker batches): a generated script is
//!      lowered, its structured LIR dump goes through the verified checker
//!      (`c12 check`), it is compiled, called single-threaded on a few
//!      arguments (the oracle), then N threads × M calls run on shared and
//!      cloned handles while another thread compiles, calls and drops other
//!      packages and the main thread drops the package and the runtime. Every
//!      result must equal the single-threaded one; the drop-tracked token
//!      count must return to its baseline; the atomic tick count is exact.
//!      A fourth probe moves an `into_func` closure to another thread, drops
//!      package and runtime and calls it there (must build and be right).
//! `c12 share <seed> <tier> [--focus c1,c2] [--budget-s N]` search mode: only the
//!   share classes, new indices and escalating attempts (rounds x 4^k, k <= 2)
//!   until a violation is found or the budget (default 90 s) is used; the first
//!   pass always completes (`--budget-s 0` = exactly the pass `run` does).
//! `c12 replay <json>` re-runs one case (`{"kind":"stress","seed":..,"index":..,"tier":..}`,
//!   `{"kind":"share","class":..,"seed":..,"index":..,"tier":..}` — up to 8 attempts,
//!   stops at the first reproduction — or `{"kind":"probe"}`); `c12 dump <source>`
//!   prints the LIR dump.

use roto::{Context, FileTree, NoCtx, RotoString, Runtime, TypedFunc, Val, library};
use rotov_harness::driver::{Driver, hex};
use rotov_harness::worker::{self, Ended};
use rotov_harness::{Prng, Report};
use serde_json::{Value, json};
use std::io::Write as _;
use std::path::{Path, PathBuf};
use std::process::Command;
use std::sync::atomic::{AtomicI64, AtomicU64, Ordering};
use std::sync::{Arc, Barrier, Mutex};
use std::time::{Duration, Instant};

#[path = "../c12/share.rs"]
mod share;
#[path = "../c12/frames.rs"]
mod frames;
#[path = "../c12/globals.rs"]
mod globals;
#[path = "../c12/crossthread.rs"]
mod crossthread;

// ------------------------------------------------------------ tracked token

static LIVE: AtomicI64 = AtomicI64::new(0);
/// the last cumulative report of a stress worker, as JSON text (for the panic hook)
static LAST_REPORT: Mutex<String> = Mutex::new(String::new());
static CREATED: AtomicU64 = AtomicU64::new(0);

#[derive(Debug, PartialEq)]
struct Tk {
    id: u32,
}

impl Tk {
    fn new(id: u32) -> Self {
        LIVE.fetch_add(1, Ordering::SeqCst);
        CREATED.fetch_add(1, Ordering::Relaxed);
        Tk { id }
    }
}

impl Clone for Tk {
    fn clone(&self) -> Self {
        Tk::new(self.id)
    }
}

impl Drop for Tk {
    fn drop(&mut self) {
        LIVE.fetch_sub(1, Ordering::SeqCst);
    }
}

fn make_runtime(ticks: Arc<AtomicU64>) -> Runtime<NoCtx> {
    let lib = library! {
        /// drop-tracked token
        #[clone] type Tk = Val<Tk>;

        /// make a token
        fn mk(i: u32) -> Val<Tk> {
            Val(Tk::new(i))
        }

        /// consume a token
        fn tk_id(t: Val<Tk>) -> u32 {
            t.0.id
        }

        /// a closure with (thread-safe) captured state
        let tick = move || -> u32 {
            ticks.fetch_add(1, Ordering::Relaxed);
            1
        };

        /// a registered scalar constant
        const BASE: u32 = 1000;

        /// a registered string constant
        const GREETING: RotoString = RotoString::new("hey");
    };
    Runtime::from_lib(lib).expect("runtime")
}

// ------------------------------------------------------------ generator

#[derive(Clone, Copy, Debug, PartialEq)]
enum Sig {
    U32,    // fn(u32) -> u32
    Str,    // fn(u32) -> String
    TkPass, // fn(Tk, u32) -> Tk
}

struct Script {
    family: &'static str,
    flags: String,
    sig: Sig,
    src: String,
    ticks_per_call: u64,
}

fn expr(p: &mut Prng, vars: &[&str], depth: u32) -> String {
    if depth == 0 || p.chance(1, 4) {
        return match p.below(4) {
            0 => p.below(60).to_string(),
            1 => "BASE".to_string(),
            _ => p.pick(vars).to_string(),
        };
    }
    let a = expr(p, vars, depth - 1);
    let b = expr(p, vars, depth - 1);
    match p.below(6) {
        0 | 1 => format!("({a} + {b})"),
        2 => format!("({a} * {b})"),
        3 => format!("({a} - {b})"),
        4 => {
            let c = expr(p, vars, depth - 1);
            let op = *p.pick(&["<", "<=", "==", "!=", ">"]);
            format!("(if {a} {op} {b} {{ {c} }} else {{ {a} }})")
        }
        _ => {
            let c = expr(p, vars, depth - 1);
            format!("(if {a} < {b} && {b} != {c} {{ {b} }} else {{ {c} }})")
        }
    }
}

fn word(p: &mut Prng) -> String {
    let n = 1 + p.below(6);
    (0..n)
        .map(|_| *p.pick(&["a", "b", "z", "Q", "7", " ", "é", "-", "_", "ß"]))
        .collect()
}

fn gen_script(p: &mut Prng) -> Script {
    match p.below(10) {
        0 | 1 | 2 => {
            // scalar: loop, helper with a record parameter (pointer parameter +
            // return pointer), script constant
            let use_loop = p.chance(3, 4);
            let use_helper = p.chance(3, 4);
            let use_const = p.chance(1, 2);
            let use_opt = p.chance(1, 2);
            let use_rconst = p.chance(1, 2);
            let mut s = String::new();
            if use_const {
                s += &format!("const N: u32 = {};\n", p.below(100));
            }
            if use_rconst {
                // a by-reference constant without heap parts: a local copy of
                // it is modified, the constant itself must stay what it was
                s += &format!(
                    "record C2 {{ a: u32, b: u32 }}\nconst RC: C2 = C2 {{ a: {}, b: {} }};\n",
                    p.below(50),
                    p.below(50)
                );
            }
            let gvars: &[&str] = if use_const { &["x", "N"] } else { &["x"] };
            if use_helper {
                s += "record P { a: u32, b: u32 }\n";
                s += &format!(
                    "fn helper(p: P, k: u32) -> P {{ P {{ a: {}, b: {} }} }}\n",
                    expr(p, &["p.a", "p.b", "k"], 2),
                    expr(p, &["p.a", "p.b", "k"], 2)
                );
            }
            s += "fn main(x: u32) -> u32 {\n";
            s += &format!("  let acc = {};\n", expr(p, gvars, 3));
            if use_loop {
                let mut v: Vec<&str> = gvars.to_vec();
                v.extend(["acc", "i"]);
                s += &format!(
                    "  let i = 0;\n  while i < {} {{ acc = {}; i = i + 1; }}\n",
                    1 + p.below(20),
                    expr(p, &v, 2)
                );
            }
            if use_helper {
                s += &format!(
                    "  let q = helper(P {{ a: acc, b: x }}, {});\n  acc = {};\n",
                    p.below(30),
                    expr(p, &["q.a", "q.b", "acc"], 2)
                );
            }
            if use_rconst {
                s += "  let rr = RC;\n  rr.a = rr.a + x;\n  let rq = RC;\n  acc = acc + rr.a + rq.a * 3 + rq.b;\n";
            }
            if use_opt {
                s += &format!(
                    "  let o: u32? = if acc < {} {{ Some(acc) }} else {{ None }};\n  acc = match o {{ Some(v) => v + 1, None => {} }};\n",
                    p.below(5000),
                    expr(p, &["acc", "x"], 1)
                );
            }
            s += "  acc\n}\n";
            Script {
                family: "scalar",
                flags: format!("loop={use_loop} helper={use_helper} const={use_const} opt={use_opt} rconst={use_rconst}"),
                sig: Sig::U32,
                src: s,
                ticks_per_call: 0,
            }
        }
        3 | 4 => {
            // strings: script constant, registered constant, f-strings, loops,
            // list of strings created inside the call
            let use_list = p.chance(1, 2);
            let use_greeting = p.chance(1, 2);
            let k = word(p);
            let mut s = format!("const K: String = \"{k}\";\n");
            s += "fn deco(s: String, n: u32) -> String { f\"{s}<{n}>\" + K }\n";
            s += "fn main(x: u32) -> String {\n";
            s += &format!("  let s = \"{}\";\n  let i = 0;\n", word(p));
            s += &format!(
                "  while i < {} {{ s = s + f\"{{i}}\"; i = i + 1; }}\n",
                1 + p.below(8)
            );
            if use_list {
                s += &format!(
                    "  let ls = [f\"{{x}}\", \"{}\", K];\n  ls.push(s);\n  let out = \"\";\n  for e in ls {{ out = out + e + \"|\"; }}\n  s = out;\n",
                    word(p)
                );
            }
            let other = if use_greeting { "GREETING" } else { "K" };
            s += &format!(
                "  if x < {} {{ deco(s, x) }} else {{ deco({other}, x) + s }}\n}}\n",
                p.below(40)
            );
            Script {
                family: "string",
                flags: format!("list={use_list} greeting={use_greeting}"),
                sig: Sig::Str,
                src: s,
                ticks_per_call: 0,
            }
        }
        5 | 6 => {
            // lists created inside the call
            let n = 1 + p.below(12);
            let j = p.below(16);
            let nested = p.chance(1, 2);
            let mut s = String::new();
            s += &format!(
                "fn build(n: u32, x: u32) -> List[u32] {{\n  let l = [x];\n  let i = 0;\n  while i < n {{ l.push({}); i = i + 1; }}\n  l\n}}\n",
                expr(p, &["i", "x"], 2)
            );
            s += "fn main(x: u32) -> u32 {\n";
            s += &format!("  let l = build({n}, x);\n  let acc = 0;\n");
            s += "  for v in l { acc = acc + v; }\n";
            if nested {
                s += "  let m = l + [acc, 3];\n  for v in m { acc = acc * 3 + v; }\n";
            }
            s += &format!(
                "  match l.get({j}) {{ Some(v) => acc + v, None => acc + {} }}\n}}\n",
                p.below(9)
            );
            Script {
                family: "list",
                flags: format!("n={} nested={nested} hit={}", n, j <= n),
                sig: Sig::U32,
                src: s,
                ticks_per_call: 0,
            }
        }
        7 => {
            // drop-tracked values: clones, records, optionals, lists of tokens
            let use_list = p.chance(1, 2);
            let use_opt = p.chance(1, 2);
            let c = p.below(40);
            let mut s = String::new();
            s += "record H { t: Tk, n: u32 }\n";
            s += "fn pass(h: H) -> H { H { t: h.t, n: h.n + 1 } }\n";
            s += "fn main(x: u32) -> u32 {\n  let t = mk(x);\n  let u = t;\n";
            s += &format!("  let h = pass(H {{ t: mk(x + 1), n: {} }});\n", p.below(9));
            s += "  let extra = 7;\n";
            if use_opt {
                s += &format!(
                    "  let o: Tk? = if x < {c} {{ Some(mk(x + 2)) }} else {{ None }};\n  extra = match o {{ Some(v) => tk_id(v), None => 9 }};\n"
                );
            }
            if use_list {
                s += "  let l = [mk(1), mk(x)];\n  l.push(u);\n  for e in l { extra = extra + tk_id(e); }\n";
            }
            s += "  tk_id(t) + tk_id(h.t) + h.n + extra + tk_id(u)\n}\n";
            Script {
                family: "tk",
                flags: format!("list={use_list} opt={use_opt}"),
                sig: Sig::U32,
                src: s,
                ticks_per_call: 0,
            }
        }
        8 => {
            // tokens across the host boundary
            let c = p.below(40);
            let s = format!(
                "fn main(t: Tk, x: u32) -> Tk {{\n  let keep = t;\n  if x < {c} {{ keep }} else {{ mk(x + tk_id(t)) }}\n}}\n"
            );
            Script {
                family: "tkpass",
                flags: String::new(),
                sig: Sig::TkPass,
                src: s,
                ticks_per_call: 0,
            }
        }
        _ => {
            // registered closure with atomic captured state + registered constant
            let twice = p.chance(1, 2);
            let body = if twice {
                "tick() + tick() + x + BASE"
            } else {
                "tick() + x + BASE"
            };
            Script {
                family: "tick",
                flags: format!("twice={twice}"),
                sig: Sig::U32,
                src: format!("fn main(x: u32) -> u32 {{ {body} }}\n"),
                ticks_per_call: if twice { 2 } else { 1 },
            }
        }
    }
}

// ------------------------------------------------------------ handles

#[derive(Clone)]
enum Handle {
    U32(TypedFunc<NoCtx, fn(u32) -> u32>),
    Str(TypedFunc<NoCtx, fn(u32) -> RotoString>),
    TkPass(TypedFunc<NoCtx, fn(Val<Tk>, u32) -> Val<Tk>>),
}

impl Handle {
    fn call(&self, x: u32) -> String {
        match self {
            Handle::U32(f) => f.call(x).to_string(),
            Handle::Str(f) => f.call(x).to_string(),
            Handle::TkPass(f) => {
                let out = f.call(Val(Tk::new(x % 17)), x);
                out.0.id.to_string()
            }
        }
    }
}

fn compile(src: &str, sig: Sig, rt: &Runtime<NoCtx>) -> Result<(roto::Package<NoCtx>, Handle), String> {
    let mut pkg = FileTree::test_file("c12.roto", src, 0)
        .compile(rt)
        .map_err(|e| format!("{e}"))?;
    let h = match sig {
        Sig::U32 => Handle::U32(pkg.get_function("main").map_err(|e| format!("{e:?}"))?),
        Sig::Str => Handle::Str(pkg.get_function("main").map_err(|e| format!("{e:?}"))?),
        Sig::TkPass => Handle::TkPass(pkg.get_function("main").map_err(|e| format!("{e:?}"))?),
    };
    Ok((pkg, h))
}

struct Tier {
    cases: u64,
    calls: u64,
    batch: u64,
}

fn tier(name: &str) -> Tier {
    match name {
        "thorough" => Tier { cases: 400, calls: 150_000, batch: 20 },
        _ => Tier { cases: 60, calls: 30_000, batch: 10 },
    }
}

// ------------------------------------------------------------ one stress case

/// `check_lir!(drv, rep, src, rt, input)`: the runtime's context type cannot
/// be named outside the crate, hence a macro around `check_dump`.
macro_rules! check_lir {
    ($drv:expr, $rep:expr, $src:expr, $rt:expr, $input:expr) => {{
        let dump = roto::verif_hooks::c12::lir_dump_kinds(FileTree::test_file("c12.roto", $src, 0), $rt)
            .map_err(|e| format!("{e}"));
        check_dump($drv, $rep, $src, dump, $input, || {
            roto::verif_hooks::c12::lir_text(FileTree::test_file("c12.roto", $src, 0), $rt).unwrap_or_default()
        })
    }};
}

fn check_dump(drv: &mut Driver, rep: &mut Report, src: &str, dump: Result<(String, String), String>, input: &Value, text: impl FnOnce() -> String) -> bool {
    let (dump, kinds) = match dump {
        Ok(d) => d,
        Err(e) => {
            rep.mismatch("generator produced a script that does not lower", json!({"case": input, "error": e}));
            return false;
        }
    };
    let ans = drv.ask(&format!("c12 check {} {}", hex(&dump), hex(&kinds)));
    if let Some(rest) = ans.strip_prefix("ok ") {
        for kv in rest.split(' ') {
            if let Some((k, v)) = kv.split_once('=') {
                let n: u64 = v.parse().unwrap_or(0);
                // `k.<Variant>`: instructions of that `lir::Instruction` kind that went through the checker
                let (h, k) = match k.strip_prefix("k.") {
                    Some(kind) => ("lir-kinds", kind),
                    None => ("lir-checked", k),
                };
                *rep.histograms.entry(h.into()).or_default().entry(k.into()).or_insert(0) += n;
            }
        }
        true
    } else if ans.starts_with("reject ") || ans.starts_with("reject-call ") {
        let call = ans.starts_with("reject-call ");
        let parts: Vec<&str> = ans.split(' ').collect();
        let unhex = |s: &str| -> String {
            (0..s.len() / 2)
                .filter_map(|i| u8::from_str_radix(&s[2 * i..2 * i + 2], 16).ok())
                .map(|b| b as char)
                .collect()
        };
        let text = text();
        rep.violation(
            if call {
                "generated code passes something that is not a call-local address to a pointer-typed parameter of a Roto function (the program-level check of the verified LIR checker rejects the call site)"
            } else {
                "generated code writes through an address that is not derived from a stack slot, the return pointer or a parameter (verified LIR checker rejects the item)"
            },
            if call { "lir-call-arg-not-local" } else { "lir-nonlocal-write" },
            json!({"case": input, "item": parts.get(1).map(|s| unhex(s)), "instr_index": parts.get(2), "instr": parts.get(3).map(|s| unhex(s)), "source": src, "lir": text}),
        );
        false
    } else if ans.starts_with("bad-kind ") {
        rep.mismatch(
            "an instruction of the real LIR has a kind the generated kind list does not know, or the hook's opcode is not the shape that kind is classified as (Classify.shapeOf)",
            json!({"case": input, "answer": ans, "source": src}),
        );
        false
    } else {
        rep.mismatch("Lean driver cannot parse the structured LIR dump", json!({"case": input, "answer": ans, "source": src}));
        false
    }
}

/// Class representatives of the LIR model: small scripts that together contain
/// every `lir::Instruction` kind of the generated kind list. Run FIRST in every
/// tier, independent of the seed; every kind must go through the verified
/// checker at least once (a kind no representative reaches is a mismatch: the
/// model would claim a kind it never sees). `nested-records` is the shape of the
/// scripts of share class `frame-slots` (by-reference locals, temporaries,
/// arguments and return slots, a local live across a recursive call).
const KIND_REPRESENTATIVES: &[(&str, &str)] = &[
    ("scalar-arith", "fn main(x: u32) -> u32 {\n  let a = (x + 3) * 2 - 1;\n  let b = a / 3 + a % 5;\n  if a < b && !(a == 7) { b } else { a }\n}\n"),
    ("signed-float", "fn main(x: i32) -> bool {\n  let y = -x;\n  let f = 2.5 / 0.5;\n  let g = -f;\n  if g < f { y < 3 } else { y >= 3 }\n}\n"),
    ("strings", "fn tag(k: u32) -> String { GREETING + f\"#{k}\" }\nfn main(x: u32) -> String {\n  let s = \"a\" + tag(x);\n  if s == \"ahey#1\" { s + \"!\" } else { tag(x + BASE) }\n}\n"),
    ("records-enums", "record P { a: u32, b: u32 }\nconst RC: P = P { a: 1, b: 2 };\nfn helper(p: P, k: u32) -> P { P { a: p.a + k, b: p.b } }\nfn main(x: u32) -> u32 {\n  let q = helper(RC, x);\n  let o: u32? = if q.a < 10 { Some(q.a) } else { None };\n  match o { Some(v) => v + 1, None => q.b }\n}\n"),
    ("tokens", "fn main(x: u32) -> u32 {\n  let t = mk(x);\n  let u = t;\n  tk_id(u) + tick()\n}\n"),
    ("ipaddr", "fn main(x: u32) -> bool {\n  let a = 1.2.3.4;\n  let b = 1.2.3.4;\n  if x < 3 { a == b } else { a == 10.0.0.1 }\n}\n"),
    ("nested-records", "record Row { a: u64, b: u64 }\nrecord T { r0: Row, r1: Row }\nfn row(x: u64) -> Row { Row { a: x, b: x + 1 } }\nfn make(x: u64) -> T { T { r0: row(x), r1: row(x + 2) } }\nfn sum(t: T) -> u64 { t.r0.a + t.r0.b + t.r1.a + t.r1.b }\nfn rec(x: u64, d: u64) -> u64 {\n  let t = make(x + d);\n  let below = if d > 0 { rec(x, d - 1) } else { 0 };\n  sum(t) + below\n}\nfn main(x: u64) -> u64 {\n  let t = make(x);\n  t.r0.a = t.r0.a + 1;\n  sum(t) + rec(x, 2)\n}\n"),
    ("lists", "fn main(x: u32) -> u32 {\n  let l = [x, 2, 3];\n  l.push(x + 1);\n  let ls = [\"a\", \"b\"];\n  ls.push(\"c\");\n  let n = 0;\n  for e in l { n = n + e; }\n  n\n}\n"),
];

fn kind_representatives(rep: &mut Report) {
    let mut drv = Driver::spawn().expect("lean driver");
    let rt = make_runtime(Arc::new(AtomicU64::new(0)));
    for (name, src) in KIND_REPRESENTATIVES {
        let input = json!({"kind": "kind-representative", "name": name});
        rep.hist("family", format!("kind-representative:{name}"));
        check_lir!(&mut drv, rep, src, &rt, &input);
        rep.evaluations += 1;
    }
    let all = drv.ask("c12 kinds");
    let seen = rep.histograms.get("lir-kinds").cloned().unwrap_or_default();
    let missing: Vec<&str> = all.split(' ').filter(|k| !k.is_empty() && !seen.contains_key(*k)).collect();
    if all.is_empty() || all.starts_with("bad") {
        rep.mismatch("Lean driver does not list the generated instruction kinds", json!({"answer": all}));
    } else if !missing.is_empty() {
        rep.mismatch(
            "instruction kinds of the generated kind list that no class representative reaches (the model claims kinds it never sees on real LIR)",
            json!({"missing": missing}),
        );
    }
}

/// Scripts that read a context: every calling thread owns its context (it is
/// passed as `&mut`), the handle is shared. Exercises the `$context` paths of
/// the LIR checker on real dumps.
#[derive(Clone, Context)]
struct Cx {
    pub name: RotoString,
    pub n: u32,
}

fn ctx_case(seed: u64, index: u64, tiername: &str, drv: &mut Driver, rep: &mut Report) {
    let t = tier(tiername);
    let mut p = Prng::for_case(seed, index);
    let input = json!({"kind": "stress", "seed": seed, "index": index, "tier": tiername});
    rep.hist("family", "context");
    let rt = make_runtime(Arc::new(AtomicU64::new(0)))
        .with_context_type::<Cx>()
        .expect("context type");
    let with_helper = p.chance(1, 2);
    let mut src = String::new();
    if with_helper {
        src += "fn tag(k: u32) -> String { name + f\"#{k + n}\" }\n";
    }
    src += &format!(
        "fn main(x: u32) -> String {{\n  let s = name + \"{}\";\n  let i = 0;\n  while i < {} {{ s = s + f\"{{n + i}}\"; i = i + 1; }}\n  {}\n}}\n",
        word(&mut p),
        1 + p.below(5),
        if with_helper { "if x < 20 { s + tag(x) } else { tag(x + BASE) }" } else { "s + f\"{x * n}\" + GREETING" }
    );
    if !check_lir!(drv, rep, &src, &rt, &input) {
        return;
    }
    let mut pkg = match FileTree::test_file("c12.roto", &src, 0).compile(&rt) {
        Ok(p) => p,
        Err(e) => {
            rep.mismatch("generator produced a script that does not compile", json!({"case": input, "source": src, "error": format!("{e}")}));
            return;
        }
    };
    let f: TypedFunc<roto::Ctx<Cx>, fn(u32) -> RotoString> = match pkg.get_function("main") {
        Ok(f) => f,
        Err(e) => {
            rep.mismatch("context script: main not retrievable", json!({"case": input, "source": src, "error": format!("{e:?}")}));
            return;
        }
    };
    let args: Vec<u32> = vec![0, 1, 19, 20, u32::MAX, p.next() as u32];
    let n_threads = 3 + p.below(4) as usize;
    let ctxs: Vec<Cx> = (0..n_threads)
        .map(|i| Cx { name: RotoString::new(format!("t{i}-{}", word(&mut p))), n: p.below(1000) as u32 })
        .collect();
    let expected: Vec<Vec<String>> = ctxs
        .iter()
        .map(|c| {
            let mut c = c.clone();
            args.iter().map(|&a| f.call(&mut c, a).to_string()).collect()
        })
        .collect();
    let calls = t.calls / 2;
    let barrier = Barrier::new(n_threads + 1);
    let bad: Mutex<Vec<Value>> = Mutex::new(vec![]);
    std::thread::scope(|s| {
        for tid in 0..n_threads {
            let (f, args, expected, barrier, bad) = (&f, &args, &expected, &barrier, &bad);
            let mut cx = ctxs[tid].clone();
            s.spawn(move || {
                barrier.wait();
                for m in 0..calls {
                    let k = (m as usize + tid) % args.len();
                    let got = f.call(&mut cx, args[k]).to_string();
                    if got != expected[tid][k] {
                        let mut b = bad.lock().unwrap();
                        if b.len() < 5 {
                            b.push(json!({"thread": tid, "call": m, "arg": args[k], "got": got, "single_threaded": expected[tid][k]}));
                        }
                    }
                }
            });
        }
        barrier.wait();
        drop(pkg);
        drop(rt);
    });
    let total = calls * n_threads as u64;
    rep.evaluations += total;
    rep.hist("threads", n_threads.to_string());
    *rep.histograms.entry("concurrent".into()).or_default().entry("calls".into()).or_insert(0) += total;
    let bad = bad.into_inner().unwrap();
    if !bad.is_empty() {
        rep.violation(
            "a concurrent call returned something else than the same call single-threaded",
            "concurrent-result-differs:context",
            json!({"case": input, "source": src, "mismatches": bad}),
        );
    }
    rep.class(format!("context helper={with_helper} t={n_threads}"));
    rep.sample(json!({"case": input, "family": "context", "source": src, "threads": n_threads, "calls_per_thread": calls}));
}

fn stress_case(seed: u64, index: u64, tiername: &str, drv: &mut Driver, rep: &mut Report) {
    if index % 8 == 5 {
        return ctx_case(seed, index, tiername, drv, rep);
    }
    let t = tier(tiername);
    let mut p = Prng::for_case(seed, index);
    let script = gen_script(&mut p);
    let input = json!({"kind": "stress", "seed": seed, "index": index, "tier": tiername});
    rep.hist("family", script.family);

    let ticks = Arc::new(AtomicU64::new(0));
    let rt = make_runtime(ticks.clone());

    // verified checker on the real LIR
    if !check_lir!(drv, rep, &script.src, &rt, &input) {
        return;
    }

    let (pkg, handle) = match compile(&script.src, script.sig, &rt) {
        Ok(x) => x,
        Err(e) => {
            rep.mismatch("generator produced a script that does not compile", json!({"case": input, "source": script.src, "error": e}));
            return;
        }
    };

    // side scripts for the compiling thread (same generator, other indices)
    let mut side = vec![];
    for k in 0..3u64 {
        let mut sp = Prng::for_case(seed ^ 0x5eed, index * 8 + k);
        let sc = gen_script(&mut sp);
        if sc.family == "tick" {
            continue;
        }
        if !check_lir!(drv, rep, &sc.src, &rt, &input) {
            // never execute code the verified checker rejected
            return;
        }
        side.push(sc);
    }

    // the oracle: single-threaded results
    let mut args: Vec<u32> = vec![0, 1, u32::MAX, p.below(40) as u32, p.below(5000) as u32];
    for _ in 0..3 {
        args.push(p.next() as u32);
    }
    let live0 = LIVE.load(Ordering::SeqCst);
    let expected: Vec<String> = args.iter().map(|&a| handle.call(a)).collect();
    let again: Vec<String> = args.iter().map(|&a| handle.call(a)).collect();
    if expected != again {
        rep.violation("single-threaded calls are not deterministic", "nondeterministic-single-threaded", json!({"case": input, "source": script.src}));
        return;
    }
    let st_balanced = LIVE.load(Ordering::SeqCst) == live0;
    if !st_balanced {
        rep.notes.push(format!("single-threaded token imbalance in family {} (C03's domain): balance check skipped for that case", script.family));
    }
    let ticks0 = ticks.load(Ordering::SeqCst);

    let n_shared = 2 + p.below(3) as usize;
    let n_cloned = 2 + p.below(3) as usize;
    let calls = t.calls;
    let barrier = Barrier::new(n_shared + n_cloned + 2);
    let finished = std::sync::atomic::AtomicUsize::new(0);
    let n_callers = n_shared + n_cloned;
    let bad: Mutex<Vec<Value>> = Mutex::new(vec![]);
    let compiled_ctr = AtomicU64::new(0);
    let side_results: Mutex<Vec<(usize, u32, String)>> = Mutex::new(vec![]);
    let drop_early = p.chance(2, 3);
    let spin = p.below(20000);

    let worker_fn = |h: &Handle, tid: usize, kind: &str| {
        barrier.wait();
        for m in 0..calls {
            let k = (m as usize + tid * 3) % args.len();
            let got = h.call(args[k]);
            if got != expected[k] {
                let mut b = bad.lock().unwrap();
                if b.len() < 5 {
                    b.push(json!({"thread": tid, "handle": kind, "call": m, "arg": args[k], "got": got, "single_threaded": expected[k]}));
                }
            }
        }
        finished.fetch_add(1, Ordering::SeqCst);
    };

    std::thread::scope(|s| {
        for tid in 0..n_shared {
            let h = &handle;
            let w = &worker_fn;
            s.spawn(move || w(h, tid, "shared"));
        }
        for tid in 0..n_cloned {
            let h = handle.clone();
            let w = &worker_fn;
            s.spawn(move || {
                w(&h, n_shared + tid, "cloned");
                drop(h);
            });
        }
        // compiling thread: own runtime, compile / call / drop packages
        {
            let side = &side;
            let finished = &finished;
            let barrier = &barrier;
            let compiled_ctr = &compiled_ctr;
            let side_results = &side_results;
            s.spawn(move || {
                let rt2 = make_runtime(Arc::new(AtomicU64::new(0)));
                barrier.wait();
                let mut round = 0usize;
                while finished.load(Ordering::SeqCst) < n_callers || round < side.len().max(1) {
                    if side.is_empty() {
                        break;
                    }
                    let i = round % side.len();
                    let sc = &side[i];
                    if let Ok((pkg2, h2)) = compile(&sc.src, sc.sig, &rt2) {
                        let a = (round as u32).wrapping_mul(2654435761) % 50;
                        let r = h2.call(a);
                        drop(pkg2);
                        let r2 = h2.call(a);
                        let mut sr = side_results.lock().unwrap();
                        if sr.len() < 64 {
                            sr.push((i, a, r.clone()));
                        }
                        if r != r2 {
                            sr.push((i, a, format!("UNSTABLE {r} vs {r2}")));
                        }
                        drop(h2);
                        compiled_ctr.fetch_add(1, Ordering::Relaxed);
                    }
                    round += 1;
                    if round > 100000 {
                        break;
                    }
                }
            });
        }
        // main thread: drop the package (and runtime) while calls are running
        barrier.wait();
        if drop_early {
            for _ in 0..spin {
                std::hint::spin_loop();
            }
            drop(pkg);
            drop(rt);
        } else {
            // keep them alive until the callers are done
            let start = Instant::now();
            while start.elapsed() < Duration::from_millis(2) {
                std::hint::spin_loop();
            }
            drop(pkg);
            drop(rt);
        }
        // the scope joins the callers; the compiling thread stops once all
        // callers have finished
    });

    let n_threads = n_shared + n_cloned;
    let total_calls = calls * n_threads as u64;
    rep.evaluations += total_calls;
    rep.hist("threads", n_threads.to_string());
    rep.hist("package-dropped", if drop_early { "during-calls" } else { "after-2ms" });
    *rep.histograms.entry("concurrent".into()).or_default().entry("compilations".into()).or_insert(0) += compiled_ctr.load(Ordering::Relaxed);
    *rep.histograms.entry("concurrent".into()).or_default().entry("calls".into()).or_insert(0) += total_calls;

    let bad = bad.into_inner().unwrap();
    if !bad.is_empty() {
        rep.violation(
            "a concurrent call returned something else than the same call single-threaded",
            &format!("concurrent-result-differs:{}", script.family),
            json!({"case": input, "source": script.src, "mismatches": bad}),
        );
    }
    // side scripts: results seen concurrently == results single-threaded now
    let rt3 = make_runtime(Arc::new(AtomicU64::new(0)));
    let side_results = side_results.into_inner().unwrap();
    let mut side_handles: Vec<Option<Handle>> = vec![];
    for sc in &side {
        side_handles.push(compile(&sc.src, sc.sig, &rt3).ok().map(|(_p, h)| h));
    }
    for (i, a, r) in &side_results {
        let exp = side_handles.get(*i).and_then(|h| h.as_ref()).map(|h| h.call(*a));
        if exp.as_deref() != Some(r.as_str()) {
            rep.violation(
                "a script compiled and called while other threads were calling gave another result than single-threaded",
                "concurrent-compile-result-differs",
                json!({"case": input, "source": side[*i].src, "arg": a, "got": r, "single_threaded": exp}),
            );
            break;
        }
    }
    drop(side_handles);
    drop(handle);

    let live1 = LIVE.load(Ordering::SeqCst);
    if st_balanced && live1 != live0 {
        rep.violation(
            "drop-tracked host values do not balance after concurrent calls",
            &format!("tk-imbalance-after-concurrent-calls:{}", script.family),
            json!({"case": input, "source": script.src, "live_before": live0, "live_after": live1}),
        );
    }
    if script.ticks_per_call > 0 {
        let got = ticks.load(Ordering::SeqCst) - ticks0;
        let want = total_calls * script.ticks_per_call;
        if got != want {
            rep.violation(
                "calls of a registered closure were lost or duplicated under concurrency",
                "tick-count-differs",
                json!({"case": input, "source": script.src, "got": got, "expected": want}),
            );
        }
    }
    rep.class(format!("{} {} t={}", script.family, script.flags, n_threads));
    rep.sample(json!({"case": input, "family": script.family, "source": script.src, "threads": n_threads,
        "calls_per_thread": calls, "args": args, "single_threaded": expected}));
}

// ------------------------------------------------------------ rustc probe

const PROBE_CELL: &str = r#"
use roto::{FileTree, Runtime, library};
use std::cell::Cell;
fn main() {
    let c = Cell::new(0u32);
    let lib = library! {
        /// bump
        let bump = move || -> u32 { c.set(c.get() + 1); c.get() };
    };
    let rt = Runtime::from_lib(lib).unwrap();
    let mut pkg = FileTree::test_file("p.roto", "fn main() -> u32 { bump() }", 0).compile(&rt).unwrap();
    let f = pkg.get_function::<fn() -> u32>("main").unwrap();
    std::thread::scope(|s| {
        for _ in 0..4 {
            let f = &f;
            s.spawn(move || { for _ in 0..100000 { f.call(); } });
        }
    });
    println!("FINAL {}", f.call() - 1);
}
"#;

const PROBE_RC: &str = r#"
use roto::{Constant, Val, location};
use std::rc::Rc;
#[derive(Clone, PartialEq)]
struct Shared(Rc<u32>);
fn main() {
    let c = Constant::new("SHARED", "an Rc constant", Val(Shared(Rc::new(1))), location!());
    println!("{}", c.is_ok());
}
"#;

const PROBE_ATOMIC: &str = r#"
use roto::{FileTree, Runtime, library};
use std::sync::Arc;
use std::sync::atomic::{AtomicU32, Ordering};
fn main() {
    let c = Arc::new(AtomicU32::new(0));
    let c2 = c.clone();
    let lib = library! {
        /// bump
        let bump = move || -> u32 { c2.fetch_add(1, Ordering::Relaxed) + 1 };
    };
    let rt = Runtime::from_lib(lib).unwrap();
    let mut pkg = FileTree::test_file("p.roto", "fn main() -> u32 { bump() }", 0).compile(&rt).unwrap();
    let f = pkg.get_function::<fn() -> u32>("main").unwrap();
    std::thread::scope(|s| {
        for _ in 0..4 {
            let f = &f;
            s.spawn(move || { for _ in 0..100000 { f.call(); } });
        }
    });
    println!("FINAL {}", c.load(Ordering::SeqCst));
}
"#;

/// The closure `into_func` returns is an `impl Fn` that leaks its auto traits:
/// as long as it is `Send` it is a handle that other threads call after every
/// other owner is gone, and must keep the module alive like any handle.
const PROBE_INTO_FUNC_SEND: &str = r#"
use roto::{FileTree, Runtime};
fn main() {
    let rt = Runtime::new();
    let src = "fn main(x: u32) -> u32 { let i = 0; let res = 0; while i < x { res = res + 2 * i + 1; i = i + 1; } res }";
    let mut pkg = FileTree::test_file("p.roto", src, 0).compile(&rt).unwrap();
    let f = pkg.get_function::<fn(u32) -> u32>("main").unwrap().into_func();
    let (tx, rx) = std::sync::mpsc::channel::<()>();
    let t = std::thread::spawn(move || {
        rx.recv().unwrap();
        let mut s = 0u64;
        for x in 0..1000u32 { s += f(x) as u64; }
        s
    });
    drop(pkg);
    drop(rt);
    tx.send(()).unwrap();
    let s = t.join().unwrap();
    println!("FINAL {}", s);
}
"#;

/// A host value type that is `Send` but not `Sync` (it counts its clones in a
/// `Cell`), registered as `Val<Probe>`, held by a SCRIPT-level constant: the
/// constant lives in the module's memory (`ModuleData`, `unsafe impl Sync`) and
/// every read of it in generated code calls `Probe::clone(&self)` on that one
/// object from whichever thread is calling. `Value::Transformed: Send + Sync` /
/// `impl<T: … + Send + Sync> Value for Val<T>` must make rustc reject the
/// registration; if it builds it is run: 4 threads x 100 000 reads through shared
/// and cloned handles, the non-atomic counter shows the lost updates.
const PROBE_CELL_VALUE: &str = r#"
use roto::{FileTree, Runtime, Val, library};
use std::cell::Cell;
#[derive(PartialEq)]
struct Probe { reads: Cell<u64> }
impl Clone for Probe {
    fn clone(&self) -> Self {
        let n = self.reads.get() + 1;
        std::hint::spin_loop();
        self.reads.set(n);
        Probe { reads: Cell::new(n) }
    }
}
fn main() {
    let lib = library! {
        /// counts how often it was cloned (Send, not Sync)
        #[clone] type Probe = Val<Probe>;
        /// a fresh probe
        fn make_probe() -> Val<Probe> { Val(Probe { reads: Cell::new(0) }) }
        /// clones of the original made when this clone was made
        fn probe_reads(p: Val<Probe>) -> u64 { p.0.reads.get() }
    };
    let rt = Runtime::from_lib(lib).unwrap();
    let src = "const P: Probe = make_probe();\nfn main() -> u64 { probe_reads(P) }";
    let mut pkg = FileTree::test_file("p.roto", src, 0).compile(&rt).unwrap();
    let f = pkg.get_function::<fn() -> u64>("main").unwrap();
    let a = f.call();
    let b = f.call();
    println!("SINGLE {}", b - a);
    let before = f.call();
    let start = std::sync::Barrier::new(4);
    std::thread::scope(|s| {
        for t in 0..4 {
            let own = if t % 2 == 1 { Some(f.clone()) } else { None };
            let (f, start) = (&f, &start);
            s.spawn(move || {
                let h = own.as_ref().unwrap_or(f);
                start.wait();
                for _ in 0..100000 { std::hint::black_box(h.call()); }
            });
        }
    });
    let after = f.call();
    println!("FINAL {}", after - before - 1);
}
"#;

/// control of `cell_value_const`: the same program with an atomic counter
/// (`Send + Sync`) must build and count every read
fn probe_atomic_value() -> String {
    PROBE_CELL_VALUE
        .replace("use std::cell::Cell;", "use std::sync::atomic::{AtomicU64, Ordering};")
        .replace("#[derive(PartialEq)]\nstruct Probe { reads: Cell<u64> }", "struct Probe { reads: AtomicU64 }\nimpl PartialEq for Probe { fn eq(&self, o: &Self) -> bool { self.reads.load(Ordering::SeqCst) == o.reads.load(Ordering::SeqCst) } }")
        .replace("let n = self.reads.get() + 1;\n        std::hint::spin_loop();\n        self.reads.set(n);\n        Probe { reads: Cell::new(n) }", "let n = self.reads.fetch_add(1, Ordering::SeqCst) + 1;\n        Probe { reads: AtomicU64::new(n) }")
        .replace("Val(Probe { reads: Cell::new(0) })", "Val(Probe { reads: AtomicU64::new(0) })")
        .replace("p.0.reads.get()", "p.0.reads.load(Ordering::SeqCst)")
}

struct ProbeResult {
    built: bool,
    diagnostics: String,
    output: String,
}

fn target_dir() -> PathBuf {
    std::env::var("CARGO_TARGET_DIR")
        .map(PathBuf::from)
        .unwrap_or_else(|_| std::env::current_dir().unwrap().join("target"))
}

fn run_probe(repo: &Path, name: &str, src: &str) -> ProbeResult {
    let dir = target_dir().join("c12-probe");
    let _ = std::fs::create_dir_all(dir.join("src/bin"));
    let manifest = format!(
        "[package]\nname = \"c12-probe\"\nversion = \"0.1.0\"\nedition = \"2024\"\n\n[workspace]\n\n[dependencies]\nroto = {{ path = \"{}\", default-features = false, features = [\"verif-hooks\"] }}\n\n[profile.dev]\nopt-level = 1\ndebug = 1\n",
        repo.display()
    );
    let write_if_changed = |p: PathBuf, s: &str| {
        if std::fs::read_to_string(&p).map(|o| o != s).unwrap_or(true) {
            std::fs::write(p, s).expect("write probe file");
        }
    };
    write_if_changed(dir.join("Cargo.toml"), &manifest);
    if !dir.join("Cargo.lock").exists() {
        let _ = std::fs::copy(repo.join("Cargo.lock"), dir.join("Cargo.lock"));
    }
    write_if_changed(dir.join(format!("src/bin/{name}.rs")), src);
    let out = Command::new("cargo")
        .args(["build", "--offline", "--quiet", "--bin", name])
        .current_dir(&dir)
        .env("CARGO_TARGET_DIR", target_dir())
        .env("CARGO_NET_OFFLINE", "true")
        .output()
        .expect("cargo");
    let diagnostics = String::from_utf8_lossy(&out.stderr).to_string();
    let mut res = ProbeResult { built: out.status.success(), diagnostics, output: String::new() };
    if res.built {
        let exe = target_dir().join("debug").join(name);
        let mut child = Command::new(exe).stdout(std::process::Stdio::piped()).spawn().expect("probe run");
        let start = Instant::now();
        loop {
            match child.try_wait() {
                Ok(Some(_)) => break,
                Ok(None) if start.elapsed() > Duration::from_secs(120) => {
                    let _ = child.kill();
                    break;
                }
                _ => std::thread::sleep(Duration::from_millis(10)),
            }
        }
        if let Ok(o) = child.wait_with_output() {
            res.output = String::from_utf8_lossy(&o.stdout).to_string();
        }
    }
    res
}

fn final_count(out: &str) -> Option<u64> {
    out.lines().find_map(|l| l.strip_prefix("FINAL ")).and_then(|s| s.trim().parse().ok())
}

fn probes(repo: &Path, fn_bounds: Option<&str>, val_bounds: Option<&str>, rep: &mut Report) {
    // the model's verdict: is a Send-but-not-Sync closure admitted by every impl's bounds?
    let model_admits: Option<bool> = fn_bounds.map(|b| {
        let mut drv = Driver::spawn().expect("lean driver");
        b.split(';')
            .filter(|l| !l.trim().is_empty())
            .any(|l| drv.ask(&format!("c12 admits 1 0 {}", l.trim())) == "yes")
    });

    let cell = run_probe(repo, "cell_closure", PROBE_CELL);
    let sync_error = cell.diagnostics.contains("E0277") && cell.diagnostics.contains("cannot be shared between threads safely");
    rep.hist("rustc-probe", format!("cell_closure:{}", if cell.built { "accepted" } else if sync_error { "rejected-E0277-Sync" } else { "rejected-other" }));
    if cell.built {
        let n = final_count(&cell.output);
        rep.violation(
            "safe Rust shares non-Sync state through the API: a `move` closure capturing a Cell<u32> registers (RegisterableFn requires only Send + 'static) and is called from 4 threads through one shared handle",
            "registerable-fn-not-sync",
            json!({"kind": "probe", "program": "cell_closure", "rustc": "accepted", "increments": 400000, "final_count": n,
                   "lost_updates": n.map(|n| 400000i64 - n as i64)}),
        );
    } else if !sync_error {
        rep.mismatch("rustc probe cell_closure failed for another reason than the Sync bound", json!({"diagnostics": cell.diagnostics.chars().take(1500).collect::<String>()}));
    }
    if let Some(m) = model_admits {
        if m != cell.built && (cell.built || sync_error) {
            rep.mismatch(
                "Bounds.admits on the generated bound lists disagrees with rustc about a Send + !Sync closure",
                json!({"model_admits": m, "rustc_accepts": cell.built, "fn_bounds": fn_bounds}),
            );
        }
    }
    rep.evaluations += 1;
    rep.class(format!("probe cell_closure built={}", cell.built));

    // a Send + !Sync host value in a script-level constant
    let val_admits: Option<bool> = val_bounds.map(|b| {
        let mut drv = Driver::spawn().expect("lean driver");
        b.split(';').filter(|l| !l.trim().is_empty()).all(|l| drv.ask(&format!("c12 admits 1 0 {}", l.trim())) == "yes")
    });
    let cv = run_probe(repo, "cell_value_const", PROBE_CELL_VALUE);
    let cv_sync_error = cv.diagnostics.contains("E0277") && cv.diagnostics.contains("cannot be shared between threads safely");
    rep.hist("rustc-probe", format!("cell_value_const:{}", if cv.built { "accepted" } else if cv_sync_error { "rejected-E0277-Sync" } else { "rejected-other" }));
    if cv.built {
        let n = final_count(&cv.output);
        rep.violation(
            "safe Rust shares non-Sync state through the API: Val<T> with T: Send + !Sync (a Cell inside) is accepted as a roto value; a script-level constant of that type lives in the module shared by all handles and is cloned through &T by every calling thread (4 threads x 100000 reads through shared and cloned handles)",
            "host-value-not-sync",
            json!({"kind": "probe", "program": "cell_value_const", "rustc": "accepted", "reads": 400000, "counted_reads": n,
                   "lost_updates": n.map(|n| 400000i64 - n as i64), "output": cv.output.chars().take(200).collect::<String>()}),
        );
    } else if !cv_sync_error {
        rep.mismatch("rustc probe cell_value_const failed for another reason than the Sync bound", json!({"diagnostics": cv.diagnostics[cv.diagnostics.find("error").unwrap_or(0)..].chars().take(1500).collect::<String>()}));
    }
    if let Some(m) = val_admits {
        if m != cv.built && (cv.built || cv_sync_error) {
            rep.mismatch(
                "Bounds.admits on the generated bound lists of Value::Transformed / Val<T> disagrees with rustc about a Send + !Sync host value",
                json!({"model_admits": m, "rustc_accepts": cv.built, "val_bounds": val_bounds}),
            );
        }
    }
    rep.evaluations += 1;
    rep.class(format!("probe cell_value_const built={}", cv.built));
    let av = run_probe(repo, "atomic_value_const", &probe_atomic_value());
    rep.hist("rustc-probe", format!("atomic_value_const:{}", if av.built { "accepted" } else { "rejected" }));
    if !av.built {
        rep.mismatch("control probe atomic_value_const (a Send + Sync host value in a script constant) does not build", json!({"diagnostics": av.diagnostics[av.diagnostics.find("error").unwrap_or(0)..].chars().take(1500).collect::<String>()}));
    } else if final_count(&av.output) != Some(400000) {
        rep.violation(
            "4 x 100000 reads of a script-level constant holding a Send + Sync host value through shared and cloned handles were not all counted by its atomic clone counter",
            "atomic-value-const-count-differs",
            json!({"kind": "probe", "program": "atomic_value_const", "counted_reads": final_count(&av.output), "output": av.output.chars().take(200).collect::<String>()}),
        );
    }
    rep.evaluations += 1;
    rep.class(format!("probe atomic_value_const built={}", av.built));

    let rc = run_probe(repo, "rc_constant", PROBE_RC);
    let rc_error = rc.diagnostics.contains("E0277");
    rep.hist("rustc-probe", format!("rc_constant:{}", if rc.built { "accepted" } else if rc_error { "rejected-E0277" } else { "rejected-other" }));
    if rc.built {
        rep.violation(
            "safe Rust registers a constant holding an Rc (neither Send nor Sync); every handle's module keeps it and clones it from any thread",
            "constant-not-send-sync",
            json!({"kind": "probe", "program": "rc_constant", "rustc": "accepted"}),
        );
    } else if !rc_error {
        rep.mismatch("rustc probe rc_constant failed for another reason than a trait bound", json!({"diagnostics": rc.diagnostics.chars().take(1500).collect::<String>()}));
    }
    rep.evaluations += 1;
    rep.class(format!("probe rc_constant built={}", rc.built));

    let at = run_probe(repo, "atomic_closure", PROBE_ATOMIC);
    rep.hist("rustc-probe", format!("atomic_closure:{}", if at.built { "accepted" } else { "rejected" }));
    if !at.built {
        rep.mismatch("control probe atomic_closure (Send + Sync captured state) does not build", json!({"diagnostics": at.diagnostics.chars().take(1500).collect::<String>()}));
    } else if final_count(&at.output) != Some(400000) {
        rep.violation(
            "4 x 100000 calls of a registered closure with atomic state through a shared handle did not count exactly",
            "atomic-closure-count-differs",
            json!({"kind": "probe", "program": "atomic_closure", "final_count": final_count(&at.output), "output": at.output}),
        );
    }
    rep.evaluations += 1;
    rep.class(format!("probe atomic_closure built={}", at.built));
    // sum of x*x for x < 1000
    const INTO_FUNC_SUM: u64 = 332_833_500;
    let inf = run_probe(repo, "into_func_send", PROBE_INTO_FUNC_SEND);
    rep.hist("rustc-probe", format!("into_func_send:{}", if inf.built { "accepted" } else { "rejected" }));
    let not_send = inf.diagnostics.contains("E0277")
        && (inf.diagnostics.contains("cannot be sent between threads safely") || inf.diagnostics.contains("cannot be shared between threads safely"));
    if !inf.built && !not_send {
        // the probe did not build for another reason than an auto-trait error: that says nothing about the property
        rep.mismatch(
            "rustc probe into_func_send failed to build for another reason than a Send / Sync error",
            json!({"diagnostics": inf.diagnostics[inf.diagnostics.find("error").unwrap_or(0)..].chars().take(1500).collect::<String>()}),
        );
    } else if !inf.built {
        rep.violation(
            "the closure returned by TypedFunc::into_func can no longer be moved to another thread (it stopped being Send: it no longer owns the handle, whose Send/Sync impls made it so)",
            "into-func-closure-not-send",
            json!({"kind": "probe", "program": "into_func_send",
                "diagnostics": inf.diagnostics[inf.diagnostics.find("error").unwrap_or(0)..].chars().take(1500).collect::<String>()}),
        );
    } else if final_count(&inf.output) != Some(INTO_FUNC_SUM) {
        rep.violation(
            "an into_func closure moved to another thread and called there after the package and the runtime were dropped died or returned wrong results",
            "into-func-closure-dangles",
            json!({"kind": "probe", "program": "into_func_send", "final": final_count(&inf.output), "expected": INTO_FUNC_SUM, "output": inf.output.chars().take(300).collect::<String>()}),
        );
    }
    rep.evaluations += 1;
    rep.class(format!("probe into_func_send built={}", inf.built));

    rep.sample(json!({"probe": {"into_func_send": {"built": inf.built, "output": inf.output.trim()}, "cell_closure": {"built": cell.built, "rejected_for_sync": sync_error, "output": cell.output.trim()},
        "cell_value_const": {"built": cv.built, "rejected_for_sync": cv_sync_error, "output": cv.output.trim()},
        "atomic_value_const": {"built": av.built, "output": av.output.trim()},
        "rc_constant": {"built": rc.built}, "atomic_closure": {"built": at.built, "output": at.output.trim()}},
        "model_admits_send_not_sync_closure": model_admits, "model_admits_send_not_sync_value": val_admits}));
}

// ------------------------------------------------------------ entry points

fn report_json(rep: &Report) -> Value {
    json!({
        "evaluations": rep.evaluations,
        "distinct_nontrivial": rep.classes.len(),
        "classes": rep.classes,
        "impl_violations": rep.impl_violations,
        "model_mismatches": rep.model_mismatches,
        "samples": rep.samples,
        "histograms": rep.histograms,
        "notes": rep.notes,
    })
}

fn arg_after<'a>(a: &'a [String], key: &str) -> Option<&'a str> {
    a.iter().position(|x| x == key).and_then(|i| a.get(i + 1)).map(|s| s.as_str())
}

fn on_crash(rep: &mut Report, seed: u64, tiername: &str, index: u64, ended: &Ended) {
    let how = match ended {
        Ended::Signal(s, _) => format!("signal {s}"),
        Ended::Exit(c, _) => format!("exit {c}"),
        Ended::Timeout => "timeout".to_string(),
    };
    if matches!(ended, Ended::Exit(66, _)) {
        // TSAN_OPTIONS=exitcode=66 halt_on_error=1 (thorough tier, sanitizer build)
        rep.violation(
            "ThreadSanitizer reported a data race in the Rust side of concurrent calls / compilations / drops",
            "tsan-data-race",
            json!({"kind": "stress", "seed": seed, "index": index, "tier": tiername, "ended": how,
                   "reports": std::env::var("TSAN_OPTIONS").unwrap_or_default()}),
        );
        return;
    }
    let panic_note: Vec<String> = rep.notes.iter().filter(|n| n.starts_with("worker panicked")).cloned().collect();
    // The Lean driver is a separate process; when IT dies (killed from outside, out of memory) the
    // harness panics in `Driver::ask`. That says nothing about roto: re-run the case once in a fresh
    // worker with a fresh driver and judge that run instead.
    let driver_died = !panic_note.is_empty()
        && panic_note.iter().all(|n| n.contains("Lean driver closed its output") || n.contains("driver stdin") || n.contains("driver stdout") || n.contains("driver flush") || n.contains("a scoped thread panicked"))
        && panic_note.iter().any(|n| n.contains("driver"));
    if driver_died && std::env::var("C12_NO_RERUN").is_err() {
        let (seed_s, idx_s) = (seed.to_string(), index.to_string());
        let (ended2, out) = worker::run_worker_keep_stdout(&["stress", &seed_s, tiername, &idx_s, "1"], Duration::from_secs(900));
        rep.notes.retain(|n| !n.starts_with("worker panicked"));
        rep.notes.push(format!("stress case {index}: the Lean driver process died ({}); the case was run again with a fresh driver", panic_note.join(" | ")));
        if let Some(r) = Report::parse_stdout(&out) {
            rep.merge_json(&r);
        }
        if matches!(ended2, Ended::Exit(0, _)) {
            return;
        }
        return on_crash_final(rep, seed, tiername, index, &ended2);
    }
    on_crash_final(rep, seed, tiername, index, ended)
}

fn on_crash_final(rep: &mut Report, seed: u64, tiername: &str, index: u64, ended: &Ended) {
    let how = match ended {
        Ended::Signal(s, _) => format!("signal {s}"),
        Ended::Exit(c, _) => format!("exit {c}"),
        Ended::Timeout => "timeout".to_string(),
    };
    let panic_note: Vec<&String> = rep.notes.iter().filter(|n| n.starts_with("worker panicked")).collect();
    rep.violation(
        "a process running concurrent calls / compilations / drops died or hung",
        "crash-or-hang-under-concurrency",
        json!({"kind": "stress", "seed": seed, "index": index, "tier": tiername, "ended": how, "panic": panic_note}),
    );
}

fn main() {
    let a: Vec<String> = std::env::args().collect();
    match a.get(1).map(|s| s.as_str()) {
        Some("dump") => {
            let rt = make_runtime(Arc::new(AtomicU64::new(0)));
            let t = FileTree::test_file("c12.roto", &a[2], 0);
            match roto::verif_hooks::c12::lir_dump_kinds(t, &rt) {
                Ok((d, k)) => {
                    print!("{d}");
                    let mut ks: Vec<&str> = k.lines().collect();
                    ks.sort();
                    ks.dedup();
                    println!("KINDS {}", ks.join(" "));
                    let mut drv = Driver::spawn().expect("lean driver");
                    println!("DRIVER {}", drv.ask(&format!("c12 check {} {}", hex(&d), hex(&k))));
                }
                Err(e) => println!("ERROR {e}"),
            }
            if a.get(3).is_some() {
                let t = FileTree::test_file("c12.roto", &a[2], 0);
                println!("{}", roto::verif_hooks::c12::lir_text(t, &rt).unwrap_or_default());
            }
        }
        Some("gen") => {
            let seed: u64 = a[2].parse().unwrap();
            let index: u64 = a[3].parse().unwrap();
            let s = gen_script(&mut Prng::for_case(seed, index));
            println!("// {} {}\n{}", s.family, s.flags, s.src);
        }
        Some("worker") if a.get(2).map(|s| s.as_str()) == Some("share") => {
            // worker share <class> <seed> <index> <tier> <attempt>
            share::worker_main(&a);
        }
        Some("worker") => {
            // worker stress <seed> <tier> <from> <n>
            let seed: u64 = a[3].parse().unwrap();
            let tiername = a[4].clone();
            let from: u64 = a[5].parse().unwrap();
            let n: u64 = a[6].parse().unwrap();
            let mut rep = Report::default();
            // a panic in any thread (harness or roto) is reported with its message and place:
            // the hook re-emits the last cumulative report with a note (stderr of workers is not kept)
            std::panic::set_hook(Box::new(|info| {
                let mut v: Value = LAST_REPORT
                    .lock()
                    .ok()
                    .and_then(|s| serde_json::from_str(&s).ok())
                    .unwrap_or_else(|| json!({}));
                let note = format!(
                    "worker panicked in thread {:?}: {}",
                    std::thread::current().name().unwrap_or("?"),
                    info.to_string().replace('\n', " ")
                );
                match v.get_mut("notes").and_then(|n| n.as_array_mut()) {
                    Some(a) => a.push(json!(note)),
                    None => v["notes"] = json!([note]),
                }
                println!("HARNESS-REPORT {v}");
                let _ = std::io::stdout().flush();
                if let Ok(mut s) = LAST_REPORT.lock() {
                    *s = v.to_string();
                }
            }));
            let mut drv = Driver::spawn().expect("lean driver");
            for index in from..from + n {
                println!("START {index}");
                let _ = std::io::stdout().flush();
                stress_case(seed, index, &tiername, &mut drv, &mut rep);
                // cumulative report after every case: a crash in a later
                // case must not lose what was found before it
                rep.emit();
                if let Ok(mut s) = LAST_REPORT.lock() {
                    *s = report_json(&rep).to_string();
                }
                let _ = std::io::stdout().flush();
            }
            rep.emit();
        }
        Some("run") => {
            let seed: u64 = a[2].parse().unwrap();
            let tiername = a[3].clone();
            let repo = arg_after(&a, "--repo")
                .map(PathBuf::from)
                .or_else(|| std::env::var("ROTO_REPO").ok().map(PathBuf::from))
                .unwrap_or_else(|| PathBuf::from("/repo"));
            let mut rep = Report::default();
            // state shared between threads through the safe API: lists, registered
            // closures / constants, into_func closures (one worker process per case)
            let focus = share::parse_focus(arg_after(&a, "--focus"));
            kind_representatives(&mut rep);
            share::run_pass(seed, &tiername, &focus, 0, 0, &mut rep, &mut vec![], None);
            probes(&repo, arg_after(&a, "--fn-bounds"), arg_after(&a, "--val-bounds"), &mut rep);
            let t = tier(&tiername);
            let seed_s = seed.to_string();
            worker::run_batches(
                &["stress", &seed_s, &tiername],
                t.cases,
                t.batch,
                Duration::from_secs(600),
                &mut rep,
                |rep, idx, ended| on_crash(rep, seed, &tiername, idx, ended),
            );
            rep.emit();
        }
        Some("share") => {
            // share <seed> <tier> [--focus c1,c2] [--budget-s N]: the share classes only, new
            // indices and escalating attempts until a violation is found or the budget is used
            let seed: u64 = a[2].parse().unwrap();
            let tiername = a[3].clone();
            let focus = share::parse_focus(arg_after(&a, "--focus"));
            let budget = arg_after(&a, "--budget-s").and_then(|s| s.parse().ok()).unwrap_or(90u64);
            let mut rep = Report::default();
            share::search(seed, &tiername, &focus, Duration::from_secs(budget), &mut rep);
            rep.emit();
        }
        Some("stress") => {
            // stress <seed> <tier> [cases]: the stress batches only (used with the sanitizer build)
            let seed: u64 = a[2].parse().unwrap();
            let tiername = a[3].clone();
            let mut rep = Report::default();
            let t = tier(&tiername);
            let cases = a.get(4).and_then(|s| s.parse().ok()).unwrap_or(t.cases);
            let seed_s = seed.to_string();
            worker::run_batches(
                &["stress", &seed_s, &tiername],
                cases,
                t.batch,
                Duration::from_secs(900),
                &mut rep,
                |rep, idx, ended| on_crash(rep, seed, &tiername, idx, ended),
            );
            rep.hist("sanitizer-run", if std::env::var("TSAN_OPTIONS").is_ok() { "thread-sanitizer" } else { "plain" });
            rep.emit();
        }
        Some("replay") => {
            let v: Value = serde_json::from_str(&a[2]).expect("json");
            let case = if v.get("case").is_some() { v["case"].clone() } else { v.clone() };
            let mut rep = Report::default();
            if case["kind"] == "probe" {
                let repo = std::env::var("ROTO_REPO").map(PathBuf::from).unwrap_or_else(|_| PathBuf::from("/repo"));
                probes(&repo, None, None, &mut rep);
            } else if case["kind"] == "share" {
                share::replay(&case, &mut rep);
            } else {
                let seed = case["seed"].as_u64().unwrap_or(1);
                let index = case["index"].as_u64().unwrap_or(0);
                let tiername = case["tier"].as_str().unwrap_or("quick").to_string();
                let (seed_s, idx_s) = (seed.to_string(), index.to_string());
                let (ended, out) = worker::run_worker_keep_stdout(
                    &["stress", &seed_s, &tiername, &idx_s, "1"],
                    Duration::from_secs(600),
                );
                if let Some(r) = Report::parse_stdout(&out) {
                    rep.merge_json(&r);
                }
                if !matches!(ended, Ended::Exit(0, _)) {
                    on_crash(&mut rep, seed, &tiername, index, &ended);
                }
            }
            rep.emit();
        }
        _ => {
            eprintln!("usage: c12 run <seed> <tier> [--repo p] [--fn-bounds b] [--focus c1,c2] | share <seed> <tier> [--focus c1,c2] [--budget-s N] | replay <json> | dump <src> | gen <seed> <index>");
            std::process::exit(64);
        }
    }
}
