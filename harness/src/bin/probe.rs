//! probe: compile a script given on the command line (or stdin with `-`) with
//! the default runtime and print what happened. Handy while building checks.
//! usage: probe '<source>' [call]   — `call` runs `main()` if it is `fn() -> i64/bool/String`
use roto::{FileTree, Runtime};
use std::io::Read;

fn main() {
    let mut src = std::env::args().nth(1).expect("source");
    if src == "-" {
        src.clear();
        std::io::stdin().read_to_string(&mut src).unwrap();
    }
    let rt = Runtime::new();
    match FileTree::test_file("probe.roto", &src, 0).compile(&rt) {
        Ok(mut pkg) => {
            println!("COMPILED");
            if std::env::args().nth(2).is_some() {
                if let Ok(f) = pkg.get_function::<fn() -> i64>("main") {
                    println!("main() = {}", f.call());
                } else if let Ok(f) = pkg.get_function::<fn() -> bool>("main") {
                    println!("main() = {}", f.call());
                } else if let Ok(f) = pkg.get_function::<fn() -> roto::RotoString>("main") {
                    println!("main() = {:?}", f.call());
                } else {
                    println!("main has another signature");
                }
            }
        }
        Err(e) => println!("ERROR\n{e}"),
    }
}
