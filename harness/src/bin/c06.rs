//! C06 — compilation is total: every input yields a package or a report.
//!
//! The property's own oracle: a crash-isolated worker compiles each input with
//! the default runtime (stage by stage, so a crash can be attributed), renders
//! the report with and without colour, checks every cited location (hook
//! `report_locations`) and diffs the token stream (hook `lex_all`) against the
//! Lean lexer model. Panic / signal / abort / stack overflow / timeout are
//! violations of the property on the real code, keyed by crash site.
//!
//! Every single-file input is also parsed by the real parser (hook
//! `parse_probe`) and by the Lean model of the parser (`c06 parse`), and the two
//! one-line results (tree shape or error kind + span, and the whole span table)
//! are compared: see `../c06/parse_diff.rs`.
//!
//! usage: c06 run <seed> <quick|thorough> [--parse-strict] [--cases N] [--focus typeerrors]
//!        c06 replay <json input>
//!        c06 parse-replay <json string: the source text>
//!        c06 worker gen <seed> <from> <n> | c06 worker corpus <from> <n> | c06 worker boundary <from> <n>
//!                 | c06 worker parsereps <from> <n> | c06 worker one <json>
//!
//! `C06_PARSE_STRICT=1` (or `--parse-strict`): a driver without a parser model
//! (`bad-op`) is a model mismatch instead of being counted only.

#[path = "../c06/generate.rs"]
mod generate;
use generate as g;
#[path = "../c06/parse_diff.rs"]
mod parse_diff;

use generate::{Case, CaseFile};
use roto::verif_hooks::c06::{char_flags, lex_all, report_locations, report_stage};
use roto::{Context, FileSpec, FileTree, Runtime, SourceFile};
use rotov_harness::driver::{Driver, hex};
use rotov_harness::{Prng, Report};
use serde_json::{Value, json};
use std::cell::RefCell;
use std::io::Write as _;
use std::panic::{AssertUnwindSafe, catch_unwind};
use std::process::{Command, Stdio};
use std::sync::atomic::{AtomicU64, Ordering};
use std::sync::{Arc, Mutex};
use std::time::{Duration, Instant};

const CASE_TIMEOUT: Duration = Duration::from_secs(5);
const EXIT_TIMEOUT: i32 = 97;

thread_local! {
    static LAST_PANIC: RefCell<Option<(String, String)>> = const { RefCell::new(None) };
}
/// milliseconds since worker start at which the current case began (0 = idle)
static CASE_STARTED: AtomicU64 = AtomicU64::new(0);

/// `src/typechecker/expr.rs:673` for the crate under test,
/// `<crate dir>/src/…:line` for dependencies.
fn site(file: &str, line: u32) -> String {
    let repo = std::env::var("ROTO_REPO").unwrap_or_else(|_| "/repo".into());
    let repo = std::fs::canonicalize(&repo)
        .map(|p| p.to_string_lossy().to_string())
        .unwrap_or(repo);
    let rel = if let Some(r) = file.strip_prefix(&format!("{repo}/")) {
        r.to_string()
    } else if let Some(i) = file.rfind("/src/") {
        let krate = file[..i].rsplit('/').next().unwrap_or("?");
        format!("{krate}{}", &file[i..])
    } else {
        file.to_string()
    };
    format!("{rel}:{line}")
}

fn install_panic_hook() {
    std::panic::set_hook(Box::new(|info| {
        let loc = info
            .location()
            .map(|l| site(l.file(), l.line()))
            .unwrap_or_else(|| "unknown".into());
        let msg = if let Some(s) = info.payload().downcast_ref::<String>() {
            s.clone()
        } else if let Some(s) = info.payload().downcast_ref::<&str>() {
            s.to_string()
        } else {
            "panic".to_string()
        };
        LAST_PANIC.with(|p| *p.borrow_mut() = Some((loc, msg)));
    }));
}

fn take_panic() -> (String, String) {
    LAST_PANIC
        .with(|p| p.borrow_mut().take())
        .unwrap_or_else(|| ("unknown".into(), "panic".into()))
}

/// The context of the second runtime: cases whose kind ends in `[ctx]` are
/// compiled with it (context variables `cx`, `flag` are in scope of every
/// script; constants must not depend on them).
#[derive(Clone, Context)]
struct C06Ctx {
    pub cx: u64,
    pub flag: bool,
}
type CxRuntime = Runtime<roto::Ctx<C06Ctx>>;

fn cx_runtime() -> CxRuntime {
    Runtime::new().with_context_type::<C06Ctx>().expect("runtime with a context type")
}

/// `SourceFile::location_offset` (the line the text starts at inside a host file: reports display line numbers
/// shifted by it and name the file `name@offset`) of every file of the case: a kind containing `[line+N]` asks for N.
fn line_offset(case: &Case) -> usize {
    case.kind
        .split_once("[line+")
        .and_then(|(_, r)| r.split_once(']'))
        .and_then(|(n, _)| n.parse().ok())
        .unwrap_or(0)
}

fn build_tree(case: &Case) -> FileTree {
    let off = line_offset(case);
    fn sf(f: &CaseFile, off: usize) -> SourceFile {
        SourceFile {
            name: f.name.clone(),
            module_name: f.module.clone(),
            contents: f.src.clone(),
            location_offset: off,
            children: Vec::new(),
        }
    }
    if case.files.len() == 1 {
        return FileTree::test_file(&case.files[0].name, &case.files[0].src, off);
    }
    fn spec(case: &Case, i: usize, off: usize) -> FileSpec {
        let kids: Vec<usize> = (0..case.files.len())
            .filter(|&j| case.files[j].parent == Some(i))
            .collect();
        if kids.is_empty() && i != 0 {
            FileSpec::File(sf(&case.files[i], off))
        } else {
            FileSpec::Directory(sf(&case.files[i], off), kids.into_iter().map(|k| spec(case, k, off)).collect())
        }
    }
    FileTree::file_spec(spec(case, 0, off))
}

fn stage(name: &str) {
    println!("STAGE {name}");
    let _ = std::io::stdout().flush();
}

/// Compile one case stage by stage; returns the outcome bucket.
fn run_case(rts: &(Runtime<roto::NoCtx>, CxRuntime), case: &Case, mut drv: Option<&mut Driver>, rep: &mut Report, idx: u64) {
    let rt = &rts.0;
    let with_ctx = case.kind.ends_with("[ctx]");
    rep.evaluations += 1;
    let input = case.to_json();
    rep.hist("generator", case.kind.clone());
    rep.hist("files", case.files.len().to_string());
    let total: usize = case.files.iter().map(|f| f.src.len()).sum();
    rep.hist("input-bytes", format!("{:>5}", (total / 100) * 100));
    rep.hist(
        "non-ascii",
        if case.files.iter().any(|f| !f.src.is_ascii()) { "yes" } else { "no" },
    );

    // ---- token stream: real lexer vs Lean model
    stage("lex");
    let mut lex_ok = true;
    for f in &case.files {
        let toks = catch_unwind(AssertUnwindSafe(|| lex_all(&f.src)));
        match toks {
            Err(_) => {
                let (loc, msg) = take_panic();
                viol(rep, 
                    &format!("the lexer panicked: {msg}"),
                    &format!("panic {loc}"),
                    input.clone(),
                );
                lex_ok = false;
            }
            Ok(toks) => {
                for (k, s, e) in &toks {
                    if k == "FStringNone" {
                        continue;
                    }
                    let ok = s <= e
                        && *e <= f.src.len()
                        && f.src.is_char_boundary(*s)
                        && f.src.is_char_boundary(*e);
                    if !ok {
                        viol(rep, 
                            &format!("token span {s}..{e} of `{k}` is not inside the file on character boundaries"),
                            &format!("token-span {}", if k == "Invalid" { "Invalid" } else { "token" }),
                            input.clone(),
                        );
                        lex_ok = false;
                        break;
                    }
                }
                rep.hist("tokens", format!("{:>4}", (toks.len() / 20) * 20));
                rep.class(format!("tok:{}", toks.iter().map(|t| short_kind(&t.0)).collect::<String>()).chars().take(64).collect::<String>());
                LEXED.with(|l| l.borrow_mut().push((f.src.clone(), toks)));
            }
        }
    }
    // the token stream of a single-file input, for the parser differential
    let parse_toks: Option<Vec<parse_diff::Tok>> = if case.files.len() == 1 {
        LEXED.with(|l| l.borrow().first().map(|x| x.1.clone()))
    } else {
        None
    };
    if let Some(drv) = drv.as_deref_mut() {
        let lexed: Vec<(String, Vec<(String, usize, usize)>)> = LEXED.with(|l| std::mem::take(&mut *l.borrow_mut()));
        for (src, toks) in lexed {
            let real = toks
                .iter()
                .map(|(k, s, e)| format!("{k},{s},{e}"))
                .collect::<Vec<_>>()
                .join(";");
            let mut cps: Vec<char> = src.chars().collect();
            cps.sort();
            cps.dedup();
            let table = cps
                .iter()
                .filter(|c| char_flags(**c) != 0)
                .map(|c| format!("{:x}:{}", *c as u32, char_flags(*c)))
                .collect::<Vec<_>>()
                .join(",");
            let h = if src.is_empty() { "-".to_string() } else { hex(&src) };
            let t = if table.is_empty() { "-".to_string() } else { table };
            let ans = drv.ask(&format!("c06 lex {h} {t}"));
            let want = format!("done {real}");
            if ans.trim_end() != want.trim_end() {
                rep.mismatch(
                    "Lean lexer model and the real lexer disagree on the token stream",
                    json!({"input": input, "lean": ans, "real": want, "index": idx}),
                );
            }
        }
    } else {
        LEXED.with(|l| l.borrow_mut().clear());
    }
    let _ = lex_ok;

    // ---- compile, stage by stage
    let tree = build_tree(case);
    let mut cur = "parse";
    stage(cur);
    // the stages are typed by the runtime's context: one expansion per runtime
    macro_rules! stages {
        ($rt:expr) => {
            catch_unwind(AssertUnwindSafe(|| -> Result<(), roto::RotoReport> {
                let parsed = tree.parse()?;
                cur = "typecheck";
                stage(cur);
                let checked = parsed.typecheck($rt)?;
                cur = "lower-mir";
                stage(cur);
                let mir = checked.lower_to_mir();
                cur = "lower-lir";
                stage(cur);
                let lir = mir.lower_to_lir();
                cur = "codegen";
                stage(cur);
                let pkg = lir.codegen();
                drop(pkg);
                Ok(())
            }))
        };
    }
    let res = if with_ctx { stages!(&rts.1) } else { stages!(rt) };
    let outcome = match res {
        Err(_) => {
            let (loc, msg) = take_panic();
            viol(rep, 
                &format!("compiler panicked in stage {cur}: {}", msg.chars().take(160).collect::<String>()),
                &format!("panic {loc}"),
                input.clone(),
            );
            format!("PANIC in {cur}")
        }
        Ok(Ok(())) => "accepted".to_string(),
        Ok(Err(report)) => {
            let st = report_stage(&report);
            stage("render");
            // cited locations
            for (what, file, s, e) in report_locations(&report) {
                let ok = file < report.files.len() && {
                    let text = &report.files[file].contents;
                    s <= e && e <= text.len() && text.is_char_boundary(s) && text.is_char_boundary(e)
                };
                if !ok {
                    viol(rep, 
                        &format!("the report cites {what} location file#{file} {s}..{e}, which is not inside that file on character boundaries"),
                        &format!("location {what}"),
                        input.clone(),
                    );
                }
            }
            for color in [true, false] {
                let r = catch_unwind(AssertUnwindSafe(|| {
                    let mut s = String::new();
                    report.write(&mut s, color).map(|_| s)
                }));
                match r {
                    Err(_) => {
                        let (loc, msg) = take_panic();
                        viol(rep, 
                            &format!("rendering the {st} report (colour={color}) panicked: {}", msg.chars().take(160).collect::<String>()),
                            &format!("panic {loc}"),
                            input.clone(),
                        );
                    }
                    Ok(Err(_)) => viol(rep, 
                        "rendering the report returned fmt::Error",
                        "render fmt-error",
                        input.clone(),
                    ),
                    Ok(Ok(text)) => {
                        if text.is_empty() {
                            viol(rep, "the report renders to nothing", "render empty", input.clone());
                        }
                        if !color && text.contains('\u{1b}') {
                            viol(rep, 
                                "the report rendered without colour contains escape sequences",
                                "render colour-leak",
                                input.clone(),
                            );
                        }
                        if !color && st == "typechecker" {
                            // which kind of type error: the description with every quoted name / type / number blanked
                            rep.hist("type-error", error_kind(&text));
                        }
                        if color && idx % 997 == 0 {
                            rep.sample(json!({"input": case.preview(), "stage": st, "report_head": text.lines().next()}));
                        }
                    }
                }
            }
            format!("rejected by {st}")
        }
    };
    rep.hist("outcome", outcome.clone());
    rep.hist(&format!("outcome/{}", case.kind), outcome.clone());
    rep.class(format!("{}|{}", case.kind, outcome));
    if let Some(expect) = &case.expect_cycle {
        // type-declaration cases: the model of the cycle check predicted this
        rep.hist("cycle-check", format!("model={} real={}", expect, outcome));
    }

    // ---- parser: real parser vs Lean model (single files only; last, so that
    // a crash of the compiler is attributed to its own stage above)
    if case.files.len() == 1 {
        parse_diff::run_one(&case.files[0].src, parse_toks.as_deref(), drv.as_deref_mut(), rep, &input, idx);
    }
}

thread_local! {
    static LEXED: RefCell<Vec<(String, Vec<(String, usize, usize)>)>> = const { RefCell::new(Vec::new()) };
}

/// first line of a rendered report without what it quotes: `Error: Type error: the variant `X` does not exist on `T``
/// → `the variant _ does not exist on _`
fn error_kind(text: &str) -> String {
    let line = text.lines().next().unwrap_or("");
    let line = line.rsplit("Type error: ").next().unwrap_or(line);
    let mut out = String::new();
    let mut quoted = false;
    for c in line.chars() {
        if c == '`' {
            if !quoted {
                out.push('_');
            }
            quoted = !quoted;
        } else if !quoted {
            out.push(if c.is_ascii_digit() { '#' } else { c });
        }
    }
    out.chars().take(80).collect()
}

fn short_kind(k: &str) -> char {
    match k {
        "Ident" => 'i',
        "String" => 's',
        "Char" => 'c',
        "Hex" => 'x',
        "Asn" => 'A',
        "IpV4" => '4',
        "IpV6" => '6',
        "Invalid" => '!',
        "FStringStart" => 'f',
        "FStringMid" => 'm',
        "FStringEnd" => 'e',
        "FStringNone" => 'n',
        k if k.starts_with("Keyword") => 'k',
        k if k.starts_with("Integer") => '1',
        k if k.starts_with("Float") => '.',
        k if k.starts_with("Bool") => 'b',
        _ => 'p',
    }
}

// -------------------------------------------------------------- cycle check

/// Type-declaration cases: ask the Lean model of `detect_type_cycles`
/// (repaired version) for its verdict and compare with the compiler's.
fn cycle_case(rt: &Runtime<roto::NoCtx>, drv: &mut Driver, p: &mut Prng, rep: &mut Report, idx: u64) {
    let (src, defs, order) = g::type_decls(p);
    let model = drv.ask(&format!("c06 cycle fixed {defs} {order}"));
    let tree = FileTree::test_file("c06.roto", &src, 0);
    stage("typecheck");
    let res = catch_unwind(AssertUnwindSafe(|| tree.parse()?.typecheck(rt).map(|_| ())));
    let real = match &res {
        Err(_) => {
            let _ = take_panic();
            "panic".to_string()
        }
        Ok(Ok(())) => "ok".to_string(),
        Ok(Err(r)) => {
            let mut s = String::new();
            let _ = r.write(&mut s, false);
            if s.contains("cycle detected") { "err".to_string() } else { format!("other: {}", s.lines().next().unwrap_or("")) }
        }
    };
    rep.hist("cycle-model-vs-real", format!("model={model} real={}", real.split(':').next().unwrap_or("")));
    if real == "ok" || real == "err" {
        rep.class(format!("cycle|{defs}"));
        if model != real {
            rep.mismatch(
                "Lean model of detect_type_cycles and the type checker disagree",
                json!({"src": src, "defs": defs, "order": order, "lean": model, "real": real, "index": idx}),
            );
        }
    }
}

// ------------------------------------------------------------------ workers

fn start_watchdog(t0: Instant) {
    std::thread::spawn(move || {
        loop {
            std::thread::sleep(Duration::from_millis(50));
            let s = CASE_STARTED.load(Ordering::SeqCst);
            if s != 0 && t0.elapsed().as_millis() as u64 > s + CASE_TIMEOUT.as_millis() as u64 {
                println!("TIMEOUT");
                let _ = std::io::stdout().flush();
                unsafe { libc::_exit(EXIT_TIMEOUT) };
            }
        }
    });
}

fn worker(args: &[String]) {
    install_panic_hook();
    let t0 = Instant::now();
    start_watchdog(t0);
    let rts = (Runtime::new(), cx_runtime());
    let rt = &rts.0;
    let mut rep = Report::default();
    let mut drv = Driver::spawn().ok();
    let seeds = g::Seeds::load();
    let mark = |on: bool| {
        CASE_STARTED.store(if on { t0.elapsed().as_millis() as u64 + 1 } else { 0 }, Ordering::SeqCst)
    };
    match args[0].as_str() {
        "gen" => {
            let seed: u64 = args[1].parse().unwrap();
            let from: u64 = args[2].parse().unwrap();
            let n: u64 = args[3].parse().unwrap();
            for idx in from..from + n {
                println!("START {idx}");
                let _ = std::io::stdout().flush();
                let mut p = Prng::for_case(seed, idx);
                mark(true);
                if idx % 25 == 24 {
                    if let Some(d) = drv.as_mut() {
                        cycle_case(rt, d, &mut p, &mut rep, idx);
                        rep.evaluations += 1;
                    }
                } else {
                    let case = g::generate(&mut p, &seeds);
                    run_case(&rts, &case, drv.as_mut(), &mut rep, idx);
                }
                mark(false);
            }
        }
        "corpus" => {
            let from: usize = args[1].parse().unwrap();
            let n: usize = args[2].parse().unwrap();
            let corpus = load_corpus();
            for idx in from..(from + n).min(corpus.len()) {
                println!("START {idx}");
                let _ = std::io::stdout().flush();
                mark(true);
                run_case(&rts, &corpus[idx].1, drv.as_mut(), &mut rep, idx as u64);
                mark(false);
            }
        }
        "boundary" => {
            let from: usize = args[1].parse().unwrap();
            let n: usize = args[2].parse().unwrap();
            let cases = g::boundary::all();
            for idx in from..(from + n).min(cases.len()) {
                println!("START {idx}");
                let _ = std::io::stdout().flush();
                mark(true);
                run_case(&rts, &cases[idx], drv.as_mut(), &mut rep, idx as u64);
                mark(false);
            }
        }
        "parsereps" => {
            let from: usize = args[1].parse().unwrap();
            let n: usize = args[2].parse().unwrap();
            let cases = parse_diff::representatives();
            for idx in from..(from + n).min(cases.len()) {
                println!("START {idx}");
                let _ = std::io::stdout().flush();
                mark(true);
                run_case(&rts, &cases[idx], drv.as_mut(), &mut rep, idx as u64);
                mark(false);
            }
        }
        "one" => {
            let v: Value = serde_json::from_str(&args[1]).expect("json");
            let case = Case::from_json(&v).expect("case");
            println!("START 0");
            mark(true);
            run_case(&rts, &case, drv.as_mut(), &mut rep, 0);
            mark(false);
        }
        _ => std::process::exit(64),
    }
    if drv.is_none() {
        rep.notes.push("Lean driver not available: token streams not diffed".into());
    }
    dedup_violations(&mut rep);
    emit_ascii(&rep);
}

fn corpus_dir() -> std::path::PathBuf {
    let verif = std::env::var("ROTOV_VERIF").map(std::path::PathBuf::from).unwrap_or_else(|_| {
        // harness/ is one level below the framework root
        std::path::Path::new(env!("CARGO_MANIFEST_DIR")).parent().unwrap().to_path_buf()
    });
    verif.join("corpus").join("C06")
}

fn load_corpus() -> Vec<(String, Case)> {
    let mut out = vec![];
    let Ok(rd) = std::fs::read_dir(corpus_dir()) else { return out };
    let mut names: Vec<_> = rd.flatten().map(|e| e.path()).filter(|p| p.extension().is_some_and(|e| e == "json")).collect();
    names.sort();
    for p in names {
        if let Ok(s) = std::fs::read_to_string(&p) {
            if let Ok(v) = serde_json::from_str::<Value>(&s) {
                if let Some(c) = Case::from_json(&v) {
                    out.push((p.file_name().unwrap().to_string_lossy().to_string(), c));
                }
            }
        }
    }
    out
}

enum Ended {
    Ok,
    Exit(i32),
    Signal(i32),
}

struct WorkerOut {
    ended: Ended,
    stdout: String,
    stderr: String,
}

fn spawn_worker(args: &[String], timeout: Duration) -> WorkerOut {
    let exe = std::env::current_exe().expect("current_exe");
    static N: AtomicU64 = AtomicU64::new(0);
    let tag = format!("rotov-c06-{}-{}", std::process::id(), N.fetch_add(1, Ordering::SeqCst));
    let op = std::env::temp_dir().join(format!("{tag}.out"));
    let ep = std::env::temp_dir().join(format!("{tag}.err"));
    let mut child = Command::new(exe)
        .arg("worker")
        .args(args)
        .stdin(Stdio::null())
        .stdout(Stdio::from(std::fs::File::create(&op).unwrap()))
        .stderr(Stdio::from(std::fs::File::create(&ep).unwrap()))
        .spawn()
        .expect("spawn worker");
    let start = Instant::now();
    let ended = loop {
        match child.try_wait().expect("try_wait") {
            Some(st) => {
                use std::os::unix::process::ExitStatusExt;
                break match (st.signal(), st.code()) {
                    (Some(s), _) => Ended::Signal(s),
                    (None, Some(0)) => Ended::Ok,
                    (None, c) => Ended::Exit(c.unwrap_or(-1)),
                };
            }
            None => {
                if start.elapsed() > timeout {
                    let _ = child.kill();
                    let _ = child.wait();
                    break Ended::Exit(EXIT_TIMEOUT);
                }
                std::thread::sleep(Duration::from_millis(3));
            }
        }
    };
    let stdout = std::fs::read_to_string(&op).unwrap_or_default();
    let stderr = String::from_utf8_lossy(&std::fs::read(&ep).unwrap_or_default()).to_string();
    let _ = std::fs::remove_file(&op);
    let _ = std::fs::remove_file(&ep);
    WorkerOut { ended, stdout, stderr }
}

/// how a worker died → (what, key)
fn describe_death(w: &WorkerOut) -> (String, String) {
    let stage = w
        .stdout
        .lines()
        .rev()
        .find_map(|l| l.strip_prefix("STAGE "))
        .unwrap_or("?")
        .to_string();
    match w.ended {
        Ended::Exit(EXIT_TIMEOUT) => (
            format!("no answer within {} s (stage {stage})", CASE_TIMEOUT.as_secs()),
            format!("timeout in {stage}"),
        ),
        Ended::Signal(_) | Ended::Exit(_) if w.stderr.contains("has overflowed its stack") => (
            format!("stack overflow in stage {stage}"),
            format!("stack-overflow in {stage}"),
        ),
        Ended::Signal(s) => (
            format!("worker killed by signal {s} in stage {stage}: {}", w.stderr.lines().last().unwrap_or("")),
            format!("signal {s} in {stage}"),
        ),
        Ended::Exit(c) => (
            format!("worker exited with status {c} in stage {stage}: {}", w.stderr.lines().last().unwrap_or("")),
            format!("exit {c} in {stage}"),
        ),
        Ended::Ok => ("".into(), "".into()),
    }
}

/// Run indices [0, total) of `mode` over `jobs` parallel crash-isolated workers.
fn run_parallel(
    mode: &str,
    seed: u64,
    total: u64,
    batch: u64,
    jobs: usize,
    rep: &mut Report,
    input_of: &(dyn Fn(u64) -> Value + Sync),
) {
    let next = Arc::new(AtomicU64::new(0));
    let shared = Arc::new(Mutex::new(Report::default()));
    std::thread::scope(|sc| {
        for _ in 0..jobs {
            let next = next.clone();
            let shared = shared.clone();
            sc.spawn(move || {
                loop {
                    let b = next.fetch_add(batch, Ordering::SeqCst);
                    if b >= total {
                        break;
                    }
                    let end = (b + batch).min(total);
                    let mut from = b;
                    while from < end {
                        let n = end - from;
                        let args: Vec<String> = if mode == "gen" {
                            vec!["gen".into(), seed.to_string(), from.to_string(), n.to_string()]
                        } else {
                            vec![mode.to_string(), from.to_string(), n.to_string()]
                        };
                        // a batch may legitimately contain several slow cases
                        let w = spawn_worker(&args, Duration::from_secs(60 + 6 * n));
                        let mut local = Report::default();
                        if let Some(v) = Report::parse_stdout(&w.stdout) {
                            local.merge_json(&v);
                        }
                        let died = !matches!(w.ended, Ended::Ok);
                        let mut resume = end;
                        if died {
                            let last = w
                                .stdout
                                .lines()
                                .rev()
                                .find_map(|l| l.strip_prefix("START "))
                                .and_then(|s| s.trim().parse::<u64>().ok())
                                .unwrap_or(from);
                            let (mut what, mut key) = describe_death(&w);
                            local.evaluations += last - from + 1;
                            let input = input_of(last);
                            // a death is only reported if the case, run alone in a fresh
                            // worker, dies again (a loaded machine can stall a worker)
                            let mut confirmed = true;
                            if input["files"].is_array() {
                                let w1 = spawn_worker(&["one".to_string(), input.to_string()], Duration::from_secs(60));
                                if matches!(w1.ended, Ended::Ok) {
                                    confirmed = false;
                                    if let Some(v) = Report::parse_stdout(&w1.stdout) {
                                        local.evaluations -= 1;
                                        local.merge_json(&v);
                                    }
                                    local.hist("not-reproduced", key.clone());
                                } else {
                                    (what, key) = describe_death(&w1);
                                }
                            }
                            if confirmed {
                                record_death(&mut local, &what, &key, input);
                            }
                            resume = last + 1;
                            // the cases before `last` in this worker ran fine but their
                            // histograms died with it: re-run them so counts stay exact
                            if last > from {
                                let a: Vec<String> = if mode == "gen" {
                                    vec!["gen".into(), seed.to_string(), from.to_string(), (last - from).to_string()]
                                } else {
                                    vec![mode.to_string(), from.to_string(), (last - from).to_string()]
                                };
                                let w2 = spawn_worker(&a, Duration::from_secs(60 + 6 * n));
                                if let Some(v) = Report::parse_stdout(&w2.stdout) {
                                    local.evaluations -= last - from;
                                    local.merge_json(&v);
                                }
                            }
                        }
                        let mut g = shared.lock().unwrap();
                        merge(&mut g, local);
                        drop(g);
                        from = resume;
                    }
                }
            });
        }
    });
    let g = Arc::try_unwrap(shared).ok().unwrap().into_inner().unwrap();
    merge(rep, g);
}

/// A worker died on `input`. While it waited for the Lean model of the parser
/// (stage `parse-model`: the real parser had already answered) that is the
/// model's failure, a mismatch; anywhere else the compiler's, a violation.
fn record_death(rep: &mut Report, what: &str, key: &str, input: Value) {
    if key.ends_with(" in parse-model") {
        rep.hist("parse_model", format!("failed: {key}"));
        if rep.model_mismatches.len() < 200 {
            rep.model_mismatches.push(json!({
                "what": "parser: Lean model vs real parser",
                "key": format!("parse-diff {key}"),
                "detail": what,
                "input": input,
            }));
        }
    } else {
        viol(rep, what, key, input);
        rep.hist("outcome", format!("DIED: {key}"));
    }
}

fn merge(dst: &mut Report, src: Report) {
    let v = json!({
        "evaluations": src.evaluations,
        "classes": src.classes,
        "impl_violations": src.impl_violations,
        "model_mismatches": src.model_mismatches,
        "samples": src.samples,
        "histograms": src.histograms,
        "notes": src.notes,
    });
    dst.merge_json(&v);
    dedup_violations(dst);
}

/// keep one violation per key (the smallest input) with a count, so that the
/// cap on reported violations never hides a crash site
fn dedup_violations(rep: &mut Report) {
    let mut by_key: std::collections::BTreeMap<String, Value> = Default::default();
    let mut counts: std::collections::BTreeMap<String, u64> = Default::default();
    for v in rep.impl_violations.drain(..) {
        let k = v["key"].as_str().unwrap_or("?").to_string();
        *counts.entry(k.clone()).or_insert(0) += v["count"].as_u64().unwrap_or(1);
        let size = |x: &Value| x["input"]["files"].to_string().len();
        match by_key.get(&k) {
            Some(old) if size(old) <= size(&v) => {}
            _ => {
                by_key.insert(k, v);
            }
        }
    }
    for (k, mut v) in by_key {
        v["count"] = json!(counts[&k]);
        rep.impl_violations.push(v);
    }
}

/// `Report::emit`, with every non-ASCII character escaped: the inputs contain
/// U+2028, U+0085 … which line-splitting readers treat as line ends.
fn emit_ascii(rep: &Report) {
    let v = json!({
        "evaluations": rep.evaluations,
        "distinct_nontrivial": rep.classes.len(),
        "classes": rep.classes,
        "impl_violations": rep.impl_violations,
        "model_mismatches": rep.model_mismatches,
        "samples": rep.samples,
        "histograms": rep.histograms,
        "notes": rep.notes,
    });
    let s = v.to_string();
    let mut out = String::with_capacity(s.len() + 64);
    for c in s.chars() {
        if c.is_ascii() {
            out.push(c);
        } else {
            let mut buf = [0u16; 2];
            for u in c.encode_utf16(&mut buf) {
                out.push_str(&format!("\\u{:04x}", u));
            }
        }
    }
    println!("HARNESS-REPORT {out}");
}

fn viol(rep: &mut Report, what: &str, key: &str, input: Value) {
    if rep.impl_violations.len() >= 150 {
        dedup_violations(rep);
    }
    rep.violation(what, key, input);
}

fn main() {
    let args: Vec<String> = std::env::args().collect();
    match args.get(1).map(|s| s.as_str()) {
        Some("worker") => worker(&args[2..]),
        Some("run") => {
            let seed: u64 = args.get(2).and_then(|s| s.parse().ok()).unwrap_or(1);
            let thorough = args.get(3).map(|s| s == "thorough").unwrap_or(false);
            let flag = |name: &str| args.iter().position(|a| a == name).and_then(|i| args.get(i + 1)).cloned();
            let total: u64 = flag("--cases")
                .or_else(|| std::env::var("C06_CASES").ok())
                .and_then(|s| s.parse().ok())
                .unwrap_or(if thorough { 300_000 } else { 3_000 });
            if let Some(f) = flag("--focus") {
                // search mode: the random stream draws from the named classes only; inherited by the workers
                unsafe { std::env::set_var("C06_FOCUS", f) };
            }
            let jobs = std::thread::available_parallelism().map(|n| n.get()).unwrap_or(4).min(16);
            if args.iter().any(|a| a == "--parse-strict") {
                // inherited by the workers; no other thread exists yet
                unsafe { std::env::set_var("C06_PARSE_STRICT", "1") };
            }
            let mut rep = Report::default();
            // class representatives of the parser differential first (seed-independent)
            let preps = parse_diff::representatives();
            run_parallel("parsereps", seed, preps.len() as u64, 64, jobs, &mut rep, &|i| {
                preps.get(i as usize).map(|c| c.to_json()).unwrap_or(Value::Null)
            });
            rep.notes.push(format!(
                "parser differential: {} class representatives (one per grammar construct / error site) run first; \
                 then every single-file input of the corpus, the boundary stream and the random stream{}",
                preps.len(),
                if parse_diff::strict() { "; strict (bad-op is a mismatch)" } else { "" }
            ));
            // corpus
            let corpus = load_corpus();
            let c2 = corpus.clone_cases();
            run_parallel("corpus", seed, corpus.len() as u64, 8, jobs, &mut rep, &|i| {
                c2.get(i as usize).map(|c| c.to_json()).unwrap_or(Value::Null)
            });
            rep.notes.push(format!("corpus: {} minimised past crashers replayed first", corpus.len()));
            // then the boundary stream: class representatives (cyclic-type
            // attempts through every type constructor, long non-ASCII tokens at
            // every alignment wherever an error cites them); seed-independent
            let boundary = g::boundary::all();
            run_parallel("boundary", seed, boundary.len() as u64, 100, jobs, &mut rep, &|i| {
                boundary.get(i as usize).map(|c| c.to_json()).unwrap_or(Value::Null)
            });
            rep.notes.push(format!("boundary stream: {} class representatives run before the random stream", boundary.len()));
            // measured, not assumed: every constructor of a type error was reached by the representatives
            {
                let reached = rep.histograms.get("type-error").cloned().unwrap_or_default();
                let mut missing = vec![];
                for (ctor, kind) in g::typeerrors::ERROR_KINDS {
                    let n: u64 = reached.iter().filter(|(k, _)| k.starts_with(kind)).map(|(_, n)| *n).sum();
                    rep.hist("type-error-constructor", format!("{ctor}: {kind}"));
                    if n == 0 {
                        missing.push(format!("{ctor} ({kind})"));
                    }
                }
                if !missing.is_empty() {
                    rep.mismatch(
                        "the boundary stream no longer reaches every constructor of a type error (src/typechecker/error.rs)",
                        json!({"key": "type-error-coverage", "missing": missing}),
                    );
                }
                rep.notes.push(format!(
                    "type errors: {} kinds of report seen in the corpus + boundary stream; all {} (constructor, kind) pairs of the table reached: {}",
                    reached.len(),
                    g::typeerrors::ERROR_KINDS.len(),
                    missing.is_empty()
                ));
            }
            let seeds = g::Seeds::load();
            rep.notes.push(format!("seed programs harvested from the repository: {}", seeds.programs.len()));
            let batch = if thorough { 500 } else { 100 };
            run_parallel("gen", seed, total, batch, jobs, &mut rep, &|i| {
                let mut p = Prng::for_case(seed, i);
                if i % 25 == 24 {
                    let (src, defs, _) = g::type_decls(&mut p);
                    json!({"kind": "type-decls", "defs": defs, "files": [{"name": "c06.roto", "module": "pkg", "parent": null, "hex": hex(&src), "src": src}], "seed": seed, "index": i})
                } else {
                    let mut v = g::generate(&mut p, &seeds).to_json();
                    v["seed"] = json!(seed);
                    v["index"] = json!(i);
                    v
                }
            });
            dedup_violations(&mut rep);
            let keys: Vec<(String, u64)> = rep
                .impl_violations
                .iter()
                .map(|v| (v["key"].as_str().unwrap_or("?").to_string(), v["count"].as_u64().unwrap_or(1)))
                .collect();
            for (k, n) in keys {
                *rep.histograms.entry("violations-by-key".into()).or_default().entry(k).or_insert(0) += n;
            }
            rep.notes.push(format!("jobs={jobs} cases={total} profile: debug-assertions={}", cfg!(debug_assertions)));
            emit_ascii(&rep);
        }
        Some("replay") => {
            let w = spawn_worker(&["one".to_string(), args[2].clone()], Duration::from_secs(30));
            let mut rep = Report::default();
            if let Some(v) = Report::parse_stdout(&w.stdout) {
                rep.merge_json(&v);
            }
            if !matches!(w.ended, Ended::Ok) {
                let (what, key) = describe_death(&w);
                rep.evaluations += 1;
                record_death(&mut rep, &what, &key, serde_json::from_str(&args[2]).unwrap_or(Value::Null));
            }
            for v in &rep.impl_violations {
                println!("violation: {} [{}]", v["what"].as_str().unwrap_or(""), v["key"].as_str().unwrap_or(""));
            }
            for v in &rep.model_mismatches {
                println!("mismatch: {} [{}]", v["what"].as_str().unwrap_or(""), v["key"].as_str().unwrap_or(""));
                if v["real"].is_string() {
                    println!("  real : {}", v["real"].as_str().unwrap_or(""));
                    println!("  model: {}", v["model"].as_str().unwrap_or(""));
                }
            }
            emit_ascii(&rep);
        }
        Some("parse-replay") => {
            // the argument is a JSON string (`"fn f() {}"`); a bare text is taken as it is
            let arg = args.get(2).cloned().unwrap_or_default();
            let src = serde_json::from_str::<String>(&arg).unwrap_or(arg);
            install_panic_hook();
            let mut drv = Driver::spawn().ok();
            if drv.is_none() {
                println!("note : no Lean driver ($ROTOV_DRIVER)");
            }
            let d = parse_diff::diff_source(&src, None, drv.as_mut());
            println!("real : {}", d.real);
            println!("model: {}", d.model);
            println!("lits : {}", if d.lits.is_empty() { "-".to_string() } else { d.lits.join(",") });
            println!("rounds: {}", d.rounds);
            println!("verdict: {:?}", d.verdict);
            if d.verdict == parse_diff::Verdict::Different {
                println!("key  : {}", parse_diff::diff_key(&d.real, &d.model));
            }
        }
        _ => {
            eprintln!("usage: c06 run <seed> <quick|thorough> [--parse-strict] | c06 replay <json> | c06 parse-replay <json string>");
            std::process::exit(64);
        }
    }
}

trait CloneCases {
    fn clone_cases(&self) -> Vec<Case>;
}
impl CloneCases for Vec<(String, Case)> {
    fn clone_cases(&self) -> Vec<Case> {
        self.iter().map(|c| c.1.clone()).collect()
    }
}
