//! C01 correspondence: generated well-typed programs on the real compiler (JIT)
//! against the Lean reference interpreter `RotoV.Spec` (the oracle).
//!
//! usage: c01 run <seed> <quick|thorough>
//!        c01 replay <json>          — {"src","sexp","ty","arity","ret","args"} or {"seed","index"}
//!        c01 show <seed> <index>    — print program `index` of run `seed` (source, s-expression, MIR)
//!
//! T5 tie (the composed model of `Props/C01Lower`): on every program the driver also runs
//! `c01 t5` — the program resolved to the lowering model's core language, lowered by
//! `LowerS.lowerProg`, its structured MIR executed with the generated operator tables — and its
//! value must be the spec's (and the JIT's) wherever the program is in the common fragment;
//! class representatives (`c01/t5corpus.rs`) run first, then generated programs of the fragment
//! (`gen_program_in(.., true)`, variables named by level) whose structured MIR is also compared
//! instruction by instruction with the real MIR dump of every function (`c01/mirtie.rs`).
//!
//! Per program: the Lean spec evaluates every argument tuple; where the spec
//! yields a value the JIT result must have the same bits (NaNs canonicalised).
//! Where the spec says `trap` (division by zero, MIN / -1) or `fuel` the JIT is
//! not run (traps are C10's topic). Every compiled program's post-DCE MIR text
//! is checked against the postcondition of the Lean DCE model (`Model/Dce`):
//! exactly one terminator per block, at the end; every block reachable.

#[path = "../c01/ast.rs"]
mod ast;
#[path = "../c01/generator.rs"]
mod generator;
#[path = "../c01/mirtie.rs"]
mod mirtie;
#[path = "../c01/t5corpus.rs"]
mod t5corpus;
#[path = "../c01/lirtie.rs"]
mod lirtie;
#[path = "../c01/classcorpus.rs"]
mod classcorpus;

use ast::*;
use roto::verif_hooks::core::lower_to_mir;
use roto::{FileTree, Runtime};
use rotov_harness::driver::{Driver, hex};
use rotov_harness::scalar::*;
use rotov_harness::worker::{Ended, run_batches, run_worker, run_worker_keep_stdout};
use rotov_harness::{Prng, Report};
use serde_json::{Value, json};
use std::collections::BTreeSet;
use std::io::Write as _;
use std::panic::{AssertUnwindSafe, catch_unwind};
use std::time::Duration;

fn parse_ty(s: &str) -> STy {
    *generator::all_tys().iter().find(|t| t.name() == s).expect("type name")
}

// ------------------------------------------------------- DCE postcondition

fn is_terminator(line: &str) -> bool {
    line.starts_with("jump ") || line.starts_with("switch ") || line.starts_with("return ") || line == "return"
}

/// Check the printed MIR of a whole program (labels are not unique in the
/// printed form, so only the per-block shape is checked here): every block
/// has exactly one terminator and it is the last instruction.
/// Returns (blocks, instructions).
fn dce_postcondition(mir: &str) -> Result<(u64, u64), String> {
    let mut nblocks = 0;
    let mut ninstr = 0;
    let mut items: Vec<(String, Vec<(String, Vec<String>)>)> = vec![];
    for line in mir.lines() {
        if line.starts_with("fn ") || line.starts_with("const ") {
            items.push((line.to_string(), vec![]));
            continue;
        }
        let Some((_, blocks)) = items.last_mut() else { continue };
        if let Some(l) = line.strip_prefix("    ") {
            if let Some((_, ins)) = blocks.last_mut() { ins.push(l.trim().to_string()); }
            else { return Err(format!("instruction outside a block: {line}")); }
        } else if let Some(l) = line.strip_prefix("  ") {
            if let Some(lbl) = l.strip_suffix(':') { blocks.push((lbl.to_string(), vec![])); }
            // else: a variable declaration line
        }
    }
    if items.is_empty() { return Err("no items in MIR text".into()); }
    for (head, blocks) in &items {
        if blocks.is_empty() { return Err(format!("{head}: no blocks")); }
        for (lbl, ins) in blocks {
            nblocks += 1;
            ninstr += ins.len() as u64;
            match ins.iter().position(|i| is_terminator(i)) {
                None => return Err(format!("{head}: block {lbl} has no terminator")),
                Some(p) if p + 1 != ins.len() => return Err(format!("{head}: block {lbl} has instructions after its terminator")),
                _ => {}
            }
        }
    }
    Ok((nblocks, ninstr))
}

// --------------------------------------- the DCE model against the real pass

use roto::verif_hooks::c01::{CfgInstr, CfgItem};

fn enc_item(it: &CfgItem) -> String {
    it.blocks.iter().map(|b| {
        let ins: Vec<String> = b.instrs.iter().map(|i| match i {
            CfgInstr::Other => "o".to_string(),
            CfgInstr::Return => "r".to_string(),
            CfgInstr::Jump(l) => format!("j{l}"),
            CfgInstr::Switch(br, d) => format!(
                "s{}{}",
                br.iter().map(|l| l.to_string()).collect::<Vec<_>>().join("."),
                d.map(|d| format!("e{d}")).unwrap_or_default()
            ),
        }).collect();
        format!("{}:{}", b.label, ins.join(","))
    }).collect::<Vec<_>>().join(";")
}

/// Structural postcondition on numeric labels: unique labels, one terminator per
/// block (last), all targets exist, every block reachable from the first.
fn cfg_postcondition(it: &CfgItem) -> Result<(), String> {
    let labels: BTreeSet<usize> = it.blocks.iter().map(|b| b.label).collect();
    if labels.len() != it.blocks.len() { return Err(format!("{}: duplicate labels", it.name)); }
    let succ = |i: &CfgInstr| -> Option<Vec<usize>> {
        match i {
            CfgInstr::Other => None,
            CfgInstr::Return => Some(vec![]),
            CfgInstr::Jump(l) => Some(vec![*l]),
            CfgInstr::Switch(br, d) => Some(br.iter().copied().chain(d.iter().copied()).collect()),
        }
    };
    let mut reach = BTreeSet::new();
    let mut work = vec![it.blocks.first().ok_or("no blocks")?.label];
    while let Some(l) = work.pop() {
        if !reach.insert(l) { continue; }
        let b = it.blocks.iter().find(|b| b.label == l).ok_or(format!("{}: jump to missing block {l}", it.name))?;
        for i in &b.instrs { if let Some(ts) = succ(i) { work.extend(ts); } }
    }
    for b in &it.blocks {
        match b.instrs.iter().position(|i| succ(i).is_some()) {
            None => return Err(format!("{}: block {} has no terminator", it.name, b.label)),
            Some(p) if p + 1 != b.instrs.len() => return Err(format!("{}: block {} has instructions after its terminator", it.name, b.label)),
            _ => {}
        }
        if !reach.contains(&b.label) { return Err(format!("{}: block {} is unreachable", it.name, b.label)); }
    }
    Ok(())
}

/// Lean `Dce.dce` on the pre-DCE skeleton must reproduce the real pass's output,
/// the real pipeline stage must produce the same, and it must satisfy the
/// postcondition. Returns the number of (blocks removed, instructions removed).
fn dce_correspondence(rep: &mut Report, drv: &mut Driver, src: &str, ident: &Value) -> Option<(u64, u64)> {
    let rt: &'static Runtime<roto::NoCtx> = Box::leak(Box::new(Runtime::new()));
    let tree = FileTree::test_file("c01.roto", src, 0);
    let cfgs = match catch_unwind(AssertUnwindSafe(|| roto::verif_hooks::c01::cfgs(tree, rt))) {
        Ok(Ok(c)) => c,
        Ok(Err(e)) => { rep.mismatch("CFG hook: program does not compile", json!({"case": ident, "error": format!("{e}").chars().take(800).collect::<String>()})); return None; }
        Err(_) => {
            rep.violation("the compiler panicked while lowering a well-typed program to MIR (dead-code elimination included)", "compiler-panic mir", json!({"case": ident}));
            return None;
        }
    };
    let mut removed = (0u64, 0u64);
    let reqs: Vec<String> = cfgs.before.iter().map(|it| format!("c01 dce {}", enc_item(it))).collect();
    let answers = drv.ask_all(&reqs);
    for ((b, a), ans) in cfgs.before.iter().zip(&cfgs.after).zip(&answers) {
        let real = format!("ok {}", enc_item(a));
        if *ans != real {
            rep.mismatch("Lean model of dead_code.rs (Dce.dce) differs from the real pass on a real pre-DCE CFG",
                json!({"case": ident, "item": b.name, "before": enc_item(b), "real_after": real, "lean": ans}));
        }
        removed.0 += (b.blocks.len() - a.blocks.len().min(b.blocks.len())) as u64;
        let n = |it: &CfgItem| it.blocks.iter().map(|b| b.instrs.len() as u64).sum::<u64>();
        removed.1 += n(b).saturating_sub(n(a));
        rep.hist("dce-model-vs-real", if *ans == real { "same" } else { "DIFFERENT" });
    }
    // label numbering is per lowering run and deterministic, so the skeletons must be identical —
    // except in a function with a `match`: `mir/lower/match_expr.rs` walks a `HashMap` of the
    // discriminants, so the order of the case blocks and of the switch's branches changes from
    // one lowering run to the next; there the two skeletons are compared block shape by block
    // shape (instruction count, kind of terminator, number of branches) as multisets
    let shape = |it: &CfgItem| {
        let mut v: Vec<String> = it.blocks.iter().map(|b| {
            let t = match b.instrs.last() {
                Some(CfgInstr::Jump(_)) => "j".to_string(),
                Some(CfgInstr::Return) => "r".to_string(),
                Some(CfgInstr::Switch(br, d)) => format!("s{}{}", br.len(), if d.is_some() { "d" } else { "" }),
                _ => "?".to_string(),
            };
            format!("{}{t}", b.instrs.len())
        }).collect();
        v.sort();
        (it.name.clone(), v)
    };
    let same = if src.contains("match ") {
        cfgs.pipeline.iter().map(shape).collect::<Vec<_>>() == cfgs.after.iter().map(shape).collect::<Vec<_>>()
    } else {
        cfgs.pipeline == cfgs.after
    };
    if !same {
        rep.mismatch("the pipeline's MIR differs from lowering + eliminate_dead_code", json!({"case": ident}));
    }
    for it in &cfgs.pipeline {
        if let Err(e) = cfg_postcondition(it) {
            rep.mismatch("post-DCE MIR violates the postcondition proved for the DCE model (one terminator per block, last; all blocks reachable)",
                json!({"case": ident, "error": e, "cfg": enc_item(it)}));
        }
    }
    Some(removed)
}

// ------------------------------------------------------------ running

struct Case<'a> {
    src: &'a str,
    sexp: &'a str,
    ty: STy,
    arity: usize,
    ret: STy,
}

/// Ask the Lean spec for every tuple. `Err` = the spec rejected the program.
fn spec_answers(drv: &mut Driver, c: &Case, args: &[Vec<u64>]) -> Result<Vec<String>, String> {
    let tuples: Vec<String> = args
        .iter()
        .map(|t| t.iter().map(|b| format!("{}:{b}", c.ty.name())).collect::<Vec<_>>().join(" "))
        .collect();
    let ans = drv.ask(&format!("c01 run {} {}", hex(c.sexp), tuples.join(" | ")));
    if ans == "bad-program" || ans == "bad-op" { return Err(ans); }
    let parts: Vec<String> = ans.split(" | ").map(|s| s.to_string()).collect();
    if parts.len() != args.len() { return Err(format!("{} answers for {} tuples: {ans}", parts.len(), args.len())); }
    Ok(parts)
}

/// "ok <ty> <bits>" → canonical (ty, bits)
fn parse_ok(s: &str) -> Option<(String, u64)> {
    let w: Vec<&str> = s.split(' ').collect();
    if w.len() == 3 && w[0] == "ok" {
        let b: u64 = w[2].parse().ok()?;
        Some((w[1].to_string(), canon(w[1], b)))
    } else {
        None
    }
}

struct Compiled {
    call: Callable,
    mir: String,
}

fn compile(c: &Case) -> Result<Compiled, String> {
    let rt: &'static Runtime<roto::NoCtx> = Box::leak(Box::new(Runtime::new()));
    let tree = FileTree::test_file("c01.roto", c.src, 0);
    let mir = lower_to_mir(tree, rt).map_err(|e| format!("{e}"))?;
    let text = mir.text();
    let mut pkg = mir.lower_to_lir().codegen();
    let call = get_main(&mut pkg, c.ty, c.arity, c.ret)?;
    // keep the package (and its code) alive for the rest of the process
    Box::leak(Box::new(pkg));
    Ok(Compiled { call, mir: text })
}

fn compile_guarded(c: &Case) -> Result<Result<Compiled, String>, String> {
    catch_unwind(AssertUnwindSafe(|| compile(c))).map_err(|e| {
        if let Some(s) = e.downcast_ref::<String>() { s.clone() }
        else if let Some(s) = e.downcast_ref::<&str>() { s.to_string() }
        else { "panic".to_string() }
    })
}

/// First argument tuple on which the JIT differs from the spec: (tuple index, spec, jit bits).
fn first_difference(c: &Case, comp: &Compiled, args: &[Vec<u64>], spec: &[String]) -> Option<(usize, String, u64)> {
    for (i, (a, s)) in args.iter().zip(spec).enumerate() {
        if let Some((t, b)) = parse_ok(s) {
            let j = canon(c.ret.name(), (comp.call)(a));
            if t != c.ret.name() || j != b { return Some((i, s.clone(), j)); }
        }
    }
    None
}

/// Does `prog` still show a spec/JIT difference on `args`? (shrinker's predicate)
fn still_fails(drv: &mut Driver, prog: &Prog, ty: STy, arity: usize, ret: STy, args: &[u64]) -> bool {
    let (src, sx) = (source(prog), sexp(prog));
    let c = Case { src: &src, sexp: &sx, ty, arity, ret };
    let Ok(spec) = spec_answers(drv, &c, &[args.to_vec()]) else { return false };
    if parse_ok(&spec[0]).is_none() { return false; }
    // the harness interpreter must agree with the spec, or the edit produced nonsense
    let mut it = Interp::new(prog);
    match it.run_main(args) {
        Ok(v) => { let (t, b) = v_bits(&v); if format!("ok {t} {}", canon(t, b)) != format!("ok {} {}", parse_ok(&spec[0]).unwrap().0, parse_ok(&spec[0]).unwrap().1) { return false; } }
        Err(_) => return false,
    }
    match compile_guarded(&c) {
        Ok(Ok(comp)) => first_difference(&c, &comp, &[args.to_vec()], &spec).is_some(),
        _ => false,
    }
}

fn shrink(drv: &mut Driver, prog: &Prog, ty: STy, arity: usize, ret: STy, args: &[u64]) -> Prog {
    let mut cur = prog.clone();
    let mut tries = 0;
    for _pass in 0..3 {
        let mut k = 0;
        let mut progress = false;
        while let Some(cand) = edit(&cur, k) {
            tries += 1;
            if tries > 600 { return cur; }
            if still_fails(drv, &cand, ty, arity, ret, args) { cur = cand; progress = true; } else { k += 1; }
        }
        if !progress { break; }
    }
    cur
}

/// Key of a violation from the (minimised) program: a lone operator → `binop <op> <ty>`.
fn violation_key(p: &Prog) -> String {
    let (cons, _) = constructs(p);
    let control: Vec<&String> = cons.keys().filter(|k| {
        k.starts_with("if") || k.starts_with("while") || k.starts_with("call") || k.starts_with("return") || k.starts_with("match")
            || k.starts_with("bin&&") || k.starts_with("bin||") || k.starts_with("block") || k.starts_with("dead")
    }).collect();
    if !control.is_empty() {
        return format!("control-flow {}", control.iter().map(|s| s.as_str()).collect::<Vec<_>>().join(","));
    }
    fn find_ops(e: &E, out: &mut Vec<(String, STy)>) {
        match e {
            E::Bin(op, l, r) => { out.push((op.sym().to_string(), type_of(l).unwrap_or(STy::Bool))); find_ops(l, out); find_ops(r, out); }
            E::Neg(x) => { out.push(("neg".into(), type_of(x).unwrap_or(STy::Bool))); find_ops(x, out); }
            E::Not(x) => { out.push(("not".into(), STy::Bool)); find_ops(x, out); }
            E::CSet(op, _, v) => { out.push((format!("{}=", op.sym()), type_of(v).unwrap_or(STy::Bool))); find_ops(v, out); }
            E::Set(_, v) | E::Ret(v) => find_ops(v, out),
            _ => {}
        }
    }
    let mut ops = vec![];
    for f in &p.fns {
        for s in &f.body.stmts { match s { S::Let(_, _, _, e) | S::LetX(_, _, _, e) | S::Do(e) => find_ops(e, &mut ops) } }
        if let Some(e) = &f.body.last { find_ops(e, &mut ops); }
    }
    match ops.len() {
        0 => {
            if cons.contains_key("lit-unsuffixed") { "literal unsuffixed".into() } else if cons.contains_key("lit-suffixed") { "literal".into() } else { "expr".into() }
        }
        1 => match ops[0].0.as_str() {
            "neg" | "not" => format!("unop {} {}", ops[0].0, ops[0].1.name()),
            o => format!("binop {} {}", o, ops[0].1.name()),
        },
        _ => format!("expr {}", ops.iter().map(|(o, t)| format!("{o}:{}", t.name())).collect::<Vec<_>>().join(",")),
    }
}

fn bucket(n: u64) -> String {
    match n { 0..=9 => n.to_string(), 10..=19 => "10-19".into(), 20..=49 => "20-49".into(), 50..=99 => "50-99".into(), _ => "100+".into() }
}

/// Generated programs with an index from `FRAG_BASE` on are programs of the common fragment of T5
/// (types `i32` / `bool`, no `/` `%`), their variables named by level.
const FRAG_BASE: u64 = 1_000_000;

fn generate(seed: u64, idx: u64) -> (generator::Generated, Vec<Vec<u64>>) {
    let mut p = Prng::for_case(seed, idx);
    // every other program outside the T5 fragment declares enum types and matches on them
    let mut g = generator::gen_program_in(&mut p, idx >= FRAG_BASE, idx < FRAG_BASE && idx % 2 == 1);
    if idx >= FRAG_BASE { g.prog = rename_levels(&g.prog); }
    let a = generator::gen_args(&mut p, g.arg_ty, g.arity, 10);
    (g, a)
}

fn check_generated(rep: &mut Report, drv: &mut Driver, g: &generator::Generated, args: &[Vec<u64>], seed: u64, idx: u64) {
    let frag = idx >= FRAG_BASE;
    let (src, sx) = (source(&g.prog), sexp(&g.prog));
    let c = Case { src: &src, sexp: &sx, ty: g.arg_ty, arity: g.arity, ret: g.ret };
    let ident = json!({"seed": seed, "index": idx, "src": src, "ty": g.arg_ty.name(), "arity": g.arity, "ret": g.ret.name()});
    // generator distribution (static)
    let (cons, depth) = constructs(&g.prog);
    for (k, n) in &cons { for _ in 0..*n { rep.hist("constructs", k.clone()); } }
    rep.hist("nesting-depth", depth.min(12).to_string());
    rep.hist("arg-type", g.arg_ty.name());
    rep.hist("ret-type", g.ret.name());
    rep.hist("functions", g.prog.fns.len().to_string());
    rep.hist("program-bytes", format!("{}", src.len() / 200 * 200));
    for f in &g.prog.fns {
        for (_, t) in &f.params { rep.hist("param-types(all fns)", t.name()); }
    }
    let spec = match spec_answers(drv, &c, args) {
        Ok(s) => s,
        Err(e) => { rep.mismatch("Lean spec rejects a generated program (generator/printer bug)", json!({"case": ident, "error": e})); return; }
    };
    // third voice + dynamic statistics: the harness's own interpreter
    let mut any_ok = false;
    for (a, s) in args.iter().zip(&spec) {
        rep.evaluations += 1;
        let mut it = Interp::new(&g.prog);
        let r = it.run_main(a);
        let mine = match &r {
            Ok(v) => { let (t, b) = v_bits(v); format!("ok {t} {}", canon(t, b)) }
            Err(Stop::Trap) => "trap".into(),
            Err(Stop::Fuel) => "fuel".into(),
            Err(Stop::Stuck(w)) => format!("stuck {w}"),
            Err(Stop::Ret(_)) => "stuck ret".into(),
        };
        let theirs = match parse_ok(s) { Some((t, b)) => format!("ok {t} {b}"), None => s.clone() };
        if s.starts_with("stuck") {
            rep.mismatch("Lean spec is stuck on a generated program (ill-typed for the spec)", json!({"case": ident, "args": a, "spec": s}));
            return;
        }
        if mine != theirs && !(mine == "fuel" || theirs == "fuel") {
            rep.mismatch("harness interpreter and Lean spec disagree", json!({"case": ident, "args": a, "spec": s, "harness": mine}));
        }
        rep.hist("spec-outcome", if s.starts_with("ok") { "value" } else { s.as_str() });
        if s.starts_with("ok") {
            any_ok = true;
            let st = &it.st;
            for _ in 0..st.if_true { rep.hist("branch-outcomes", "if-true"); }
            for _ in 0..st.if_false { rep.hist("branch-outcomes", "if-false"); }
            for _ in 0..st.and_short { rep.hist("branch-outcomes", "&&-short-circuit"); }
            for _ in 0..st.and_full { rep.hist("branch-outcomes", "&&-rhs-evaluated"); }
            for _ in 0..st.or_short { rep.hist("branch-outcomes", "||-short-circuit"); }
            for _ in 0..st.or_full { rep.hist("branch-outcomes", "||-rhs-evaluated"); }
            for t in &st.trips { rep.hist("loop-trip-counts", bucket(*t)); }
            rep.hist("early-returns-taken", bucket(st.early_returns));
            rep.hist("max-call-depth", bucket(st.max_call_depth));
            rep.hist("wrapping-overflows", bucket(st.wraps));
        }
    }
    // second oracle: the composed model of T5
    let in_fragment = t5_oracle(rep, drv, &c, args, &spec, &ident);
    if frag {
        rep.hist("t5-fragment-programs", if in_fragment { "in the fragment" } else { "OUTSIDE (generator)" });
        if !in_fragment {
            rep.mismatch("a program generated for the T5 fragment is outside it (generator/printer bug)", json!({"case": ident}));
        }
    }
    let comp = match compile_guarded(&c) {
        Ok(Ok(c)) => c,
        Ok(Err(e)) => {
            rep.mismatch("generated program does not compile", json!({"case": ident, "error": e.chars().take(1500).collect::<String>()}));
            return;
        }
        Err(p) => {
            rep.violation("the compiler panicked on a well-typed program", "compiler-panic", json!({"case": ident, "panic": p}));
            return;
        }
    };
    match dce_postcondition(&comp.mir) {
        Ok((b, _)) => rep.hist("mir-blocks", bucket(b)),
        Err(e) => rep.mismatch(
            "printed post-DCE MIR has a block that does not end in its only terminator",
            json!({"case": ident, "error": e}),
        ),
    }
    if let Some((rb, ri)) = dce_correspondence(rep, drv, &src, &ident) {
        rep.hist("dce-removed-blocks", bucket(rb));
        rep.hist("dce-removed-instructions", bucket(ri));
    }
    if let Some((i, s, j)) = first_difference(&c, &comp, args, &spec) {
        let bad_args = args[i].clone();
        let small = shrink(drv, &g.prog, g.arg_ty, g.arity, g.ret, &bad_args);
        let key = violation_key(&small);
        let (ssrc, ssx) = (source(&small), sexp(&small));
        let sc = Case { src: &ssrc, sexp: &ssx, ty: g.arg_ty, arity: g.arity, ret: g.ret };
        let sspec = spec_answers(drv, &sc, &[bad_args.clone()]).map(|v| v[0].clone()).unwrap_or_default();
        rep.violation(
            "the compiled function returns a value different from the language-defined result (Lean Spec)",
            &key,
            json!({
                "src": ssrc, "sexp": ssx, "ty": g.arg_ty.name(), "arity": g.arity, "ret": g.ret.name(), "args": bad_args,
                "spec": sspec, "minimised": true,
                "original": {"seed": seed, "index": idx, "src": src, "spec": s, "jit_bits": j},
            }),
        );
        rep.hist("jit-vs-spec", "DIFFERENT");
        return;
    }
    rep.hist("jit-vs-spec", "agree");
    if frag && in_fragment {
        // IR-level tie: the model's structured MIR against the real MIR of every function
        let names: Vec<String> = g.prog.fns.iter().map(|f| f.name.clone()).collect();
        let same = mirtie::compare_mir(rep, drv, &src, &sx, &names, &ident);
        // LIR layer: the Lean model of lir/lower.rs on the real MIR against the real LIR
        lirtie::compare_lir(rep, drv, &src, &ident, Some((g.arg_ty.name(), args, &spec)));
        if same == names.len() as u64 && any_ok {
            let sig: Vec<&str> = cons.keys().map(|s| s.as_str()).collect();
            rep.class(format!("t5:{}|{}->{}", sig.join(","), g.arg_ty.name(), g.ret.name()));
        }
    }
    if any_ok {
        rep.class(format!("prog:{:016x}", fnv(&src)));
        let sig: Vec<&str> = cons.keys().map(|s| s.as_str()).collect();
        rep.class(format!("sig:{}|{}->{}", sig.join(","), g.arg_ty.name(), g.ret.name()));
    }
    if idx % 41 == 0 {
        rep.sample(json!({"seed": seed, "index": idx, "src": src, "args": args[0], "spec": spec[0]}));
    }
}

/// The composed model of T5 as a second oracle: `c01 t5` on every argument tuple. Where the spec
/// yields a value the model must return the same value. Returns false when the program is
/// outside the common fragment.
fn t5_oracle(rep: &mut Report, drv: &mut Driver, c: &Case, args: &[Vec<u64>], spec: &[String], ident: &Value) -> bool {
    let tuples: Vec<String> = args
        .iter()
        .map(|t| t.iter().map(|b| format!("{}:{b}", c.ty.name())).collect::<Vec<_>>().join(" "))
        .collect();
    let ans = drv.ask(&format!("c01 t5 {} {}", hex(c.sexp), tuples.join(" | ")));
    if ans == "outside" {
        rep.hist("t5-model", "program outside the common fragment");
        return false;
    }
    let parts: Vec<&str> = ans.split(" | ").collect();
    if ans == "nolower" || ans == "bad-program" || parts.len() != args.len() {
        rep.mismatch("T5 tie: the composed model gives no answer on a program of the fragment (contradicts resolve_lowers)",
            json!({"case": ident, "answer": ans.chars().take(300).collect::<String>()}));
        return true;
    }
    for ((a, s), m) in args.iter().zip(spec).zip(&parts) {
        let Some((t, b)) = parse_ok(s) else {
            rep.hist("t5-model", "spec yields no value (not compared)");
            continue;
        };
        rep.evaluations += 1;
        match parse_ok(m) {
            Some((mt, mb)) if mt == t && mb == b => rep.hist("t5-model", "model value = spec value"),
            _ => {
                rep.mismatch(
                    "T5 tie: the composed model (resolve, LowerS.lowerProg, structured MIR run with the generated operator tables) does not return the value of the Lean Spec",
                    json!({"case": ident, "args": a, "spec": s, "model": m}),
                );
                rep.hist("t5-model", "DIFFERENT");
                return true;
            }
        }
    }
    true
}

/// One class representative of the T5 fragment: Spec, composed model and JIT on the boundary
/// arguments; with `ir`, the model's structured MIR against the real MIR of every function.
fn check_representative(rep: &mut Report, drv: &mut Driver, name: &str, prog: &Prog, ty: STy, ret: STy, ir: bool, k: u64) {
    let (src, sx) = (source(prog), sexp(prog));
    let arity = prog.main().params.len();
    let c = Case { src: &src, sexp: &sx, ty, arity, ret };
    let ident = json!({"t5corpus": name, "src": src, "sexp": sx, "ty": ty.name(), "arity": arity, "ret": ret.name()});
    // every pair of boundary values, then a few mixed tuples
    let bd = ty.boundary();
    let mut args: Vec<Vec<u64>> = vec![];
    let mut p = Prng::for_case(77, k);
    for i in 0..bd.len() { args.push((0..arity).map(|j| bd[(i + j * 3) % bd.len()]).collect()); }
    for _ in 0..8 { args.push((0..arity).map(|_| if p.chance(1, 2) { p.below(9) } else { ty.random(&mut p) }).collect()); }
    let spec = match spec_answers(drv, &c, &args) {
        Ok(s) => s,
        Err(e) => { rep.mismatch("Lean spec rejects a T5 class representative", json!({"case": ident, "error": e})); return; }
    };
    if let Some(s) = spec.iter().find(|s| s.starts_with("stuck")) {
        rep.mismatch("Lean spec is stuck on a T5 class representative", json!({"case": ident, "spec": s}));
        return;
    }
    if !t5_oracle(rep, drv, &c, &args, &spec, &ident) {
        rep.mismatch("a T5 class representative is outside the common fragment", json!({"case": ident}));
        return;
    }
    let comp = match compile_guarded(&c) {
        Ok(Ok(c)) => c,
        Ok(Err(e)) => { rep.mismatch("a T5 class representative does not compile", json!({"case": ident, "error": e.chars().take(1500).collect::<String>()})); return; }
        Err(p) => { rep.violation("the compiler panicked on a well-typed program", "compiler-panic", json!({"case": ident, "panic": p})); return; }
    };
    if let Some((i, s, j)) = first_difference(&c, &comp, &args, &spec) {
        rep.violation(
            "the compiled function returns a value different from the language-defined result (Lean Spec)",
            &format!("control-flow t5corpus {name}"),
            json!({"src": src, "sexp": sx, "ty": ty.name(), "arity": arity, "ret": ret.name(), "args": args[i], "spec": s, "jit_bits": j}),
        );
        return;
    }
    let mut ok = true;
    if ir {
        let names: Vec<String> = prog.fns.iter().map(|f| f.name.clone()).collect();
        ok = mirtie::compare_mir(rep, drv, &src, &sx, &names, &ident) == names.len() as u64;
    }
    if lirtie::compare_lir(rep, drv, &src, &ident, Some((ty.name(), &args, &spec))) != prog.fns.len() as u64 { ok = false; }
    if ok && spec.iter().any(|s| s.starts_with("ok")) { rep.class(format!("t5corpus:{name}")); }
    rep.hist("t5-class-representatives", if ok { "agree" } else { "DIFFERENT" });
}

/// One class representative of the differential run (`c01/classcorpus.rs`): the Lean Spec, the
/// harness interpreter (third voice) and the JIT on every argument tuple of the representative.
fn check_class_rep(rep: &mut Report, drv: &mut Driver, r: &classcorpus::Rep) {
    let (src, sx) = (r.source(), sexp(&r.prog));
    let arity = r.prog.main().params.len();
    let c = Case { src: &src, sexp: &sx, ty: r.ty, arity, ret: r.ret };
    let ident = json!({"class_representative": r.name, "src": src, "sexp": sx, "ty": r.ty.name(), "arity": arity, "ret": r.ret.name()});
    let family = r.name.split('/').next().unwrap_or("class").to_string();
    let spec = match spec_answers(drv, &c, &r.args) {
        Ok(s) => s,
        Err(e) => { rep.mismatch("Lean spec rejects a class representative", json!({"case": ident, "error": e})); return; }
    };
    if let Some(s) = spec.iter().find(|s| s.starts_with("stuck") || s.starts_with("bad")) {
        rep.mismatch("Lean spec is stuck on a class representative", json!({"case": ident, "spec": s}));
        return;
    }
    let mut outcomes: BTreeSet<String> = BTreeSet::new();
    for (a, s) in r.args.iter().zip(&spec) {
        rep.evaluations += 1;
        let mut it = Interp::new(&r.prog);
        let mine = match it.run_main(a) {
            Ok(v) => { let (t, b) = v_bits(&v); format!("ok {t} {}", canon(t, b)) }
            Err(Stop::Trap) => "trap".into(),
            Err(Stop::Fuel) => "fuel".into(),
            Err(Stop::Stuck(w)) => format!("stuck {w}"),
            Err(Stop::Ret(_)) => "stuck ret".into(),
        };
        let theirs = match parse_ok(s) { Some((t, b)) => format!("ok {t} {b}"), None => s.clone() };
        if mine != theirs {
            rep.mismatch("harness interpreter and Lean spec disagree on a class representative", json!({"case": ident, "args": a, "spec": s, "harness": mine}));
            return;
        }
        for o in &it.st.match_outcomes { rep.hist("match-outcomes(class representatives)", *o); }
        outcomes.insert(theirs);
    }
    let comp = match compile_guarded(&c) {
        Ok(Ok(c)) => c,
        Ok(Err(e)) => { rep.mismatch("a class representative does not compile", json!({"case": ident, "error": e.chars().take(1500).collect::<String>()})); return; }
        Err(p) => { rep.violation("the compiler panicked on a well-typed program", &format!("compiler-panic {}", r.key), json!({"case": ident, "panic": p})); return; }
    };
    if let Some((i, s, j)) = first_difference(&c, &comp, &r.args, &spec) {
        let differing = r.args.iter().zip(&spec).filter(|(a, s)| first_difference(&c, &comp, &[(*a).clone()], &[(*s).clone()]).is_some()).count();
        rep.violation(
            "the compiled function returns a value different from the language-defined result (Lean Spec)",
            &r.key,
            json!({"src": src, "sexp": sx, "ty": r.ty.name(), "arity": arity, "ret": r.ret.name(), "args": r.args[i], "spec": s, "jit_bits": j,
                   "class_representative": r.name, "differing_tuples": differing, "tuples": r.args.len()}),
        );
        rep.hist(&format!("class-representatives {family}"), "DIFFERENT");
        return;
    }
    rep.hist(&format!("class-representatives {family}"), "agree");
    // a class: the representative, with the number of distinct results it was observed with
    rep.class(format!("rep:{}|{}", r.name, outcomes.len().min(9)));
}

fn fnv(s: &str) -> u64 {
    let mut h: u64 = 0xcbf29ce484222325;
    for b in s.bytes() { h ^= b as u64; h = h.wrapping_mul(0x100000001b3); }
    h
}

// ------------------------------------------------- exhaustive operator table

fn table(rep: &mut Report, drv: &mut Driver, prng: &mut Prng, tyidx: usize, extra: usize) {
    let ty = generator::all_tys()[tyidx];
    let bd = ty.boundary();
    let mut inputs: Vec<Vec<u64>> = vec![];
    for &a in &bd { for &b in &bd { inputs.push(vec![a, b]); } }
    if ty != STy::Bool { for _ in 0..extra { inputs.push(vec![ty.random(prng), ty.random(prng)]); } }
    for op in ALL_OPS {
        if !op.applies(ty) { continue; }
        let ret = if op.is_arith() { ty } else { STy::Bool };
        let src = format!("fn main(a: {t}, b: {t}) -> {r} {{ a {o} b }}", t = ty.name(), r = ret.name(), o = op.sym());
        let c = Case { src: &src, sexp: "", ty, arity: 2, ret };
        let comp = match compile_guarded(&c) {
            Ok(Ok(c)) => c,
            other => {
                rep.mismatch("operator program does not compile", json!({"src": src, "error": format!("{:?}", other.err())}));
                continue;
            }
        };
        let reqs: Vec<String> = inputs.iter().map(|i| format!("c01 op {} {} {} {}", op.name(), ty.name(), i[0], i[1])).collect();
        let answers = drv.ask_all(&reqs);
        for (inp, ans) in inputs.iter().zip(&answers) {
            rep.evaluations += 1;
            let outcome = match parse_ok(ans) {
                Some((t, b)) => {
                    let j = canon(ret.name(), (comp.call)(inp));
                    if t == ret.name() && j == b { "agree" } else {
                        rep.violation(
                            "the compiled operator returns a value different from the language-defined result (Lean Spec)",
                            &format!("binop {} {}", op.sym(), ty.name()),
                            json!({"src": src, "sexp": format!("(prog (fn main ((a {t}) (b {t})) {r} (blk () (bin {o} (var a) (var b)))))", t = ty.name(), r = ret.name(), o = op.name()),
                                   "ty": ty.name(), "arity": 2, "ret": ret.name(), "args": inp, "spec": ans, "jit_bits": j}),
                        );
                        "DIFFERENT"
                    }
                }
                None if ans == "trap" => "spec-trap(jit not run)",
                None => { rep.mismatch("spec answer not understood", json!({"src": src, "args": inp, "answer": ans})); "?" }
            };
            rep.class(format!("table|{}|{}|{}", ty.name(), op.sym(), outcome));
            rep.hist("table-outcome", outcome);
        }
    }
    // unary operators
    let un: Vec<(&str, &str)> = if ty == STy::Bool { vec![("!", "not")] } else if ty.signed() || ty.is_float() { vec![("-", "neg")] } else { vec![] };
    for (sym, name) in un {
        let src = format!("fn main(a: {t}) -> {t} {{ {sym}a }}", t = ty.name());
        let c = Case { src: &src, sexp: "", ty, arity: 1, ret: ty };
        let comp = match compile_guarded(&c) {
            Ok(Ok(c)) => c,
            other => { rep.mismatch("operator program does not compile", json!({"src": src, "error": format!("{:?}", other.err())})); continue; }
        };
        let mut ins: Vec<u64> = bd.clone();
        if ty != STy::Bool { for _ in 0..extra { ins.push(ty.random(prng)); } }
        let reqs: Vec<String> = ins.iter().map(|a| format!("c01 un {name} {} {a}", ty.name())).collect();
        let answers = drv.ask_all(&reqs);
        for (a, ans) in ins.iter().zip(&answers) {
            rep.evaluations += 1;
            let ok = match parse_ok(ans) { Some((t, b)) => t == ty.name() && canon(ty.name(), (comp.call)(&[*a])) == b, None => false };
            if !ok {
                rep.violation(
                    "the compiled operator returns a value different from the language-defined result (Lean Spec)",
                    &format!("unop {name} {}", ty.name()),
                    json!({"src": src, "sexp": format!("(prog (fn main ((a {t})) {t} (blk () ({name} (var a)))))", t = ty.name()),
                           "ty": ty.name(), "arity": 1, "ret": ty.name(), "args": [a], "spec": ans}),
                );
            }
            rep.class(format!("table|{}|{}|{}", ty.name(), name, if ok { "agree" } else { "DIFFERENT" }));
            rep.hist("table-outcome", if ok { "agree" } else { "DIFFERENT" });
        }
    }
}


// ------------------------------------------------- `char` parameters and results of `main`

/// `main` whose parameters are all `char` and whose result is `char` or `bool`, callable on code points
fn compile_char_main(src: &str, arity: usize, ret_char: bool) -> Result<Callable, String> {
    let rt: &'static Runtime<roto::NoCtx> = Box::leak(Box::new(Runtime::new()));
    let tree = FileTree::test_file("c01.roto", src, 0);
    let mir = lower_to_mir(tree, rt).map_err(|e| format!("{e}"))?;
    let mut pkg = mir.lower_to_lir().codegen();
    fn ch(b: u64) -> char { char::from_u32(b as u32).expect("a scalar value") }
    let call: Callable = match (arity, ret_char) {
        (1, true) => { let f = pkg.get_function::<fn(char) -> char>("main").map_err(|e| format!("{e:?}"))?; Box::new(move |a| f.call(ch(a[0])) as u32 as u64) }
        (1, false) => { let f = pkg.get_function::<fn(char) -> bool>("main").map_err(|e| format!("{e:?}"))?; Box::new(move |a| f.call(ch(a[0])) as u64) }
        (2, true) => { let f = pkg.get_function::<fn(char, char) -> char>("main").map_err(|e| format!("{e:?}"))?; Box::new(move |a| f.call(ch(a[0]), ch(a[1])) as u32 as u64) }
        (2, false) => { let f = pkg.get_function::<fn(char, char) -> bool>("main").map_err(|e| format!("{e:?}"))?; Box::new(move |a| f.call(ch(a[0]), ch(a[1])) as u64) }
        (3, true) => { let f = pkg.get_function::<fn(char, char, char) -> char>("main").map_err(|e| format!("{e:?}"))?; Box::new(move |a| f.call(ch(a[0]), ch(a[1]), ch(a[2])) as u32 as u64) }
        (3, false) => { let f = pkg.get_function::<fn(char, char, char) -> bool>("main").map_err(|e| format!("{e:?}"))?; Box::new(move |a| f.call(ch(a[0]), ch(a[1]), ch(a[2])) as u64) }
        _ => return Err("arity unsupported".into()),
    };
    Box::leak(Box::new(pkg));
    Ok(call)
}

fn compile_char_guarded(src: &str, arity: usize, ret_char: bool) -> Result<Result<Callable, String>, String> {
    catch_unwind(AssertUnwindSafe(|| compile_char_main(src, arity, ret_char))).map_err(|e| {
        if let Some(s) = e.downcast_ref::<String>() { s.clone() } else if let Some(s) = e.downcast_ref::<&str>() { s.to_string() } else { "panic".to_string() }
    })
}

/// boundary code points: around the 7/8-bit, 8/9-bit, 16/17-bit borders, both sides of the surrogate gap, the maximum
const CHAR_BOUNDARY: [u64; 14] = [0, 0x61, 0x7F, 0x80, 0xFF, 0x100, 0x161, 0xD7FF, 0xE000, 0xFFFF, 0x10000, 0x10061, 0x1F600, 0x10FFFF];

/// `char` as parameter and result type of the called function: `==`, `!=`, identity, selection, comparison with a
/// literal, on every pair / triple of boundary code points. Oracle: the Lean Spec on the same program over `u32`.
fn char_args(rep: &mut Report, drv: &mut Driver) {
    let progs: Vec<(&str, &str, &str, usize, bool)> = vec![
        ("a == b", "fn main(a: char, b: char) -> bool { a == b }", "(prog (fn main ((a u32) (b u32)) bool (blk () (bin eq (var a) (var b)))))", 2, false),
        ("a != b", "fn main(a: char, b: char) -> bool { a != b }", "(prog (fn main ((a u32) (b u32)) bool (blk () (bin ne (var a) (var b)))))", 2, false),
        ("a", "fn main(a: char) -> char { a }", "(prog (fn main ((a u32)) u32 (blk () (var a))))", 1, true),
        ("b", "fn main(a: char, b: char) -> char { b }", "(prog (fn main ((a u32) (b u32)) u32 (blk () (var b))))", 2, true),
        ("a == 'a'", "fn main(a: char) -> bool { a == 'a' }", "(prog (fn main ((a u32)) bool (blk () (bin eq (var a) (lit u32 97)))))", 1, false),
        ("if a == b { c } else { a }", "fn main(a: char, b: char, c: char) -> char { if a == b { c } else { a } }",
         "(prog (fn main ((a u32) (b u32) (c u32)) u32 (blk () (if (bin eq (var a) (var b)) (blk () (var c)) (blk () (var a))))))", 3, true),
        ("a != b && b != c", "fn main(a: char, b: char, c: char) -> bool { a != b && b != c }",
         "(prog (fn main ((a u32) (b u32) (c u32)) bool (blk () (bin and (bin ne (var a) (var b)) (bin ne (var b) (var c))))))", 3, false),
    ];
    let bd = CHAR_BOUNDARY;
    for (name, src, sx, arity, ret_char) in progs {
        let mut args: Vec<Vec<u64>> = vec![];
        match arity {
            1 => for x in bd { args.push(vec![x]); },
            2 => for x in bd { for y in bd { args.push(vec![x, y]); } },
            _ => {
                for (i, x) in bd.iter().enumerate() { for (j, y) in bd.iter().enumerate() { args.push(vec![*x, *y, bd[(i + 2 * j + 1) % bd.len()]]); } }
                for x in bd { for z in bd { args.push(vec![x, x, z]); } }
            }
        }
        let ret = if ret_char { STy::U32 } else { STy::Bool };
        let c = Case { src, sexp: sx, ty: STy::U32, arity, ret };
        let spec = match spec_answers(drv, &c, &args) {
            Ok(s) => s,
            Err(e) => { rep.mismatch("Lean spec rejects a char-argument program", json!({"src": src, "sexp": sx, "error": e})); continue; }
        };
        let call = match compile_char_guarded(src, arity, ret_char) {
            Ok(Ok(c)) => c,
            Ok(Err(e)) => { rep.mismatch("a char-argument program does not compile", json!({"src": src, "error": e.chars().take(1000).collect::<String>()})); continue; }
            Err(p) => { rep.violation("the compiler panicked on a well-typed program", &format!("compiler-panic char-arg {name}"), json!({"src": src, "panic": p})); continue; }
        };
        let mut bad = false;
        for (a, s) in args.iter().zip(&spec) {
            rep.evaluations += 1;
            let Some((t, b)) = parse_ok(s) else { rep.mismatch("spec answer not understood", json!({"src": src, "args": a, "answer": s})); bad = true; break; };
            let j = canon(ret.name(), call(a));
            if t != ret.name() || j != b {
                rep.violation(
                    "the compiled function returns a value different from the language-defined result (Lean Spec)",
                    &format!("char-arg {name}"),
                    json!({"src": src, "sexp": sx, "char_main": true, "ty": "u32", "arity": arity, "ret": ret.name(), "args": a, "spec": s, "jit_bits": j,
                           "note": "parameters (and a u32 result) are `char`; args are code points"}),
                );
                bad = true;
                break;
            }
        }
        rep.hist("class-representatives char-args", if bad { "DIFFERENT" } else { "agree" });
        if !bad { rep.class(format!("rep:char-arg/{name}")); }
    }
}

// -------------------------------------------------------------------- main

fn replay_one(rep: &mut Report, drv: &mut Driver, v: &Value) {
    let src = v["src"].as_str().unwrap();
    let sx = v["sexp"].as_str().unwrap();
    let ty = parse_ty(v["ty"].as_str().unwrap());
    let ret = parse_ty(v["ret"].as_str().unwrap());
    let args: Vec<u64> = v["args"].as_array().unwrap().iter().map(|x| x.as_u64().unwrap()).collect();
    let c = Case { src, sexp: sx, ty, arity: args.len(), ret };
    println!("source:\n{src}");
    let spec = spec_answers(drv, &c, &[args.clone()]).expect("spec accepts the program");
    println!("args = {args:?}\nspec = {}", spec[0]);
    rep.evaluations = 1;
    if v.get("char_main").and_then(|b| b.as_bool()).unwrap_or(false) {
        match compile_char_guarded(src, args.len(), ret == STy::U32) {
            Ok(Ok(call)) => {
                if let Some((t, b)) = parse_ok(&spec[0]) {
                    let j = canon(ret.name(), call(&args));
                    println!("jit  = ok {} {j}", ret.name());
                    if t != ret.name() || j != b {
                        rep.violation("the compiled function returns a value different from the language-defined result (Lean Spec)", "replay", v.clone());
                    }
                }
            }
            Ok(Err(e)) => { println!("does not compile: {e}"); rep.mismatch("replayed program does not compile", v.clone()); }
            Err(p) => { println!("compiler panic: {p}"); rep.violation("the compiler panicked on a well-typed program", "compiler-panic", v.clone()); }
        }
        return;
    }
    match compile_guarded(&c) {
        Ok(Ok(comp)) => {
            if let Some((t, b)) = parse_ok(&spec[0]) {
                std::io::stdout().flush().ok();
                let j = canon(ret.name(), (comp.call)(&args));
                println!("jit  = ok {} {j}", ret.name());
                if t != ret.name() || j != b {
                    rep.violation("the compiled function returns a value different from the language-defined result (Lean Spec)", "replay", v.clone());
                }
            } else {
                println!("jit not run (the spec yields no value)");
            }
        }
        Ok(Err(e)) => { println!("does not compile: {e}"); rep.mismatch("replayed program does not compile", v.clone()); }
        Err(p) => { println!("compiler panic: {p}"); rep.violation("the compiler panicked on a well-typed program", "compiler-panic", v.clone()); }
    }
}

fn main() {
    let args: Vec<String> = std::env::args().collect();
    let mut rep = Report::default();
    match args.get(1).map(|s| s.as_str()) {
        Some("run") => {
            let seed: u64 = args.get(2).and_then(|s| s.parse().ok()).unwrap_or(1);
            let thorough = args.get(3).map(|s| s == "thorough").unwrap_or(false);
            let seed_s = seed.to_string();
            let ntys = generator::all_tys().len() as u64;
            let extra = if thorough { "1500" } else { "60" };
            // class representatives of the differential run first (seed-independent), in workers
            for family in ["match", "match-order", "float", "char", "for"] {
                let (ended, out) = run_worker_keep_stdout(&["classcorpus", family], Duration::from_secs(300));
                if let Some(v) = Report::parse_stdout(&out) { rep.merge_json(&v); }
                if !matches!(ended, Ended::Exit(0, _)) {
                    let last = out.lines().rev().find(|l| l.starts_with("START ")).unwrap_or("").to_string();
                    let name = last.strip_prefix("START classcorpus ").unwrap_or("").to_string();
                    let reps = match family { "match" => classcorpus::match_corpus(), "match-order" => classcorpus::order_corpus(), "char" => classcorpus::char_corpus(), "for" => classcorpus::for_corpus(), _ => classcorpus::float_corpus() };
                    let input = match reps.iter().find(|r| r.name == name) {
                        Some(r) => json!({"src": r.source(), "sexp": sexp(&r.prog), "ty": r.ty.name(), "arity": r.prog.main().params.len(),
                                          "ret": r.ret.name(), "args": r.args[0], "class_representative": r.name, "ended": format!("{ended:?}"),
                                          "note": "the process died or hung on one of the representative's argument tuples; args is the first tuple"}),
                        None => json!({"ended": format!("{ended:?}"), "last": last}),
                    };
                    rep.violation(
                        "process died or hung while compiling or running a class representative where the spec yields a value",
                        &format!("control-flow crash classcorpus {family}"),
                        input,
                    );
                }
            }
            run_batches(&["table", &seed_s, extra], ntys, 1, Duration::from_secs(600), &mut rep,
                |rep: &mut Report, idx: u64, how: &Ended| {
                    rep.violation(
                        "process died while running single-operator programs where the spec yields a value",
                        &format!("table crash {}", generator::all_tys()[idx as usize % 11].name()),
                        json!({"type_index": idx, "ended": format!("{how:?}"), "seed": seed}),
                    );
                });
            // class representatives of the T5 tie first (seed-independent), in a worker
            let (ended, out) = run_worker_keep_stdout(&["t5corpus"], Duration::from_secs(120));
            if let Some(v) = Report::parse_stdout(&out) { rep.merge_json(&v); }
            if !matches!(ended, Ended::Exit(0, _)) {
                rep.violation(
                    "process died or hung while compiling or running a class representative of the T5 fragment",
                    "control-flow crash t5corpus",
                    json!({"ended": format!("{ended:?}"), "last": out.lines().rev().find(|l| l.starts_with("START ")).unwrap_or("")}),
                );
            }
            let n: u64 = if thorough { 20_000 } else { 1_000 };
            let nfrag: u64 = if thorough { 6_000 } else { 300 };
            // like `worker::run_batches`, with a budget of crashes/hangs: a compiler that
            // miscompiles loops makes many programs hang, and one replay is enough
            let mut crashes = 0u32;
            let mut generated = 0u64;
            for (base, n) in [(0u64, n), (FRAG_BASE, nfrag)] {
                let mut from = base;
                while from < base + n && crashes < 4 {
                    let cnt = 50.min(base + n - from);
                    let (f, c) = (from.to_string(), cnt.to_string());
                    let (ended, out) = run_worker_keep_stdout(&["progs", &seed_s, &f, &c], Duration::from_secs(if crashes == 0 { 60 } else { 20 }));
                    if let Some(v) = Report::parse_stdout(&out) { rep.merge_json(&v); }
                    if matches!(ended, Ended::Exit(0, _)) {
                        from += cnt;
                        generated += cnt;
                        continue;
                    }
                    crashes += 1;
                    let idx = out.lines().rev().find_map(|l| l.strip_prefix("START ")).and_then(|s| s.trim().parse::<u64>().ok()).unwrap_or(from);
                    let (g, _) = generate(seed, idx);
                    rep.violation(
                        "process died or hung (trap/abort/timeout) while compiling or running a program on inputs where the spec yields a value",
                        "control-flow crash",
                        json!({"seed": seed, "index": idx, "src": source(&g.prog), "ended": format!("{ended:?}")}),
                    );
                    generated += idx + 1 - from;
                    from = idx + 1;
                }
            }
            if crashes >= 4 { rep.notes.push(format!("stopped after {crashes} crashes/hangs at program {generated} of {}", n + nfrag)); }
            let n = generated;
            rep.notes.push(format!("programs generated: {n} (of which {nfrag} requested in the T5 fragment, variables named by level, MIR compared with the real dump); T5 class representatives: {}; argument tuples per program: 30; operator table: boundary^2 + {extra} random per (type, operator)", t5corpus::corpus().len()));
        }
        Some("worker") => {
            // the compiler's ICEs are caught and reported; keep stderr quiet
            if std::env::var("C01_VERBOSE").is_err() { std::panic::set_hook(Box::new(|_| {})); }
            let mut drv = Driver::spawn().expect("lean driver");
            match args[2].as_str() {
                "table" => {
                    let seed: u64 = args[3].parse().unwrap();
                    let extra: usize = args[4].parse().unwrap();
                    let from: u64 = args[5].parse().unwrap();
                    println!("START {from}");
                    let mut prng = Prng::for_case(seed, 2_000_000 + from);
                    table(&mut rep, &mut drv, &mut prng, from as usize, extra);
                }
                "progs" => {
                    let seed: u64 = args[3].parse().unwrap();
                    let from: u64 = args[4].parse().unwrap();
                    let n: u64 = args[5].parse().unwrap();
                    for idx in from..from + n {
                        println!("START {idx}");
                        std::io::stdout().flush().ok();
                        let (g, a) = generate(seed, idx);
                        let before = rep.impl_violations.len() + rep.model_mismatches.len();
                        check_generated(&mut rep, &mut drv, &g, &a, seed, idx);
                        // a later program may hang or crash this worker: hand findings over at once
                        // (the parent reads the last report line)
                        if rep.impl_violations.len() + rep.model_mismatches.len() != before {
                            rep.emit();
                            std::io::stdout().flush().ok();
                        }
                    }
                }
                "classcorpus" => {
                    if args[3] == "char" {
                        println!("START classcorpus char-args");
                        std::io::stdout().flush().ok();
                        char_args(&mut rep, &mut drv);
                    }
                    let reps = match args[3].as_str() { "match" => classcorpus::match_corpus(), "match-order" => classcorpus::order_corpus(), "char" => classcorpus::char_corpus(), "for" => classcorpus::for_corpus(), _ => classcorpus::float_corpus() };
                    for r in &reps {
                        println!("START classcorpus {}", r.name);
                        std::io::stdout().flush().ok();
                        let before = rep.impl_violations.len() + rep.model_mismatches.len();
                        check_class_rep(&mut rep, &mut drv, r);
                        if rep.impl_violations.len() + rep.model_mismatches.len() != before {
                            rep.emit();
                            std::io::stdout().flush().ok();
                        }
                    }
                    rep.notes.push(format!("class representatives ({}): {}", args[3], reps.len()));
                }
                "t5corpus" => {
                    for (k, (name, prog, ty, ret, ir)) in t5corpus::corpus().into_iter().enumerate() {
                        println!("START t5corpus {name}");
                        std::io::stdout().flush().ok();
                        check_representative(&mut rep, &mut drv, name, &prog, ty, ret, ir, k as u64);
                    }
                }
                "replay1" => {
                    let v: Value = serde_json::from_str(&args[3]).expect("json");
                    replay_one(&mut rep, &mut drv, &v);
                }
                "regen" => {
                    let seed: u64 = args[3].parse().unwrap();
                    let idx: u64 = args[4].parse().unwrap();
                    let (g, a) = generate(seed, idx);
                    println!("{}", source(&g.prog));
                    std::io::stdout().flush().ok();
                    check_generated(&mut rep, &mut drv, &g, &a, seed, idx);
                }
                _ => std::process::exit(64),
            }
        }
        Some("replay") => {
            let v: Value = serde_json::from_str(&args[2]).expect("replay json");
            let v = if v.get("case").is_some() { v["case"].clone() } else { v };
            let ended = if v.get("sexp").is_some() {
                run_worker(&["replay1", &v.to_string()], Duration::from_secs(120))
            } else {
                let s = v["seed"].as_u64().expect("seed").to_string();
                let i = v["index"].as_u64().expect("index").to_string();
                run_worker(&["regen", &s, &i], Duration::from_secs(240))
            };
            match ended {
                Ended::Exit(0, out) => {
                    print!("{}", out.lines().filter(|l| !l.starts_with("HARNESS-REPORT")).collect::<Vec<_>>().join("\n"));
                    println!();
                    if let Some(r) = Report::parse_stdout(&out) { rep.merge_json(&r); }
                }
                other => {
                    println!("worker ended: {other:?}");
                    rep.evaluations = 1;
                    rep.violation("process died or hung while compiling or running the replayed program", "control-flow crash", v.clone());
                }
            }
        }
        Some("stages") => {
            // print every function of program `index` of run `seed` as MIR and as LIR (hook stage_pairs)
            let seed: u64 = args[2].parse().unwrap();
            let idx: u64 = args[3].parse().unwrap();
            let (g, _) = generate(seed, idx);
            let src = source(&g.prog);
            println!("{src}");
            let rt: &'static Runtime<roto::NoCtx> = Box::leak(Box::new(Runtime::new()));
            match roto::verif_hooks::c01::stage_pairs(FileTree::test_file("c01.roto", &src, 0), rt) {
                Ok(ps) => for p in ps {
                    println!("== {} tmp_idx={} returns_value={}", p.name, p.mir_tmp_idx, p.lir_returns_value);
                    println!("vars: {}", p.lir_vars.iter().map(|(v, t)| format!("{v}:{t}")).collect::<Vec<_>>().join(" "));
                    for (l, ins) in &p.mir { println!("  M{l}: {}", ins.join(" ; ")); }
                    for (l, ins) in &p.lir { println!("  L{l}: {}", ins.join(" ; ")); }
                },
                Err(e) => println!("error: {e}"),
            }
            return;
        }
        Some("show") => {
            let seed: u64 = args[2].parse().unwrap();
            let idx: u64 = args[3].parse().unwrap();
            let (g, a) = generate(seed, idx);
            let (src, sx) = (source(&g.prog), sexp(&g.prog));
            println!("{src}\n{sx}\nargs[0] = {:?}", a[0]);
            let c = Case { src: &src, sexp: &sx, ty: g.arg_ty, arity: g.arity, ret: g.ret };
            match compile_guarded(&c) {
                Ok(Ok(comp)) => println!("{}\npostcondition: {:?}", comp.mir, dce_postcondition(&comp.mir)),
                other => println!("compile: {:?}", other.err()),
            }
            return;
        }
        _ => {
            eprintln!("usage: c01 run <seed> <quick|thorough> | c01 replay <json> | c01 show <seed> <index>");
            std::process::exit(64);
        }
    }
    rep.emit();
}
