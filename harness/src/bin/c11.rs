//! C11 correspondence: histories of build-runtime / register / compile / get /
//! clone / call / drop on the real API, compared after every step with
//!  (a) the property itself (`Spec`: who still refers to what), and
//!  (b) the Lean model run on the same history (`c11 run …` of rotov-driver).
//!
//! Handles may be turned into `impl Fn` closures (`into_func`); scripts compiled
//! with the `ud` flag make `main`'s result depend on every kind of data the
//! compiled code refers to (string literals, f-string pieces, list literals,
//! script constants of String / List type); after every step the heap is
//! scribbled over so that freed-but-still-referenced bytes change.
//!
//! Tracked values come in two size classes: `Tk` (a tag and a payload) and the
//! zero-sized `Zs` / `Zr` / `Zf` (script constant / registered constant / the
//! only capture of a zero-sized registered closure), which own no memory but
//! have a `Drop` that must run exactly once all the same.  A runtime may carry
//! further registered closures (`rs:<r>`): two made by ONE closure expression
//! (same Rust type, separate captured state) and a zero-sized one.
//!
//! usage: c11 run <seed> <quick|thorough>
//!        c11 replay '<json {"history": "b:0 rc:0 …"}>'
//!        c11 worker <random|exh|one|vg> …      (crash-isolated children)
use roto::{Context, Ctx, FileTree, List, NoCtx, Package, RotoString, Runtime, TypedFunc, Val, library};
use std::net::IpAddr;
use rotov_harness::driver::Driver;
use rotov_harness::worker::{Ended, run_batches, run_worker_keep_stdout};
use rotov_harness::{Prng, Report};
use serde_json::json;
use std::collections::{BTreeMap, BTreeSet};
use std::sync::Mutex;
use std::sync::atomic::{AtomicU64, Ordering};

// ---------------------------------------------------------------- tracked type

static LIVE: Mutex<BTreeMap<u64, i64>> = Mutex::new(BTreeMap::new());
static BAD_DROPS: AtomicU64 = AtomicU64::new(0);
const POISON: u32 = 0xDEAD_0000;

#[derive(Debug, PartialEq)]
pub struct Tk {
    tag: u64,
    val: u32,
}
impl Tk {
    fn new(tag: u64, val: u32) -> Tk {
        *LIVE.lock().unwrap().entry(tag).or_insert(0) += 1;
        Tk { tag, val }
    }
}
impl Clone for Tk {
    fn clone(&self) -> Tk {
        Tk::new(self.tag, self.val)
    }
}
impl Drop for Tk {
    fn drop(&mut self) {
        if self.val == POISON {
            BAD_DROPS.fetch_add(1, Ordering::SeqCst);
        }
        *LIVE.lock().unwrap().entry(self.tag).or_insert(0) -= 1;
        unsafe { std::ptr::write_volatile(&mut self.val, POISON) };
    }
}
fn live_of(tag: u64) -> i64 {
    LIVE.lock().unwrap().get(&tag).copied().unwrap_or(0)
}

// ---- zero-sized tracked types (no room for a tag: one live counter per type)

macro_rules! zst_tracked {
    ($name:ident, $ctr:ident) => {
        static $ctr: std::sync::atomic::AtomicI64 = std::sync::atomic::AtomicI64::new(0);
        #[derive(Debug, PartialEq)]
        pub struct $name;
        impl $name {
            fn new() -> $name {
                $ctr.fetch_add(1, Ordering::SeqCst);
                $name
            }
        }
        impl Clone for $name {
            fn clone(&self) -> $name {
                $name::new()
            }
        }
        impl Drop for $name {
            fn drop(&mut self) {
                $ctr.fetch_sub(1, Ordering::SeqCst);
            }
        }
    };
}
zst_tracked!(Zs, ZS_LIVE); // type of zero-sized script constants
zst_tracked!(Zr, ZR_LIVE); // type of the zero-sized registered constant
zst_tracked!(Zf, ZF_LIVE); // the only capture of the zero-sized registered closure

/// a live-instance counter: per tag (sized values) or per zero-sized type
#[derive(Clone, Copy, Debug)]
enum Ctr {
    Tag(u64),
    Zs,
    Zr,
    Zf,
}
fn live_ctr(c: Ctr) -> i64 {
    match c {
        Ctr::Tag(t) => live_of(t),
        Ctr::Zs => ZS_LIVE.load(Ordering::SeqCst),
        Ctr::Zr => ZR_LIVE.load(Ordering::SeqCst),
        Ctr::Zf => ZF_LIVE.load(Ordering::SeqCst),
    }
}

fn tag_r(r: u32) -> u64 { 1_000_000 + r as u64 }
fn tag_d(r: u32) -> u64 { 5_000_000 + r as u64 }
fn val_d(r: u32) -> u32 { 90 + 11 * r }
fn tag_g(r: u32, j: u32) -> u64 { 4_000_000 + 10 * r as u64 + j as u64 }
fn val_g(r: u32, j: u32) -> u32 { 500 + 20 * r + 7 * j }
const VAL_GZ: u32 = 5;
fn tag_f(r: u32) -> u64 { 2_000_000 + r as u64 }
fn tag_s(k: u32, c: u32) -> u64 { 3_000_000 + 100 * k as u64 + c as u64 }
fn val_r(r: u32) -> u32 { 7 + r }
fn val_f(r: u32) -> u32 { 30 + 3 * r }
fn val_s(k: u32, c: u32) -> u32 { 100 * k + c + 1 }
fn tag_j(r: u32) -> u64 { 6_000_000 + r as u64 }
fn val_j(r: u32) -> u32 { 61 + 5 * r }

// ---- the many-constants class: constant i of version k has a type (by i % 8) and a value of its own
fn many_u64(k: u32, i: u32) -> u64 { 0x1111_0000_0000 + 0x0101 * i as u64 + 0x1_0000 * k as u64 }
fn many_u32(k: u32, i: u32) -> u32 { 3_000_000 + 1000 * k + 7 * i }
fn many_u8(k: u32, i: u32) -> u8 { ((3 * i + k + 1) % 251) as u8 }
fn many_i64(k: u32, i: u32) -> i64 { 0x2222_0000_0000 + 0x0303 * i as i64 + k as i64 }
fn many_bool(k: u32, i: u32) -> bool { (i / 8 + k) % 2 == 0 }
fn many_str(k: u32, i: u32) -> String { format!("many-constants string {i} of version {k} ............ {}", i * 37 + k) }
fn many_list(k: u32, i: u32) -> Vec<u32> { vec![i, k, i * i + 1, 77, 1000 + i] }
fn many_f64(k: u32, i: u32) -> f64 { 0.25 * (4 * i + k) as f64 + 1000.0 }
fn cv_u64(x: u64) -> u32 { (x % 99_991) as u32 }
fn cv_i64(x: i64) -> u32 { x.rem_euclid(99_989) as u32 }
fn cv_f64(x: f64) -> u32 { ((x * 4.0) as u64 % 99_971) as u32 }
/// what getter i (`gm<i>`) of version k returns
fn many_get(k: u32, i: u32) -> u32 {
    match i % 8 {
        0 => cv_u64(many_u64(k, i)),
        1 => many_u32(k, i) % 99_991,
        2 => many_u8(k, i) as u32,
        3 => cv_i64(many_i64(k, i)),
        4 => 10 + many_bool(k, i) as u32,
        5 => ssum_of(&many_str(k, i)),
        6 => lsum_of(&many_list(k, i)),
        _ => cv_f64(many_f64(k, i)),
    }
}
/// what the many-constants part of `main` adds up to: every getter, every third constant once more together with
/// an earlier one (`gn<i>`, a second reader generated later), and constant 0 read by `main` itself
fn many_value(k: u32, m: u32) -> u32 {
    let mut v = 0u32;
    for i in 0..m {
        v += many_get(k, i);
        if i % 3 == 0 {
            v += many_get(k, i) + many_get(k, i / 2);
        }
    }
    if m > 0 {
        v += many_get(k, 0);
    }
    v
}
/// source of the many-constants part: constant, its getter, (every third) a later second reader
fn many_source(k: u32, m: u32) -> String {
    let mut s = String::new();
    let cv = |i: u32| ["cvu64", "cvu32", "cvu8", "cvi64", "cvbool", "ssum", "lsum", "cvf64"][(i % 8) as usize];
    for i in 0..m {
        let (ty, lit) = match i % 8 {
            0 => ("u64", many_u64(k, i).to_string()),
            1 => ("u32", many_u32(k, i).to_string()),
            2 => ("u8", many_u8(k, i).to_string()),
            3 => ("i64", many_i64(k, i).to_string()),
            4 => ("bool", many_bool(k, i).to_string()),
            5 => ("String", format!("\"{}\"", many_str(k, i))),
            6 => ("List[u32]", roto_list(&many_list(k, i))),
            _ => ("f64", format!("{:?}", many_f64(k, i))),
        };
        s.push_str(&format!("const MC{i}: {ty} = {lit};\nfn gm{i}() -> u32 {{ {}(MC{i}) }}\n", cv(i)));
        if i % 3 == 0 {
            s.push_str(&format!("fn gn{i}() -> u32 {{ {}(MC{i}) + {}(MC{}) }}\n", cv(i), cv(i / 2), i / 2));
        }
    }
    s
}

// ---------------------------------------------------------------- histories

#[derive(Clone, Debug, PartialEq)]
enum Op {
    Build(u32),
    RegConst(u32),
    RegClos(u32),
    /// registers the further closures of runtime r: `sib0`, `sib1` (one closure expression, each its own
    /// captured `Tk`) and `sibz` (zero-sized: captures only a `Zf`)
    RegSibs(u32),
    /// `z` zero-sized script constants (model indices 0..z), then `n` sized ones (indices z..z+n);
    /// `us`: bit j set = the script calls further closure j of its runtime
    /// `m`: further script constants of small types (u64, u32, u8, i64, bool, String, List[u32], f64 in turn), each
    /// with a recognisable value of its own and a getter function declared right after it (so that code reading
    /// constant i is generated before constants i+1 … exist), read again by later functions and by `main`;
    /// `uk`: the script hands a List[String] it builds to the stashing closure of its runtime on every call
    Compile { r: u32, k: u32, n: u32, z: u32, uc: bool, uf: bool, ud: bool, us: u8, m: u32, uk: bool },
    /// registers the stashing closure of runtime r: its captured state (a tracked `Tk` and a journal) keeps the
    /// script-built `List<String>`s it is handed — values whose drop glue is generated code of the module that built them
    RegKeep(u32),
    Get(u32),
    /// `Package::get_tests`: the `TestCase` of the script's one test (wraps a handle; appended like `Get`)
    GetTest(u32),
    CloneH(usize),
    /// `TypedFunc::into_func`: handle i becomes an `impl Fn() -> u32` closure (same position)
    IntoFunc(usize),
    Call(usize),
    DropH(usize, bool),
    DropP(u32, bool),
    DropR(u32, bool),
}

// ---- data the compiled code refers to (flag `ud`)

/// checksum of a string's bytes (position-sensitive), what the host function `ssum` computes
fn ssum_of(s: &str) -> u32 {
    s.bytes().enumerate().fold(7u32, |a, (i, b)| a.wrapping_mul(31).wrapping_add(b as u32 ^ (i as u32 & 0xff))) % 100_000
}
fn lsum_of(l: &[u32]) -> u32 {
    l.iter().enumerate().fold(3u32, |a, (i, x)| a.wrapping_mul(17).wrapping_add(*x ^ i as u32)) % 100_000
}
fn lit_plain(k: u32) -> String { format!("literal of version {k}: 0123456789 abcdefghijklmnopqrstuvwxyz ABCDEFGHIJKLMNOPQRSTUVWXYZ") }
fn lit_short(k: u32) -> String { format!("v{k}") }
fn lit_const_a(k: u32) -> String { format!("constant string of version {k} / ") }
fn lit_const_b() -> String { "the quick brown fox jumps over the lazy dog".into() }
fn lit_f_a(k: u32) -> String { format!("f-string of version {k} starts here <") }
fn lit_f_b() -> String { "> and has a long tail that is a literal piece too".into() }
fn list_lit(k: u32) -> Vec<u32> { vec![3, 1, 4, 1, 5, 9, 2, 6, 5, 3, 5, k, 1000 + k] }
fn list_const(k: u32) -> Vec<u32> { vec![2, 7, 1, 8, 2, 8, k] }
/// IP address literals are emitted as raw initialiser bytes (`Initialize`)
fn ip_lits(k: u32) -> [String; 2] { [format!("10.{}.3.4", k % 250), format!("2001:db8:85a3::{:x}", 0x1000 + k)] }
fn ipsum_of(a: &IpAddr) -> u32 {
    let bytes: Vec<u8> = match a {
        IpAddr::V4(x) => x.octets().to_vec(),
        IpAddr::V6(x) => x.octets().to_vec(),
    };
    bytes.iter().enumerate().fold(11u32, |a, (i, b)| a.wrapping_mul(13).wrapping_add(*b as u32 ^ i as u32)) % 100_000
}
/// what the data part of `main` adds up to
/// (the List[Tk]-typed script constant's tracked element counts as script constant #n)
fn data_value(k: u32) -> u32 {
    let ss = format!("{}{}", lit_const_a(k), lit_const_b());
    ssum_of(&lit_plain(k))
        + ssum_of(&lit_short(k))
        + ssum_of(&ss)
        + ssum_of(&format!("{}{}{}", lit_f_a(k), ss, lit_f_b()))
        + lsum_of(&list_lit(k))
        + lsum_of(&list_const(k))
        + ip_lits(k).iter().map(|a| ipsum_of(&a.parse().unwrap())).sum::<u32>()
}

/// the value `main()` of that compilation is meant to return
fn value_of(r: u32, k: u32, n: u32, z: u32, uc: bool, uf: bool, ud: bool, us: u8, m: u32, uk: bool) -> u32 {
    let mut v = 1000 * k;
    for c in z..z + n {
        v += val_s(k, c);
    }
    if ud {
        v += data_value(k) + val_s(k, z + n);
    }
    // a registered closure the script uses is called by `main`, by an ordinary function, and by the initialiser
    // of a script constant generated after that function (which also calls the function): four calls in all
    for j in 0..2 {
        if us & (1 << j) != 0 {
            v += 4 * val_g(r, j);
        }
    }
    if us & 4 != 0 {
        v += VAL_GZ;
    }
    if uc {
        v += val_r(r) + val_d(r);
    }
    if uf {
        v += 4 * val_f(r);
    }
    v += many_value(k, m);
    if uk {
        v += val_j(r);
    }
    v
}

impl Op {
    fn lean(&self) -> String {
        match self {
            Op::Build(r) => format!("b:{r}"),
            Op::RegConst(r) => format!("rc:{r}"),
            Op::RegClos(r) => format!("rf:{r}"),
            Op::RegSibs(r) => format!("rs:{r}"),
            Op::RegKeep(r) => format!("rk:{r}"),
            Op::Compile { r, k, n, z, uc, uf, ud, us, m, uk } => format!(
                "c:{r}:{k}:{}:{z}:{}:{}:{}:{us}:{}",
                *z + *n + *ud as u32,
                *uc as u8,
                *uf as u8,
                *ud as u8,
                value_of(*r, *k, *n, *z, *uc, *uf, *ud, *us, *m, *uk)
            ),
            Op::Get(k) => format!("g:{k}"),
            Op::GetTest(k) => format!("gt:{k}"),
            Op::CloneH(i) => format!("ch:{i}"),
            Op::IntoFunc(i) => format!("if:{i}"),
            Op::Call(i) => format!("x:{i}"),
            Op::DropH(i, _) => format!("dh:{i}"),
            Op::DropP(k, _) => format!("dp:{k}"),
            Op::DropR(r, _) => format!("dr:{r}"),
        }
    }
    fn text(&self) -> String {
        let t = match self {
            Op::DropH(_, t) | Op::DropP(_, t) | Op::DropR(_, t) => *t,
            _ => false,
        };
        let extra = match self {
            Op::Compile { m, uk, .. } => format!("{}{}", if *m > 0 { format!("+m{m}") } else { String::new() }, if *uk { "+j" } else { "" }),
            _ => String::new(),
        };
        format!("{}{}{}", self.lean(), extra, if t { "@t" } else { "" })
    }
    /// the Lean model knows the operation (the stashing closure is the harness's own: its registration is not
    /// an operation of the model, a script that calls it is a compilation whose value says so)
    fn in_model(&self) -> bool {
        !matches!(self, Op::RegKeep(_))
    }
    fn parse(tok: &str) -> Option<Op> {
        let (body, t) = match tok.strip_suffix("@t") {
            Some(b) => (b, true),
            None => (tok, false),
        };
        // harness-only parts of a compilation (the Lean model sees them through the value only): `+m<count>`, `+j`
        let mut plus = body.split('+');
        let body = plus.next()?;
        let (mut m, mut uk) = (0u32, false);
        for x in plus {
            if x == "j" {
                uk = true;
            } else {
                m = x.strip_prefix('m')?.parse().ok()?;
            }
        }
        let p: Vec<&str> = body.split(':').collect();
        let n = |i: usize| -> Option<u32> { p.get(i)?.parse().ok() };
        Some(match (p[0], p.len()) {
            ("b", 2) => Op::Build(n(1)?),
            ("rc", 2) => Op::RegConst(n(1)?),
            ("rf", 2) => Op::RegClos(n(1)?),
            ("rs", 2) => Op::RegSibs(n(1)?),
            ("rk", 2) => Op::RegKeep(n(1)?),
            ("c", 6) | ("c", 7) => Op::Compile { r: n(1)?, k: n(2)?, n: n(3)?, z: 0, uc: n(4)? == 1, uf: n(5)? == 1, ud: false, us: 0, m: 0, uk: false },
            ("c", 8) => Op::Compile { r: n(1)?, k: n(2)?, n: n(3)?.checked_sub(n(6)?)?, z: 0, uc: n(4)? == 1, uf: n(5)? == 1, ud: n(6)? == 1, us: 0, m: 0, uk: false },
            ("c", 10) => Op::Compile {
                r: n(1)?,
                k: n(2)?,
                n: n(3)?.checked_sub(n(7)?)?.checked_sub(n(4)?)?,
                z: n(4)?,
                uc: n(5)? == 1,
                uf: n(6)? == 1,
                ud: n(7)? == 1,
                us: (n(8)? & 7) as u8,
                m,
                uk,
            },
            ("if", 2) => Op::IntoFunc(n(1)? as usize),
            ("g", 2) => Op::Get(n(1)?),
            ("gt", 2) => Op::GetTest(n(1)?),
            ("ch", 2) => Op::CloneH(n(1)? as usize),
            ("x", 2) => Op::Call(n(1)? as usize),
            ("dh", 2) => Op::DropH(n(1)? as usize, t),
            ("dp", 2) => Op::DropP(n(1)?, t),
            ("dr", 2) => Op::DropR(n(1)?, t),
            _ => return None,
        })
    }
    fn kind(&self) -> &'static str {
        match self {
            Op::Build(_) => "build",
            Op::RegConst(_) => "reg-const",
            Op::RegClos(_) => "reg-closure",
            Op::RegSibs(_) => "reg-siblings",
            Op::RegKeep(_) => "reg-stash",
            Op::Compile { .. } => "compile",
            Op::Get(_) => "get",
            Op::GetTest(_) => "get-test",
            Op::CloneH(_) => "clone",
            Op::IntoFunc(_) => "into-func",
            Op::Call(_) => "call",
            Op::DropH(_, false) => "drop-handle",
            Op::DropH(_, true) => "drop-handle@thread",
            Op::DropP(_, false) => "drop-package",
            Op::DropP(_, true) => "drop-package@thread",
            Op::DropR(_, false) => "drop-runtime",
            Op::DropR(_, true) => "drop-runtime@thread",
        }
    }
}

fn hist_text(h: &[Op]) -> String {
    h.iter().map(|o| o.text()).collect::<Vec<_>>().join(" ")
}
fn parse_hist(s: &str) -> Option<Vec<Op>> {
    s.split_whitespace().map(Op::parse).collect()
}

// ---------------------------------------------------------------- the property, as a tracker

#[derive(Clone, Debug)]
struct Info {
    r: u32,
    n: u32,
    z: u32,
    us: u8,
    uc: bool,
    uf: bool,
    ud: bool,
    uk: bool,
    value: u32,
}

/// Who is alive and who refers to what — the property's own vocabulary
/// (no reference counts, no field orders).
#[derive(Clone, Default)]
struct Spec {
    rts: BTreeSet<u32>,
    built: BTreeSet<u32>,
    has_const: BTreeSet<u32>,
    has_clos: BTreeSet<u32>,
    const_ever: BTreeSet<u32>,
    clos_ever: BTreeSet<u32>,
    has_sibs: BTreeSet<u32>,
    sibs_ever: BTreeSet<u32>,
    has_keep: BTreeSet<u32>,
    keep_ever: BTreeSet<u32>,
    compiled: BTreeMap<u32, Info>,
    pkgs: Vec<u32>,
    hs: Vec<u32>,
    /// parallel to `hs`: 0 = handle, 1 = closure made by into_func, 2 = TestCase (1, 2: cannot be cloned or converted)
    kind: Vec<u8>,
}

impl Spec {
    fn valid(&self, op: &Op) -> bool {
        match op {
            Op::Build(r) => !self.built.contains(r),
            Op::RegConst(r) => self.rts.contains(r) && !self.const_ever.contains(r),
            Op::RegClos(r) => self.rts.contains(r) && !self.clos_ever.contains(r),
            Op::RegSibs(r) => self.rts.contains(r) && !self.sibs_ever.contains(r),
            Op::RegKeep(r) => self.rts.contains(r) && !self.keep_ever.contains(r),
            Op::Compile { r, k, uc, uf, us, uk, .. } => {
                self.rts.contains(r)
                    && (!uk || self.has_keep.contains(r))
                    && !self.compiled.contains_key(k)
                    && (!uc || self.has_const.contains(r))
                    && (!uf || self.has_clos.contains(r))
                    && (*us == 0 || self.has_sibs.contains(r))
            }
            Op::Get(k) | Op::GetTest(k) | Op::DropP(k, _) => self.pkgs.contains(k),
            Op::Call(i) | Op::DropH(i, _) => *i < self.hs.len(),
            Op::CloneH(i) | Op::IntoFunc(i) => *i < self.hs.len() && self.kind[*i] == 0,
            Op::DropR(r, _) => self.rts.contains(r),
        }
    }
    fn apply(&mut self, op: &Op) {
        match op {
            Op::Build(r) => {
                self.rts.insert(*r);
                self.built.insert(*r);
            }
            Op::RegConst(r) => {
                self.has_const.insert(*r);
                self.const_ever.insert(*r);
            }
            Op::RegClos(r) => {
                self.has_clos.insert(*r);
                self.clos_ever.insert(*r);
            }
            Op::RegSibs(r) => {
                self.has_sibs.insert(*r);
                self.sibs_ever.insert(*r);
            }
            Op::RegKeep(r) => {
                self.has_keep.insert(*r);
                self.keep_ever.insert(*r);
            }
            Op::Compile { r, k, n, z, uc, uf, ud, us, m, uk } => {
                self.compiled.insert(
                    *k,
                    Info { r: *r, n: *n, z: *z, us: *us, uc: *uc, uf: *uf, ud: *ud, uk: *uk, value: value_of(*r, *k, *n, *z, *uc, *uf, *ud, *us, *m, *uk) },
                );
                self.pkgs.push(*k);
            }
            Op::Get(k) => {
                self.hs.push(*k);
                self.kind.push(0);
            }
            Op::GetTest(k) => {
                self.hs.push(*k);
                self.kind.push(2);
            }
            Op::CloneH(i) => {
                self.hs.push(self.hs[*i]);
                self.kind.push(0);
            }
            Op::IntoFunc(i) => self.kind[*i] = 1,
            Op::Call(_) => {}
            Op::DropH(i, _) => {
                self.hs.remove(*i);
                self.kind.remove(*i);
            }
            Op::DropP(k, _) => {
                let i = self.pkgs.iter().position(|x| x == k).unwrap();
                self.pkgs.remove(i);
            }
            Op::DropR(r, _) => {
                self.rts.remove(r);
                self.has_const.remove(r);
                self.has_clos.remove(r);
                self.has_sibs.remove(r);
                self.has_keep.remove(r);
            }
        }
    }
    /// Would `op` leave the state of a stashing closure alive (held by its runtime, or by another module) after
    /// the last package / handle of a version whose script handed it lists is gone?  Those lists carry drop glue
    /// that is code of that version; what becomes of values that outlive every handle and package of their
    /// module is not C11's subject (no handle or package refers to them), so generated histories keep clear of it:
    /// a version that stashes is released after the runtime, and a runtime has one such version at a time.
    fn stash_hazard(&self, op: &Op) -> bool {
        let mut s2 = self.clone();
        if !s2.valid(op) {
            return false;
        }
        if let Op::Compile { r, uk: true, .. } = op {
            if self.compiled.values().any(|i| i.r == *r && i.uk) {
                return true;
            }
        }
        s2.apply(op);
        s2.compiled.iter().any(|(k, i)| i.uk && !s2.referred(*k) && self.referred(*k) && s2.has_keep.contains(&i.r))
    }
    /// a package or a handle of version k is still around
    fn referred(&self, k: u32) -> bool {
        self.pkgs.contains(&k) || self.hs.contains(&k)
    }
    /// allowed live counts of every tracked resource: (counter, name, min, max, the Lean model predicts it too)
    fn expected_live(&self) -> Vec<(Ctr, String, i64, i64, bool)> {
        let mut out = vec![];
        let (mut rz_min, mut rz_max) = (0, 0);
        for r in &self.const_ever {
            let needed = self.has_const.contains(r)
                || self.compiled.iter().any(|(k, i)| i.r == *r && i.uc && self.referred(*k));
            // a module may keep a registered constant it does not read; that is not "too early"
            let may = needed || self.compiled.iter().any(|(k, i)| i.r == *r && self.referred(*k));
            out.push((Ctr::Tag(tag_r(*r)), format!("R{r}"), needed as i64, may as i64, true));
            // the second registered constant of the SAME type (registered and read together with the first)
            out.push((Ctr::Tag(tag_d(*r)), format!("RD{r}"), needed as i64, may as i64, false));
            rz_min += needed as i64;
            rz_max += may as i64;
        }
        if !self.const_ever.is_empty() {
            // the zero-sized registered constants (one per `rc`), all runtimes together
            out.push((Ctr::Zr, "RZ".into(), rz_min, rz_max, false));
        }
        for r in &self.clos_ever {
            let needed = self.has_clos.contains(r)
                || self.compiled.iter().any(|(k, i)| i.r == *r && i.uf && self.referred(*k));
            let may = needed || self.compiled.iter().any(|(k, i)| i.r == *r && self.referred(*k));
            out.push((Ctr::Tag(tag_f(*r)), format!("F{r}"), needed as i64, may as i64, true));
        }
        let (mut z_any, mut z_live) = (false, 0);
        for (k, i) in &self.compiled {
            // with `ud`, the constant after the sized ones is the tracked element of the List-typed script constant
            for c in i.z..i.z + i.n + i.ud as u32 {
                let a = self.referred(*k) as i64;
                out.push((Ctr::Tag(tag_s(*k, c)), format!("S{k}.{c}"), a, a, true));
            }
            z_any |= i.z > 0;
            z_live += i.z as i64 * self.referred(*k) as i64;
        }
        if z_any {
            // zero-sized script constants of all versions together
            out.push((Ctr::Zs, "Z".into(), z_live, z_live, true));
        }
        let (mut gz_min, mut gz_max) = (0, 0);
        for r in &self.sibs_ever {
            let calls = |j: u32| self.compiled.iter().any(|(k, i)| i.r == *r && i.us & (1 << j) != 0 && self.referred(*k));
            let any = self.compiled.iter().any(|(k, i)| i.r == *r && self.referred(*k));
            for j in 0..2 {
                let needed = self.has_sibs.contains(r) || calls(j);
                out.push((Ctr::Tag(tag_g(*r, j)), format!("G{r}.{j}"), needed as i64, (needed || any) as i64, true));
            }
            let needed = self.has_sibs.contains(r) || calls(2);
            gz_min += needed as i64;
            gz_max += (needed || any) as i64;
        }
        if !self.sibs_ever.is_empty() {
            out.push((Ctr::Zf, "GZ".into(), gz_min, gz_max, true));
        }
        for r in &self.keep_ever {
            // the state of the stashing closure (not an object of the Lean model)
            let needed = self.has_keep.contains(r) || self.compiled.iter().any(|(k, i)| i.r == *r && i.uk && self.referred(*k));
            let may = needed || self.compiled.iter().any(|(k, i)| i.r == *r && self.referred(*k));
            out.push((Ctr::Tag(tag_j(*r)), format!("J{r}"), needed as i64, may as i64, false));
        }
        // the order the Lean driver prints them in: R, F, S, Z, G<r>.<j>, GZ
        let rank = |n: &str| match (&n[..1], n) {
            (_, "RZ") => 1,
            _ if n.starts_with("RD") => 1,
            ("R", _) => 0,
            ("F", _) => 2,
            ("S", _) => 3,
            (_, "Z") => 4,
            (_, "GZ") => 6,
            ("J", _) => 7,
            _ => 5,
        };
        out.sort_by_key(|e| rank(&e.1));
        out
    }
}

// ---------------------------------------------------------------- the real thing

type Handle = TypedFunc<NoCtx, fn() -> u32>;
type HandleCx = TypedFunc<Ctx<Cx>, fn() -> u32>;

/// Runtimes with an odd id are built with a context type: their packages,
/// handles and `into_func` closures are the `Ctx<C>` instantiations of the API
/// (the scripts do not read the context).
#[derive(Clone, Context)]
struct Cx {
    pub cxn: u32,
}
fn is_cx(r: u32) -> bool { r % 2 == 1 }

enum Rt {
    No(Runtime<NoCtx>),
    Cx(Runtime<Ctx<Cx>>),
}
enum Pkg {
    No(Package<NoCtx>),
    Cx(Package<Ctx<Cx>>),
}

struct SendIt<T>(T);
// SAFETY: used only to move a value to a thread that drops it while the
// spawning thread blocks in `join` (no concurrent access).
unsafe impl<T> Send for SendIt<T> {}

fn drop_maybe_on_thread<T: 'static>(x: T, thread: bool) {
    if thread {
        let b = SendIt(x);
        std::thread::spawn(move || {
            let b = b;
            drop(b.0);
        })
        .join()
        .unwrap();
    } else {
        drop(x);
    }
}

/// a handle, or the closure `into_func` made of it
enum H {
    Handle(Handle),
    Func(Box<dyn Fn() -> u32>),
    HandleCx(HandleCx),
    FuncCx(Box<dyn Fn(&mut Cx) -> u32>),
    /// a `TestCase` (plain or context runtime): runs the script's test, which compares `main()` with
    /// the value it had at compile time; yields that value when the test accepts, 0 when it rejects
    Test(Box<dyn Fn() -> u32>),
    /// transient (while `into_func` consumes the handle)
    Gone,
}
impl H {
    fn call(&self) -> u32 {
        match self {
            H::Handle(h) => h.call(),
            H::Func(f) => f(),
            H::HandleCx(h) => h.call(&mut Cx { cxn: 5 }),
            H::FuncCx(f) => f(&mut Cx { cxn: 5 }),
            H::Test(f) => f(),
            H::Gone => unreachable!(),
        }
    }
}

/// what the stashing closure captures: a tracked value and the script-built lists it was handed
struct Journal {
    tk: Tk,
    lists: Mutex<Vec<List<RotoString>>>,
}

#[derive(Default)]
struct World {
    rts: BTreeMap<u32, Rt>,
    pkgs: Vec<(u32, Pkg)>,
    hs: Vec<(u32, H)>,
}

/// every further closure comes out of this one closure expression: same Rust type, separate state
fn make_sib(tag: u64, val: u32) -> impl Fn() -> u32 + Send + Sync + 'static {
    let cap = Tk::new(tag, val);
    move || {
        let c = &cap;
        c.val
    }
}
/// a closure whose only capture is zero-sized (so is the closure), with a Drop that must run exactly once
fn make_sibz() -> impl Fn() -> u32 + Send + Sync + 'static {
    let guard = Zf::new();
    move || {
        let _g = &guard;
        VAL_GZ
    }
}

fn roto_list(l: &[u32]) -> String {
    format!("[{}]", l.iter().map(|x| x.to_string()).collect::<Vec<_>>().join(", "))
}

fn script(r: u32, k: u32, n: u32, z: u32, uc: bool, uf: bool, ud: bool, us: u8, m: u32, uk: bool) -> String {
    let value = value_of(r, k, n, z, uc, uf, ud, us, m, uk);
    let mut s = many_source(k, m);
    for c in 0..z {
        // a script constant of a zero-sized type that has a Drop
        s.push_str(&format!("const ZC{c}: Zs = mkz();\n"));
    }
    for c in z..z + n {
        s.push_str(&format!("const SC{c}: Tk = mk({}, {});\n", tag_s(k, c), val_s(k, c)));
    }
    if ud {
        // script constants of List and String type (the List one holds a tracked element)
        s.push_str(&format!("const SLT: List[Tk] = [mk({}, {})];\n", tag_s(k, z + n), val_s(k, z + n)));
        s.push_str(&format!("const SL: List[u32] = {};\n", roto_list(&list_const(k))));
        s.push_str(&format!("const SS: String = \"{}\" + \"{}\";\n", lit_const_a(k), lit_const_b()));
    }
    // registered closures are also called from an ordinary function and, generated after it, from the initialiser
    // of a script constant (code that runs once, during compilation)
    if uf {
        s.push_str("fn viaf() -> u32 { getclos() }\nconst CF: u32 = viaf() + getclos();\n");
    }
    for j in 0..2 {
        if us & (1 << j) != 0 {
            s.push_str(&format!("fn vias{j}() -> u32 {{ sib{j}() }}\nconst CS{j}: u32 = vias{j}() + sib{j}();\n"));
        }
    }
    s.push_str(&format!("fn main() -> u32 {{\n    {}", 1000 * k));
    for c in 0..z {
        s.push_str(&format!(" + zval(ZC{c})"));
    }
    for c in z..z + n {
        s.push_str(&format!(" + val(SC{c})"));
    }
    if ud {
        s.push_str(&format!("\n    + ssum(\"{}\") + ssum(\"{}\") + ssum(SS)", lit_plain(k), lit_short(k)));
        s.push_str(&format!("\n    + ssum(f\"{}{{SS}}{}\")", lit_f_a(k), lit_f_b()));
        s.push_str(&format!("\n    + lsum({}) + lsum(SL)", roto_list(&list_lit(k))));
        let [ip4, ip6] = ip_lits(k);
        s.push_str(&format!("\n    + ipsum({ip4}) + ipsum({ip6})"));
        s.push_str("\n    + (match SLT.get(0) { Some(t) => val(t), None => 0, })");
    }
    if uc {
        s.push_str(" + val(REGC) + val(REGD) + zrval(REGZ)");
    }
    if uf {
        // (`main` reaches this closure only through `viaf`: the constant initialiser is the LAST call site of
        // it that is generated; the further closures below are also called by `main` directly)
        s.push_str(" + viaf() + viaf() + CF");
    }
    for (j, name) in ["sib0", "sib1", "sibz"].iter().enumerate() {
        if us & (1 << j) != 0 {
            s.push_str(&format!(" + {name}()"));
            if j < 2 {
                s.push_str(&format!(" + vias{j}() + CS{j}"));
            }
        }
    }
    for i in 0..m {
        s.push_str(&format!("{}+ gm{i}()", if i % 6 == 0 { "\n    " } else { " " }));
        if i % 3 == 0 {
            s.push_str(&format!(" + gn{i}()"));
        }
    }
    if m > 0 {
        s.push_str(" + cvu64(MC0)");
    }
    if uk {
        // a list the script builds (its elements need drop glue) is handed to the stashing closure
        s.push_str(&format!("\n    + stash([\"stashed by version {k}\", \"a longer string that is built at run time: \" + \"{}\"])", lit_short(k)));
    }
    s.push_str("\n}\n");
    s.push_str(&format!("test selfcheck {{\n    if main() != {} {{\n        reject;\n    }}\n    accept\n}}\n", value));
    s
}

impl World {
    fn apply(&mut self, op: &Op) -> Result<(), String> {
        match op {
            Op::Build(r) => {
                let rt = Runtime::from_lib(library! {
                    #[clone] type Tk = Val<Tk>;
                    fn mk(tag: u64, v: u32) -> Val<Tk> { Val(Tk::new(tag, v)) }
                    fn val(t: Val<Tk>) -> u32 { t.0.val }
                    #[clone] type Zs = Val<Zs>;
                    fn mkz() -> Val<Zs> { Val(Zs::new()) }
                    fn zval(z: Val<Zs>) -> u32 { let _z = z; 0 }
                    #[clone] type Zr = Val<Zr>;
                    fn zrval(z: Val<Zr>) -> u32 { let _z = z; 0 }
                    fn ssum(s: RotoString) -> u32 { ssum_of(&s) }
                    fn lsum(l: List<u32>) -> u32 { lsum_of(&l.to_vec()) }
                    fn ipsum(a: IpAddr) -> u32 { ipsum_of(&a) }
                    fn cvu64(x: u64) -> u32 { cv_u64(x) }
                    fn cvu32(x: u32) -> u32 { x % 99_991 }
                    fn cvu8(x: u8) -> u32 { x as u32 }
                    fn cvi64(x: i64) -> u32 { cv_i64(x) }
                    fn cvbool(x: bool) -> u32 { 10 + x as u32 }
                    fn cvf64(x: f64) -> u32 { cv_f64(x) }
                })
                .map_err(|e| format!("{e}"))?;
                let rt = if is_cx(*r) { Rt::Cx(rt.with_context_type::<Cx>()?) } else { Rt::No(rt) };
                self.rts.insert(*r, rt);
            }
            Op::RegConst(r) => {
                let c = roto::Constant::new("REGC", "tracked constant", Val(Tk::new(tag_r(*r), val_r(*r))), roto::location!())
                    .map_err(|e| format!("{e}"))?;
                let cd = roto::Constant::new("REGD", "second tracked constant of the same type", Val(Tk::new(tag_d(*r), val_d(*r))), roto::location!())
                    .map_err(|e| format!("{e}"))?;
                let cz = roto::Constant::new("REGZ", "zero-sized tracked constant", Val(Zr::new()), roto::location!())
                    .map_err(|e| format!("{e}"))?;
                match self.rts.get_mut(r).unwrap() {
                    Rt::No(rt) => {
                        rt.add(c).map_err(|e| format!("{e}"))?;
                        rt.add(cd).map_err(|e| format!("{e}"))?;
                        rt.add(cz).map_err(|e| format!("{e}"))?
                    }
                    Rt::Cx(rt) => {
                        rt.add(c).map_err(|e| format!("{e}"))?;
                        rt.add(cd).map_err(|e| format!("{e}"))?;
                        rt.add(cz).map_err(|e| format!("{e}"))?
                    }
                }
            }
            Op::RegSibs(r) => {
                // two closures from ONE closure expression (same Rust type), each with its own captured state,
                // and a zero-sized closure (its only capture is a zero-sized guard)
                let fns = vec![
                    roto::Function::new("sib0", "further closure 0", vec![], make_sib(tag_g(*r, 0), val_g(*r, 0)), roto::location!()),
                    roto::Function::new("sib1", "further closure 1", vec![], make_sib(tag_g(*r, 1), val_g(*r, 1)), roto::location!()),
                    roto::Function::new("sibz", "zero-sized closure", vec![], make_sibz(), roto::location!()),
                ];
                for f in fns {
                    let f = f.map_err(|e| format!("{e}"))?;
                    match self.rts.get_mut(r).unwrap() {
                        Rt::No(rt) => rt.add(f).map_err(|e| format!("{e}"))?,
                        Rt::Cx(rt) => rt.add(f).map_err(|e| format!("{e}"))?,
                    }
                }
            }
            Op::RegKeep(r) => {
                let journal = Journal { tk: Tk::new(tag_j(*r), val_j(*r)), lists: Mutex::new(Vec::new()) };
                let lib = library! {
                    let stash = move |entries: List<RotoString>| -> u32 {
                        // (uses `journal` as a whole: the closure owns all of it)
                        let j = &journal;
                        let mut l = j.lists.lock().unwrap();
                        if l.len() < 6 {
                            l.push(entries);
                        }
                        j.tk.val
                    };
                };
                match self.rts.get_mut(r).unwrap() {
                    Rt::No(rt) => rt.add(lib).map_err(|e| format!("{e}"))?,
                    Rt::Cx(rt) => rt.add(lib).map_err(|e| format!("{e}"))?,
                }
            }
            Op::RegClos(r) => {
                let cap = Tk::new(tag_f(*r), val_f(*r));
                let lib = library! {
                    let getclos = move || -> u32 { let c = &cap; c.val };
                };
                match self.rts.get_mut(r).unwrap() {
                    Rt::No(rt) => rt.add(lib).map_err(|e| format!("{e}"))?,
                    Rt::Cx(rt) => rt.add(lib).map_err(|e| format!("{e}"))?,
                }
            }
            Op::Compile { r, k, n, z, uc, uf, ud, us, m, uk } => {
                let src = script(*r, *k, *n, *z, *uc, *uf, *ud, *us, *m, *uk);
                let tree = FileTree::test_file(&format!("v{k}.roto"), &src, 0);
                let pkg = match &self.rts[r] {
                    Rt::No(rt) => Pkg::No(tree.compile(rt).map_err(|e| format!("compile v{k}: {e}"))?),
                    Rt::Cx(rt) => Pkg::Cx(tree.compile(rt).map_err(|e| format!("compile v{k}: {e}"))?),
                };
                self.pkgs.push((*k, pkg));
            }
            Op::Get(k) => {
                let p = self.pkgs.iter_mut().find(|(x, _)| x == k).unwrap();
                let h = match &mut p.1 {
                    Pkg::No(p) => H::Handle(p.get_function("main").map_err(|e| format!("{e}"))?),
                    Pkg::Cx(p) => H::HandleCx(p.get_function("main").map_err(|e| format!("{e}"))?),
                };
                self.hs.push((*k, h));
            }
            Op::GetTest(k) => {
                let p = self.pkgs.iter_mut().find(|(x, _)| x == k).unwrap();
                let h = match &mut p.1 {
                    Pkg::No(p) => {
                        let mut tests: Vec<_> = p.get_tests().collect();
                        if tests.len() != 1 {
                            return Err(format!("get_tests: {} tests", tests.len()));
                        }
                        let tc = tests.pop().unwrap();
                        H::Test(Box::new(move || tc.run(&mut NoCtx).is_ok() as u32))
                    }
                    Pkg::Cx(p) => {
                        let mut tests: Vec<_> = p.get_tests().collect();
                        if tests.len() != 1 {
                            return Err(format!("get_tests: {} tests", tests.len()));
                        }
                        let tc = tests.pop().unwrap();
                        H::Test(Box::new(move || tc.run(&mut Cx { cxn: 5 }).is_ok() as u32))
                    }
                };
                self.hs.push((*k, h));
            }
            Op::CloneH(i) => {
                let h = match &self.hs[*i].1 {
                    H::Handle(h) => H::Handle(h.clone()),
                    H::HandleCx(h) => H::HandleCx(h.clone()),
                    _ => return Err("clone of a closure".into()),
                };
                self.hs.push((self.hs[*i].0, h));
            }
            Op::IntoFunc(i) => {
                self.hs[*i].1 = match std::mem::replace(&mut self.hs[*i].1, H::Gone) {
                    H::Handle(h) => H::Func(Box::new(h.into_func())),
                    H::HandleCx(h) => H::FuncCx(Box::new(h.into_func())),
                    _ => return Err("into_func of a closure".into()),
                };
            }
            Op::Call(i) => {
                let _ = self.hs[*i].1.call();
            }
            Op::DropH(i, t) => {
                let (_, h) = self.hs.remove(*i);
                drop_maybe_on_thread(h, *t);
            }
            Op::DropP(k, t) => {
                let i = self.pkgs.iter().position(|(x, _)| x == k).unwrap();
                let (_, p) = self.pkgs.remove(i);
                drop_maybe_on_thread(p, *t);
            }
            Op::DropR(r, t) => {
                let rt = self.rts.remove(r).unwrap();
                drop_maybe_on_thread(rt, *t);
            }
        }
        Ok(())
    }
}

// ---------------------------------------------------------------- scribbling over freed memory

/// Allocate and free blocks of every small size class, filled with a byte
/// pattern: whatever the last step freed (string bytes, constants, boxed
/// closures) is reused and overwritten, so a read through a dangling pointer
/// sees other bytes — deterministically, not only under valgrind.
fn scribble(round: usize) {
    let fill = 0xA5u8 ^ (round as u8).wrapping_mul(29);
    let mut keep: Vec<Vec<u8>> = Vec::with_capacity(1024);
    for size in (1..=30).map(|i| i * 8).chain([256, 320, 384, 448, 512, 768, 1024]) {
        for _ in 0..12 {
            let mut v = Vec::<u8>::with_capacity(size);
            v.resize(size, fill);
            keep.push(v);
        }
    }
    std::hint::black_box(&keep);
    drop(keep);
}

// ---------------------------------------------------------------- one history

/// Outcome of running one history on the real API against property and model.
struct Outcome {
    /// (what, key, step) — the property fails on the real code
    violations: Vec<(String, String, usize)>,
    /// model ≠ implementation
    mismatches: Vec<(String, usize)>,
    /// per op: what it released
    signature: String,
    /// per drop op: (kind, what it released, what was still around) — the measured classes
    classes: Vec<String>,
}

/// seconds since the process started at which the history being run is declared hung (0 = no limit)
static HUNG_AT: AtomicU64 = AtomicU64::new(0);
static STARTED: std::sync::OnceLock<std::time::Instant> = std::sync::OnceLock::new();

/// Worker processes give every history 30 s (a history takes well under a second): code that reads through a
/// dangling pointer may spin or block for ever instead of crashing; the parent then sees exit code 97 after the
/// `START` line of that history, like a crash, instead of waiting for the batch's timeout.
fn start_watchdog() {
    STARTED.get_or_init(std::time::Instant::now);
    std::thread::spawn(|| loop {
        std::thread::sleep(std::time::Duration::from_millis(200));
        let limit = HUNG_AT.load(Ordering::SeqCst);
        if limit != 0 && STARTED.get().unwrap().elapsed().as_secs() >= limit {
            std::process::exit(97);
        }
    });
}

fn run_history(h: &[Op], drv: Option<&mut Driver>, progress: bool) -> Outcome {
    if let Some(t0) = STARTED.get() {
        HUNG_AT.store(t0.elapsed().as_secs() + 30, Ordering::SeqCst);
    }
    let mut out = Outcome { violations: vec![], mismatches: vec![], signature: String::new(), classes: vec![] };
    LIVE.lock().unwrap().clear();
    BAD_DROPS.store(0, Ordering::SeqCst);
    for c in [&ZS_LIVE, &ZR_LIVE, &ZF_LIVE] {
        c.store(0, Ordering::SeqCst);
    }
    // position of each operation among those the Lean model knows
    let mut lean_idx: Vec<Option<usize>> = vec![];
    for op in h {
        let n = lean_idx.iter().flatten().count();
        lean_idx.push(if op.in_model() { Some(n) } else { None });
    }
    let n_model = lean_idx.iter().flatten().count();
    let mut drv = drv;
    let lean: Option<Vec<String>> = drv.as_deref_mut().map(|d| {
        let line = format!("c11 run {}", h.iter().filter(|o| o.in_model()).map(|o| o.lean()).collect::<Vec<_>>().join(" "));
        d.ask(&line).split('|').map(|s| s.to_string()).collect()
    });
    if let Some(l) = &lean {
        if l.len() != n_model {
            out.mismatches.push((format!("driver answered {} records for {} ops: {:?}", l.len(), h.len(), l.first()), 0));
            return out;
        }
    }
    let mut spec = Spec::default();
    let mut w = World::default();
    let mut sig = vec![];
    for (step, op) in h.iter().enumerate() {
        if progress {
            println!("STEP {step} {}", op.text());
            use std::io::Write;
            let _ = std::io::stdout().flush();
        }
        let valid = spec.valid(op);
        let before: Vec<(Ctr, String, i64)> =
            spec.expected_live().into_iter().map(|(t, n, _, _, _)| (t, n, live_ctr(t))).collect();
        if valid {
            if let Err(e) = w.apply(op) {
                out.violations.push((format!("the API refused a valid operation: {e}"), format!("api-error {}", op.kind()), step));
                std::mem::forget(w);
                return out;
            }
            spec.apply(op);
        }
        scribble(step);
        // ---- observe the real state: first the resource counts (a release that came too early is reported
        // as such, before a call through the dangling handle can kill the process), then the calls
        let mut live = vec![];
        for (tag, name, min, max, in_model) in spec.expected_live() {
            let n = live_ctr(tag);
            if in_model {
                live.push(format!("{name}:{n}"));
            }
            if n < min {
                out.violations.push((
                    format!("{name} has {n} live instance(s) but is still referred to (released too early{})", if n < 0 { ", more than once" } else { "" }),
                    format!("released-early {} after {}", &name[..1], op.kind().trim_end_matches("@thread")),
                    step,
                ));
            } else if n > max {
                out.violations.push((
                    format!("{name} has {n} live instance(s) but nothing refers to it any more (not released / leaked)"),
                    format!("not-released {} after {}", &name[..1], op.kind().trim_end_matches("@thread")),
                    step,
                ));
            }
        }
        let mut calls = vec![];
        if out.violations.is_empty() {
            for (i, (k, f)) in w.hs.iter().enumerate() {
                let want = spec.compiled[k].value;
                let i_kind = ["handle", "closure (into_func)", "test case (get_tests)"][spec.kind[i] as usize];
                // a test case compares main() with the value it had at compile time inside the script
                let got = match f {
                    H::Test(_) => if f.call() == 1 { want } else { 0 },
                    _ => f.call(),
                };
                calls.push(format!("ok:{got}"));
                if got != want {
                    out.violations.push((
                        format!("{i_kind} #{i} of version {k} returned {got}, it returned {want} when it was created"),
                        format!("call-result-changed after {}", op.kind().trim_end_matches("@thread")),
                        step,
                    ));
                }
            }
        }
        if BAD_DROPS.load(Ordering::SeqCst) > 0 {
            out.violations.push(("a tracked value was dropped twice".into(), format!("double-drop after {}", op.kind()), step));
        }
        // ---- class signature: what did this op release
        if matches!(op, Op::DropH(..) | Op::DropP(..) | Op::DropR(..)) && valid {
            let mut rel = BTreeSet::new();
            for (t, n, b) in &before {
                if live_ctr(*t) < *b {
                    rel.insert(n[..1].to_string());
                }
            }
            let rel = rel.into_iter().collect::<Vec<_>>().join("");
            out.classes.push(format!(
                "{} releases[{}] while runtimes={} packages={} handles={}",
                op.kind(), rel, spec.rts.len().min(2), spec.pkgs.len().min(2), spec.hs.len().min(3)
            ));
            sig.push(format!("{}>{}", op.kind(), rel));
        } else if valid {
            sig.push(op.kind().to_string());
        }
        // ---- compare with the model
        if let (Op::Compile { m, .. }, Some(d), true) = (op, drv.as_deref_mut(), valid) {
            if *m > 0 {
                // the model of the constant table (generated `constStore`): is every baked constant address of a
                // script with m constants still valid?  The implementation's answer is the calls above and below.
                let a = d.ask(&format!("c11 addr {m}"));
                if a.is_empty() || a.chars().any(|c| c != '1' && c != ',') {
                    out.mismatches.push((format!("step {step} `{}`: the model predicts stale constant addresses in the code of a script with {m} constants: {a}", op.text()), step));
                }
            }
        }
        if let (Some(l), Some(li)) = (&lean, lean_idx[step]) {
            let rec: Vec<&str> = l[li].split(';').collect();
            let mine = format!("{};{};{}", valid as u8, calls.join(","), live.join(","));
            let theirs = rec.iter().take(3).cloned().collect::<Vec<_>>().join(";");
            if mine != theirs {
                out.mismatches.push((format!("step {step} `{}`: implementation `{mine}` model `{theirs}`", op.text()), step));
            }
            if rec.get(3).copied() != Some("0") {
                out.mismatches.push((format!("step {step} `{}`: the model reports a use-after-free ({})", op.text(), l[li]), step));
            }
        }
        if !out.violations.is_empty() {
            break;
        }
    }
    // ---- tear everything down (in the order the history left it): nothing may stay alive
    if out.violations.is_empty() {
        if progress {
            println!("STEP {} (dropping whatever the history left alive)", h.len());
            use std::io::Write;
            let _ = std::io::stdout().flush();
        }
        drop(w);
        for (tag, name, _, _, _) in spec.expected_live() {
            let n = live_ctr(tag);
            if n != 0 {
                out.violations.push((
                    format!("after dropping every object {name} has {n} live instance(s) (exactly-once release)"),
                    format!("final-count {}", &name[..1]),
                    h.len(),
                ));
            }
        }
    } else {
        std::mem::forget(w);
    }
    out.signature = sig.join(" ");
    out
}

// ---------------------------------------------------------------- generators

fn all_ops(spec: &Spec, max_rt: u32, max_k: u32, exhaustive: bool) -> Vec<Op> {
    let mut v = vec![];
    for r in 0..max_rt {
        v.push(Op::Build(r));
        v.push(Op::RegConst(r));
        v.push(Op::RegClos(r));
        if !exhaustive {
            v.push(Op::RegSibs(r));
            v.push(Op::RegKeep(r));
        }
        v.push(Op::DropR(r, false));
    }
    let next_k = spec.compiled.keys().max().map(|k| k + 1).unwrap_or(1);
    if next_k <= max_k {
        for r in 0..max_rt {
            if exhaustive {
                // the script uses everything there is: constant, closure and every kind of code-owned data
                // (a sized and a zero-sized script constant, and every further closure of the runtime)
                let (uc, uf) = (spec.has_const.contains(&r), spec.has_clos.contains(&r));
                let us = if spec.has_sibs.contains(&r) { 7 } else { 0 };
                v.push(Op::Compile { r, k: next_k, n: 1, z: 1, uc, uf, ud: true, us, m: 0, uk: false });
            } else {
                for n in 0..3 {
                    for uc in [false, true] {
                        for uf in [false, true] {
                            for ud in [false, true] {
                                // zero-sized script constants; which of the further closures are called (only the
                                // first, only the second, both of one type, the zero-sized one, all)
                                for (z, us) in [(0, 0), (1, 0), (2, 3), (0, 1), (0, 2), (1, 4), (0, 3), (1, 7), (0, 6)] {
                                    v.push(Op::Compile { r, k: next_k, n, z, uc, uf, ud, us, m: 0, uk: false });
                                }
                            }
                        }
                    }
                }
            }
        }
    }
    for k in &spec.pkgs {
        v.push(Op::Get(*k));
        // (exhaustive enumeration: one test case per version is enough, they are all alike)
        if !exhaustive || !spec.hs.iter().zip(&spec.kind).any(|(x, t)| x == k && *t == 2) {
            v.push(Op::GetTest(*k));
        }
        v.push(Op::DropP(*k, false));
    }
    let mut seen = BTreeSet::new();
    for (i, k) in spec.hs.iter().enumerate() {
        // clones of one handle are indistinguishable objects: in the exhaustive
        // enumeration one representative per (version, handle / closure)
        if exhaustive && !seen.insert((*k, spec.kind[i])) {
            continue;
        }
        // (exhaustive enumeration: objects of one kind and version are all alike — two plain handles,
        // one closure and one test case per version are enough to have "other handles" of every kind)
        let count = |kind: u8| spec.hs.iter().zip(&spec.kind).filter(|(x, t)| *x == k && **t == kind).count();
        if !exhaustive || count(0) < 2 {
            v.push(Op::CloneH(i));
        }
        if !exhaustive || count(1) < 1 {
            v.push(Op::IntoFunc(i));
        }
        v.push(Op::DropH(i, false));
        if !exhaustive {
            v.push(Op::Call(i));
        }
    }
    v.retain(|o| spec.valid(o));
    v
}

fn gen_random(p: &mut Prng) -> Vec<Op> {
    let mut spec = Spec::default();
    let mut h = vec![];
    let len = p.range(6, 28) as usize;
    let max_rt = if p.chance(1, 3) { 2 } else { 1 };
    let push = |h: &mut Vec<Op>, spec: &mut Spec, op: Op| {
        spec.apply(&op);
        h.push(op);
    };
    push(&mut h, &mut spec, Op::Build(0));
    if p.chance(5, 6) {
        push(&mut h, &mut spec, Op::RegConst(0));
    }
    if p.chance(5, 6) {
        push(&mut h, &mut spec, Op::RegClos(0));
    }
    if p.chance(2, 3) {
        push(&mut h, &mut spec, Op::RegSibs(0));
    }
    if p.chance(1, 2) {
        push(&mut h, &mut spec, Op::RegKeep(0));
    }
    let mut skipped = 0;
    while h.len() < len && skipped < 50 {
        let ops = all_ops(&spec, max_rt, 6, false);
        if ops.is_empty() {
            break;
        }
        // weight by kind so that drops do not starve the history of objects
        let kinds: Vec<&str> = {
            let mut k: Vec<&str> = ops.iter().map(|o| o.kind()).collect();
            k.sort();
            k.dedup();
            k
        };
        let kind = *p.pick(&kinds);
        let of_kind: Vec<&Op> = ops.iter().filter(|o| o.kind() == kind).collect();
        let mut op = (*p.pick(&of_kind)).clone();
        let t = p.chance(1, 3);
        op = match op {
            Op::DropH(i, _) => Op::DropH(i, t),
            Op::DropP(k, _) => Op::DropP(k, t),
            Op::DropR(r, _) => Op::DropR(r, t),
            // the many-constants class (table growth at the 4th, 8th, 15th, 29th constant) and the stashing closure
            Op::Compile { r, k, n, z, uc, uf, ud, us, .. } => {
                let m = if p.chance(1, 4) { *p.pick(&[4u32, 5, 8, 9, 15, 16, 29, 30, 40]) } else { 0 };
                let uk = spec.has_keep.contains(&r) && p.chance(1, 3);
                Op::Compile { r, k, n, z, uc, uf, ud, us, m, uk }
            }
            o => o,
        };
        if spec.stash_hazard(&op) {
            skipped += 1;
            continue;
        }
        push(&mut h, &mut spec, op);
    }
    // often finish with a complete teardown in a random order
    if p.chance(3, 4) {
        loop {
            let mut drops = vec![];
            for r in &spec.rts {
                drops.push(Op::DropR(*r, p.chance(1, 3)));
            }
            for k in &spec.pkgs {
                drops.push(Op::DropP(*k, p.chance(1, 3)));
            }
            for i in 0..spec.hs.len() {
                drops.push(Op::DropH(i, p.chance(1, 3)));
            }
            drops.retain(|o| !spec.stash_hazard(o));
            if drops.is_empty() {
                break;
            }
            let op = p.pick(&drops).clone();
            push(&mut h, &mut spec, op);
        }
    }
    h
}

/// All histories `prefix ++ suffix` with `suffix` of length ≤ `depth` over the
/// operations valid at each point (one runtime, ≤ 2 compilations), ending in a drop.
fn gen_exhaustive(depth: usize) -> Vec<Vec<Op>> {
    let prefix = vec![Op::Build(0), Op::RegConst(0), Op::RegClos(0), Op::RegSibs(0)];
    let mut spec = Spec::default();
    for o in &prefix {
        spec.apply(o);
    }
    let mut out = vec![];
    fn go(spec: &Spec, cur: &mut Vec<Op>, depth: usize, out: &mut Vec<Vec<Op>>) {
        if depth == 0 {
            return;
        }
        for op in all_ops(spec, 1, 2, true) {
            if matches!(op, Op::Build(_) | Op::RegConst(_) | Op::RegClos(_) | Op::RegSibs(_) | Op::RegKeep(_)) {
                continue;
            }
            // adjacent creation operations commute (they only add an owner): one canonical order per
            // run of creations (compile < get < get-test < clone < into-func); drops break the run
            let rank = |o: &Op| match o {
                Op::Compile { .. } => Some(0),
                Op::Get(_) => Some(1),
                Op::GetTest(_) => Some(2),
                Op::CloneH(_) => Some(3),
                Op::IntoFunc(_) => Some(4),
                _ => None,
            };
            if let (Some(a), Some(b)) = (cur.last().and_then(rank), rank(&op)) {
                if b < a {
                    continue;
                }
            }
            let mut s2 = spec.clone();
            s2.apply(&op);
            cur.push(op);
            // a history is worth running when it ends in a drop (its effect is what is checked)
            if matches!(cur.last(), Some(Op::DropH(..) | Op::DropP(..) | Op::DropR(..))) {
                out.push(cur.clone());
            }
            go(&s2, cur, depth - 1, out);
            cur.pop();
        }
    }
    let mut cur = prefix.clone();
    go(&spec, &mut cur, depth, &mut out);
    out
}

/// Class representatives that run first (before the enumeration): for every way an
/// object can keep a module alive — package, handle, clone, closure made by
/// `into_func`, test case from `get_tests` — the history in which it is the LAST owner while a script that
/// uses every kind of referenced resource is called, with every order of
/// dropping the others; plus hot reload (recompile on the same runtime after
/// registering more) and two runtimes.
fn gen_boundary() -> Vec<Vec<Op>> {
    let full = |k: u32| Op::Compile { r: 0, k, n: 2, z: 1, uc: true, uf: true, ud: true, us: 7, m: 0, uk: false };
    let pre = vec![Op::Build(0), Op::RegConst(0), Op::RegClos(0), Op::RegSibs(0)];
    let mut out: Vec<Vec<Op>> = vec![];
    // r = 0: a plain runtime; r = 1: a runtime with a context type (the `Ctx<C>` instantiations of
    // get_function / call / into_func)
    for r in [0u32, 1] {
        let full = |k: u32| Op::Compile { r, k, n: 2, z: 1, uc: true, uf: true, ud: true, us: 7, m: 0, uk: false };
        // the survivor: 0 = plain handle, 1 = clone (original dropped), 2 = closure, 3 = closure of a clone,
        // 4 = test case
        for survivor in 0..5 {
            for order in 0..3 {
                for thread in [false, true] {
                    if r == 1 && thread {
                        continue;
                    }
                    let mut h = vec![Op::Build(r), Op::RegConst(r), Op::RegClos(r), Op::RegSibs(r)];
                    h.push(full(1));
                    h.push(if survivor == 4 { Op::GetTest(1) } else { Op::Get(1) });
                    match survivor {
                        0 | 4 => {}
                        1 => {
                            h.push(Op::CloneH(0));
                            h.push(Op::DropH(0, thread));
                        }
                        2 => h.push(Op::IntoFunc(0)),
                        _ => {
                            h.push(Op::CloneH(0));
                            h.push(Op::IntoFunc(1));
                            h.push(Op::DropH(0, thread));
                        }
                    }
                    match order {
                        0 => {
                            h.push(Op::DropP(1, thread));
                            h.push(Op::DropR(r, thread));
                        }
                        1 => {
                            h.push(Op::DropR(r, thread));
                            h.push(Op::DropP(1, thread));
                        }
                        _ => {
                            // hot reload in between: a second version is compiled and dropped again
                            h.push(full(2));
                            h.push(Op::Get(2));
                            h.push(Op::DropP(1, thread));
                            h.push(Op::DropH(1, thread));
                            h.push(Op::DropP(2, thread));
                            h.push(Op::DropR(r, thread));
                        }
                    }
                    h.push(Op::Call(0));
                    h.push(Op::DropH(0, thread));
                    out.push(h);
                }
            }
        }
    }
    // each kind of resource on its own (so that a result names the kind), handle and closure as survivor
    // (… a zero-sized script constant alone and next to a sized one; of the further closures: both of the ONE
    // type, only the first, only the second, the zero-sized one)
    for (n, z, uc, uf, ud, us) in [
        (0, 0, false, false, true, 0),
        (2, 0, false, false, false, 0),
        (0, 0, true, false, false, 0),
        (0, 0, false, true, false, 0),
        (0, 0, false, false, false, 0),
        (0, 1, false, false, false, 0),
        (1, 2, false, false, false, 0),
        (0, 0, false, false, false, 3),
        (0, 0, false, false, false, 1),
        (0, 0, false, false, false, 2),
        (0, 0, false, false, false, 4),
    ] {
        for obj in 0..3 {
            let mut h = pre.clone();
            h.push(Op::Compile { r: 0, k: 1, n, z, uc, uf, ud, us, m: 0, uk: false });
            h.push(if obj == 2 { Op::GetTest(1) } else { Op::Get(1) });
            if obj == 1 {
                h.push(Op::IntoFunc(0));
            }
            h.extend([Op::DropP(1, false), Op::DropR(0, false), Op::Call(0), Op::DropH(0, false)]);
            out.push(h);
        }
    }
    // registering after a compilation, then compiling again on the same runtime (hot reload with a grown runtime)
    out.push(vec![
        Op::Build(0),
        Op::Compile { r: 0, k: 1, n: 1, z: 0, uc: false, uf: false, ud: true, us: 0, m: 0, uk: false },
        Op::Get(1),
        Op::RegConst(0),
        Op::RegClos(0),
        Op::RegSibs(0),
        full(2),
        Op::Get(2),
        Op::IntoFunc(1),
        Op::DropR(0, false),
        Op::DropP(2, false),
        Op::DropP(1, false),
        Op::Call(1),
        Op::DropH(1, false),
        Op::DropH(0, false),
    ]);
    // two versions on one runtime call different further closures of the ONE type (and both the zero-sized one);
    // the runtime goes first, then the packages, each handle is the last owner of what its version calls
    for first in [1u8, 2] {
        out.push(vec![
            Op::Build(0),
            Op::RegSibs(0),
            Op::Compile { r: 0, k: 1, n: 0, z: 1, uc: false, uf: false, ud: false, us: first | 4, m: 0, uk: false },
            Op::Compile { r: 0, k: 2, n: 1, z: 0, uc: false, uf: false, ud: false, us: 3, m: 0, uk: false },
            Op::Get(1),
            Op::Get(2),
            Op::DropR(0, false),
            Op::DropP(2, false),
            Op::DropP(1, false),
            Op::Call(0),
            Op::DropH(1, false),
            Op::Call(0),
            Op::DropH(0, false),
        ]);
    }
    // two runtimes: dropping one never touches the other's packages
    out.push(vec![
        Op::Build(0),
        Op::Build(1),
        Op::RegConst(0),
        Op::RegClos(0),
        Op::RegConst(1),
        Op::RegClos(1),
        Op::RegSibs(0),
        Op::RegSibs(1),
        full(1),
        Op::Compile { r: 1, k: 2, n: 1, z: 1, uc: true, uf: true, ud: true, us: 7, m: 0, uk: false },
        Op::Get(1),
        Op::Get(2),
        Op::IntoFunc(1),
        Op::DropR(0, false),
        Op::DropP(1, false),
        Op::DropP(2, true),
        Op::DropR(1, true),
        Op::DropH(0, false),
        Op::DropH(0, true),
    ]);
    // ---- scripts with MANY script constants of small types (the constant table of the module grows while code
    // that has the address of an earlier constant baked in already exists): 4 … 40 constants, each with a getter
    // generated right after it; a reload of another script in between; every value is read after every step
    for (m, r, survivor) in [
        (5u32, 0u32, 0),
        (9, 0, 0),
        (16, 0, 1),
        (30, 0, 0),
        (40, 0, 0),
        (40, 0, 1),
        (16, 1, 0),
        (4, 0, 0),
        (8, 0, 1),
        (15, 0, 0),
        (29, 1, 1),
    ] {
        let mut h = vec![Op::Build(r), Op::Compile { r, k: 1, n: 1, z: (m % 2), uc: false, uf: false, ud: false, us: 0, m, uk: false }, Op::Get(1)];
        if survivor == 1 {
            h.push(Op::IntoFunc(0));
        }
        h.extend([
            Op::Compile { r, k: 2, n: 0, z: 0, uc: false, uf: false, ud: true, us: 0, m: 3, uk: false },
            Op::Get(2),
            Op::DropP(1, false),
            Op::DropR(r, false),
            Op::DropP(2, false),
            Op::Call(0),
            Op::DropH(1, false),
            Op::Call(0),
            Op::DropH(0, false),
        ]);
        out.push(h);
    }
    // ---- a registered closure whose captured state keeps script-built lists (List[String]: drop glue is code of
    // the module): the runtime goes first, so the module is the last owner of the closure's state, which must then
    // be released while the module's code is still there; last owner of the module = handle / clone / closure /
    // test case / the package
    for (r, survivor, pkg_last) in [(0u32, 0, false), (0, 1, false), (0, 2, false), (0, 3, false), (0, 0, true), (1, 0, false), (1, 2, true)] {
        let mut h = vec![
            Op::Build(r),
            Op::RegKeep(r),
            Op::RegClos(r),
            Op::Compile { r, k: 1, n: 1, z: 1, uc: false, uf: true, ud: true, us: 0, m: 0, uk: true },
            if survivor == 3 { Op::GetTest(1) } else { Op::Get(1) },
        ];
        match survivor {
            1 => h.extend([Op::CloneH(0), Op::DropH(0, false)]),
            2 => h.push(Op::IntoFunc(0)),
            _ => {}
        }
        h.extend([Op::Call(0), Op::DropR(r, false)]);
        if pkg_last {
            h.extend([Op::Call(0), Op::DropH(0, false), Op::DropP(1, false)]);
        } else {
            h.extend([Op::DropP(1, false), Op::Call(0), Op::DropH(0, false)]);
        }
        out.push(h);
    }
    out
}

// ---------------------------------------------------------------- driver of the run

fn record(rep: &mut Report, h: &[Op], o: &Outcome, origin: serde_json::Value, idx: u64) {
    rep.evaluations += 1;
    for op in h {
        rep.hist("op", op.kind());
    }
    rep.hist("history-length", format!("{:02}", h.len()));
    for c in &o.classes {
        rep.class(c.clone());
    }
    for (what, key, step) in &o.violations {
        rep.violation(what, key, json!({"history": hist_text(h), "step": step, "origin": origin}));
    }
    for (what, step) in &o.mismatches {
        rep.mismatch(what, json!({"history": hist_text(h), "step": step, "origin": origin}));
    }
    if idx % 97 == 0 {
        rep.sample(json!({"history": hist_text(h), "released-by-step": o.signature}));
    }
}

fn main() {
    let args: Vec<String> = std::env::args().collect();
    let mut rep = Report::default();
    match args.get(1).map(|s| s.as_str()) {
        Some("run") => {
            let seed: u64 = args.get(2).and_then(|s| s.parse().ok()).unwrap_or(1);
            let thorough = args.get(3).map(|s| s == "thorough").unwrap_or(false);
            // `search`: the hunt for a failing input after an obligation broke in the quick tier — class
            // representatives, then random and short exhaustive histories until ~2.5 minutes have passed
            let search = args.get(3).map(|s| s == "search").unwrap_or(false);
            let started = std::time::Instant::now();
            let in_time = |limit: u64| !search || started.elapsed().as_secs() < limit;
            let seed_s = seed.to_string();
            let t = std::time::Duration::from_secs(600);
            let depth = if thorough { 8 } else { 7 };
            let depth_s = depth.to_string();
            let n_exh = gen_exhaustive(depth).len() as u64;
            // crash budget: a tree on which (almost) every history dies must not
            // cost one process start per history
            let crashes = std::cell::Cell::new(0u32);
            // the table model of Model/LifetimeAddr.lean against the real `std::collections::HashMap`: at which
            // insertions do the entries move (the capacity changes and the address of the first entry with it)?
            {
                let mut real: Vec<String> = vec![];
                let mut map: std::collections::HashMap<u64, [u8; 40]> = std::collections::HashMap::new();
                let (mut cap, mut addr) = (map.capacity(), 0usize);
                for i in 1..=240u64 {
                    map.insert(i, [i as u8; 40]);
                    let a = map.get(&1).map(|v| v.as_ptr() as usize).unwrap_or(0);
                    if map.capacity() != cap || a != addr {
                        real.push(i.to_string());
                    }
                    cap = map.capacity();
                    addr = a;
                }
                let real = real.join(",");
                let model = Driver::spawn().map(|mut d| d.ask("c11 growth 240")).unwrap_or_default();
                rep.evaluations += 1;
                rep.hist("table-growth", if real == model { "model = std HashMap" } else { "model ≠ std HashMap" });
                if real != model {
                    rep.mismatch(
                        &format!("the constant-table model reallocates at insertions [{model}], std's HashMap at [{real}]"),
                        json!({"history": "", "table-growth": {"model": model, "real": real}}),
                    );
                }
            }
            // class representatives first
            let n_bnd = gen_boundary().len() as u64;
            run_batches(&["bnd"], n_bnd, n_bnd, t, &mut rep, |rep: &mut Report, idx: u64, how: &Ended| {
                crashes.set(crashes.get() + 1);
                let h = &gen_boundary()[idx as usize];
                rep.violation(
                    "the process died or hung (use-after-free / double free) while running this history (and then dropping what it left alive)",
                    &format!("crash {}", crash_key(h)),
                    json!({"history": hist_text(h), "ended": format!("{how:?}"), "origin": {"boundary": idx}}),
                );
            });
            let mut off = 0u64;
            while off < n_exh && crashes.get() < 6 && !search {
                let chunk = 400.min(n_exh - off);
                let off_s = off.to_string();
                run_batches(&["exh", &depth_s, &off_s], chunk, 400, t, &mut rep, |rep: &mut Report, idx: u64, how: &Ended| {
                    crashes.set(crashes.get() + 1);
                    let h = &gen_exhaustive(depth)[(off + idx) as usize];
                    rep.violation(
                        "the process died or hung (use-after-free / double free) while running this history (and then dropping what it left alive)",
                        &format!("crash {}", crash_key(h)),
                        json!({"history": hist_text(h), "ended": format!("{how:?}"), "origin": {"exhaustive-depth": depth, "index": off + idx}}),
                    );
                });
                off += chunk;
            }
            let n_rand = if thorough { 20000 } else if search { 6000 } else { 2000 };
            let mut off = 0u64;
            while off < n_rand && crashes.get() < 12 && in_time(110) {
                let chunk = 200.min(n_rand - off);
                let off_s = off.to_string();
                run_batches(&["random", &seed_s, &off_s], chunk, 200, t, &mut rep, |rep: &mut Report, idx: u64, how: &Ended| {
                    crashes.set(crashes.get() + 1);
                    let h = gen_random(&mut Prng::for_case(seed, off + idx));
                    rep.violation(
                        "the process died or hung (use-after-free / double free) while running this history (and then dropping what it left alive)",
                        &format!("crash {}", crash_key(&h)),
                        json!({"history": hist_text(&h), "ended": format!("{how:?}"), "origin": {"seed": seed, "index": off + idx}}),
                    );
                });
                off += chunk;
            }
            // (search mode: the short exhaustive histories come last, while there is time)
            let mut off = 0u64;
            while search && off < n_exh && crashes.get() < 12 && in_time(150) {
                let chunk = 400.min(n_exh - off);
                let off_s = off.to_string();
                run_batches(&["exh", &depth_s, &off_s], chunk, 400, t, &mut rep, |rep: &mut Report, idx: u64, how: &Ended| {
                    crashes.set(crashes.get() + 1);
                    let h = &gen_exhaustive(depth)[(off + idx) as usize];
                    rep.violation(
                        "the process died or hung (use-after-free / double free) while running this history (and then dropping what it left alive)",
                        &format!("crash {}", crash_key(h)),
                        json!({"history": hist_text(h), "ended": format!("{how:?}"), "origin": {"exhaustive-depth": depth, "index": off + idx}}),
                    );
                });
                off += chunk;
            }
            if crashes.get() >= 6 {
                rep.notes.push(format!("run cut short after {} crashed histories", crashes.get()));
            }
            rep.notes.push(format!("boundary: {n_bnd} class representatives (last owner = handle / clone / into_func closure / test case × drop orders × thread × plain / context runtime; each resource kind alone, among them zero-sized script constants, two registered closures of one Rust type, a zero-sized closure; scripts with 4 … 40 script constants of small types, each read by code generated before the later constants exist; a registered closure whose state keeps script-built List[String]s, runtime dropped first) run first; exhaustive: all {n_exh} histories (runtime with constant+closure) ++ suffix of ≤ {depth} ops ending in a drop; random: {n_rand} histories"));
            if thorough {
                valgrind_subset(&mut rep, seed);
            }
        }
        Some("worker") => match args[2].as_str() {
            "bnd" => {
                start_watchdog();
                let from: usize = args[3].parse().unwrap();
                let n: usize = args[4].parse().unwrap();
                let all = gen_boundary();
                let mut drv = Driver::spawn().expect("lean driver");
                for idx in from..(from + n).min(all.len()) {
                    println!("START {idx}");
                    let o = run_history(&all[idx], Some(&mut drv), false);
                    record(&mut rep, &all[idx], &o, json!({"boundary": idx}), idx as u64);
                }
            }
            "exh" => {
                start_watchdog();
                let depth: usize = args[3].parse().unwrap();
                let off: usize = args[4].parse().unwrap();
                let from: usize = args[5].parse().unwrap();
                let n: usize = args[6].parse().unwrap();
                let all = gen_exhaustive(depth);
                let mut drv = Driver::spawn().expect("lean driver");
                for rel in from..from + n {
                    let idx = off + rel;
                    if idx >= all.len() {
                        break;
                    }
                    println!("START {rel}");
                    let o = run_history(&all[idx], Some(&mut drv), false);
                    record(&mut rep, &all[idx], &o, json!({"exhaustive-depth": depth, "index": idx}), idx as u64);
                }
            }
            "random" => {
                start_watchdog();
                let seed: u64 = args[3].parse().unwrap();
                let off: u64 = args[4].parse().unwrap();
                let from: u64 = args[5].parse().unwrap();
                let n: u64 = args[6].parse().unwrap();
                let mut drv = Driver::spawn().expect("lean driver");
                for rel in from..from + n {
                    let idx = off + rel;
                    println!("START {rel}");
                    let h = gen_random(&mut Prng::for_case(seed, idx));
                    let o = run_history(&h, Some(&mut drv), false);
                    record(&mut rep, &h, &o, json!({"seed": seed, "index": idx}), idx);
                }
            }
            // one history, with the model
            "one" => {
                start_watchdog();
                let h = parse_hist(&args[3]).expect("history");
                let mut drv = Driver::spawn().expect("lean driver");
                println!("START 0");
                let o = run_history(&h, Some(&mut drv), true);
                record(&mut rep, &h, &o, json!("replay"), 1);
            }
            // histories without the model (run under valgrind): the class representatives, then random ones
            "vg" => {
                let seed: u64 = args[3].parse().unwrap();
                let from: u64 = args[4].parse().unwrap();
                let n: u64 = args[5].parse().unwrap();
                for idx in from..from + n {
                    println!("START {idx}");
                    let h = vg_history(seed, idx);
                    let o = run_history(&h, None, false);
                    record(&mut rep, &h, &o, json!({"seed": seed, "index": idx, "valgrind": true}), idx);
                }
            }
            _ => std::process::exit(64),
        },
        Some("count") => {
            for d in 4..=8 {
                println!("depth {d}: {}", gen_exhaustive(d).len());
            }
            return;
        }
        Some("replay") => {
            let v: serde_json::Value = serde_json::from_str(&args[2]).expect("replay json");
            let hs = v["history"].as_str().expect("history").to_string();
            let h = parse_hist(&hs).expect("history parses");
            let (ended, out) = run_worker_keep_stdout(&["one", &hs], std::time::Duration::from_secs(120));
            print!("{out}");
            match ended {
                Ended::Exit(0, _) => {
                    if let Some(r) = Report::parse_stdout(&out) {
                        rep.merge_json(&r);
                    }
                }
                how => {
                    rep.evaluations += 1;
                    rep.violation(
                        "the process died or hung (use-after-free / double free) while running this history",
                        &format!("crash {}", crash_key(&h)),
                        json!({"history": hs, "ended": format!("{how:?}")}),
                    );
                }
            }
        }
        _ => {
            eprintln!("usage: c11 run <seed> <quick|thorough> | c11 replay <json>");
            std::process::exit(64);
        }
    }
    rep.emit();
}

/// stable key of a crashing history: the kinds of its drop operations
fn crash_key(h: &[Op]) -> String {
    let mut k: Vec<&str> = h
        .iter()
        .filter(|o| matches!(o, Op::DropH(..) | Op::DropP(..) | Op::DropR(..)))
        .map(|o| o.kind().trim_end_matches("@thread"))
        .collect();
    k.sort();
    k.dedup();
    if h.iter().any(|o| matches!(o, Op::IntoFunc(_))) {
        k.insert(0, "into-func");
    }
    format!("in a history with {}", k.join(","))
}

/// history number `idx` of the valgrind run: the boundary class representatives first, then random ones
fn vg_history(seed: u64, idx: u64) -> Vec<Op> {
    let b = gen_boundary();
    if (idx as usize) < b.len() { b[idx as usize].clone() } else { gen_random(&mut Prng::for_case(seed, idx)) }
}

/// Supporting evidence (thorough): the class representatives and a subset of the random histories under
/// valgrind memcheck — does freed JIT memory / a freed constant get touched?
fn valgrind_subset(rep: &mut Report, seed: u64) {
    let exe = std::env::current_exe().unwrap();
    let n = gen_boundary().len() as u64 + 40;
    let out = std::process::Command::new("valgrind")
        .args(["--error-exitcode=99", "-q", "--smc-check=all"])
        .arg(&exe)
        .args(["worker", "vg", &seed.to_string(), "0", &n.to_string()])
        .output();
    match out {
        Ok(o) => {
            let stdout = String::from_utf8_lossy(&o.stdout).to_string();
            let stderr = String::from_utf8_lossy(&o.stderr).to_string();
            let code = o.status.code();
            if code == Some(0) {
                if let Some(r) = Report::parse_stdout(&stdout) {
                    let ev = r["evaluations"].as_u64().unwrap_or(0);
                    let mut sub = Report::default();
                    sub.merge_json(&r);
                    rep.impl_violations.extend(sub.impl_violations);
                    rep.notes.push(format!("valgrind memcheck: {ev} histories (class representatives + random), no invalid read/write/free reported"));
                    rep.hist("valgrind", "histories-clean");
                }
            } else if code == Some(99) {
                let first: String = stderr.lines().take(12).collect::<Vec<_>>().join(" / ");
                let last = stdout.lines().rev().find_map(|l| l.strip_prefix("START ")).and_then(|s| s.parse::<u64>().ok()).unwrap_or(0);
                let h = vg_history(seed, last);
                rep.violation(
                    "valgrind memcheck reported an invalid memory access while running random histories",
                    "valgrind memcheck error",
                    json!({"history": hist_text(&h), "valgrind": first, "origin": {"seed": seed, "upto-index": last}}),
                );
            } else {
                rep.notes.push(format!("valgrind run unusable here (status {code:?}): {}", stderr.lines().next().unwrap_or("")));
            }
        }
        Err(e) => rep.notes.push(format!("valgrind not runnable: {e}")),
    }
}
