//! C13 correspondence: generated module trees (depth ≤ 3, width ≤ 3) with
//! same-named functions / constants / types / locals everywhere, every one
//! carrying a unique tag; every reference form (absolute `pkg.…`, relative,
//! `super…`, bare, through single / nested-list / whole-module imports at module
//! and block level) from every module and block.  Compared:
//!   implementation (real compiler, in memory through `FileSpec` and on disk
//!   through `FileTree::read`)  vs  Lean model (`RotoV.Scope.checkModuleTree`)
//!     → resolved tag / compile-error class of every reference, outcome of the
//!       whole tree, `get_function` by module path, file discovery, and the
//!       scope-graph dump (hook) for localisation                → model mismatch
//!   implementation vs the property                              → violation
//!     (import order changes meaning; a function not retrievable by its path)
//!
//! usage: c13 run <seed> <quick|thorough>
//!        c13 worker <seed> <tier> <from> <n>
//!        c13 replay <json>

use roto::{FileSpec, FileTree, Function, Item, Module, NoCtx, Runtime, SourceFile, location};
use rotov_harness::driver::Driver;
use rotov_harness::worker::{self, Ended};
use rotov_harness::{Prng, Report};
use serde_json::{Value as J, json};
use std::collections::BTreeMap;
use std::panic::{AssertUnwindSafe, catch_unwind};
use std::path::{Path as FsPath, PathBuf};
use std::sync::Mutex;
use std::time::Duration;

/// At most two violations per key and worker are forwarded (the shared report
/// keeps 200 entries in total: a frequent known finding must not crowd out
/// another key).
static SEEN_KEYS: Mutex<BTreeMap<String, u32>> = Mutex::new(BTreeMap::new());

fn violate(rep: &mut Report, what: &str, key: &str, input: J) {
    let n = {
        let mut g = SEEN_KEYS.lock().unwrap();
        let e = g.entry(key.to_string()).or_insert(0);
        *e += 1;
        *e
    };
    if n <= 2 {
        rep.violation(what, key, input);
    }
}

// ------------------------------------------------------------------ programs

const SUPER: usize = 0;
const PKG: usize = 1;
#[allow(dead_code)]
const MOD: usize = 2; // the stem `mod` (name table index 2)
/// identifiers shared by modules, functions, constants, types and locals
const POOL: &[&str] = &["aa", "bb", "cc", "ff", "gg", "kk", "tt"];
const POOL0: usize = 3;

type Path = Vec<usize>;

#[derive(Clone, Debug, PartialEq)]
enum ImpTree {
    Leaf(Path),
    List(Path, Vec<ImpTree>),
}

impl ImpTree {
    /// the expansion the parser is documented to perform
    fn flatten(&self, prefix: &[usize], out: &mut Vec<Path>) {
        match self {
            ImpTree::Leaf(p) => {
                let mut q = prefix.to_vec();
                q.extend(p);
                out.push(q);
            }
            ImpTree::List(p, subs) => {
                let mut q = prefix.to_vec();
                q.extend(p);
                for s in subs {
                    s.flatten(&q, out);
                }
            }
        }
    }
    fn render(&self, names: &[String]) -> String {
        match self {
            ImpTree::Leaf(p) => path_str(p, names),
            ImpTree::List(p, subs) => {
                let inner: Vec<String> = subs.iter().map(|s| s.render(names)).collect();
                if p.is_empty() {
                    format!("{{{}}}", inner.join(", "))
                } else {
                    format!("{}.{{{}}}", path_str(p, names), inner.join(", "))
                }
            }
        }
    }
}

fn flatten_all(imps: &[ImpTree]) -> Vec<Path> {
    let mut out = vec![];
    for i in imps {
        i.flatten(&[], &mut out);
    }
    out
}

fn path_str(p: &[usize], names: &[String]) -> String {
    p.iter().map(|&i| names[i].as_str()).collect::<Vec<_>>().join(".")
}

#[derive(Clone, Copy, Debug, PartialEq)]
enum PKind {
    Fn,
    Const,
    Ty,
}

#[derive(Clone, Debug)]
enum Stmt {
    Let(usize, i64),
    /// a parameter of the enclosing context function (first statement of its body only)
    Param(usize, i64),
    /// a nested scope, rendered as `{ … };`, `if … { … }` or `if … {} else { … }`
    Block(u8, Block),
    Probe { id: usize, kind: PKind, path: Path, form: &'static str },
}

#[derive(Clone, Debug, Default)]
struct Block {
    imports: Vec<ImpTree>,
    stmts: Vec<Stmt>,
}

#[derive(Clone, Debug)]
enum ItemD {
    Fn { name: usize, tag: i64, body: Option<Block> },
    Const { name: usize, tag: i64 },
    Ty { name: usize, tag: i64 },
    Imports(Vec<ImpTree>),
    /// a reference at module level: signature / record-field type, constant initialiser
    SigProbe { id: usize, kind: PKind, path: Path, form: &'static str },
}

#[derive(Clone, Debug)]
struct ModD {
    ident: usize,
    parent: Option<usize>,
    items: Vec<ItemD>,
}

#[derive(Clone, Debug)]
struct RtMod {
    name: usize,
    fns: Vec<(usize, i64)>,
}

#[derive(Clone, Debug)]
struct Program {
    names: Vec<String>,
    rt: Vec<RtMod>,
    mods: Vec<ModD>,
    nprobes: usize,
    note: String,
    /// references whose meaning is fixed by construction of the tree (dependency
    /// chains of imports with aliases nothing else introduces): probe id → tag
    expect: Vec<(usize, i64)>,
}

// ------------------------------------------------------------------ to the model

fn path_tok(p: &[usize], out: &mut Vec<String>) {
    out.push(p.len().to_string());
    for i in p {
        out.push(i.to_string());
    }
}

fn block_tok(b: &Block, keep: &dyn Fn(usize) -> bool, out: &mut Vec<String>) {
    let imps = flatten_all(&b.imports);
    out.push(imps.len().to_string());
    for p in &imps {
        path_tok(p, out);
    }
    let stmts: Vec<&Stmt> = b.stmts.iter().filter(|s| !matches!(s, Stmt::Probe { id, .. } if !keep(*id))).collect();
    out.push(stmts.len().to_string());
    for s in stmts {
        match s {
            Stmt::Let(x, t) => {
                out.push("L".into());
                out.push(x.to_string());
                out.push(t.to_string());
            }
            Stmt::Param(x, t) => {
                out.push("A".into());
                out.push(x.to_string());
                out.push(t.to_string());
            }
            Stmt::Block(_, b) => {
                out.push("B".into());
                block_tok(b, keep, out);
            }
            Stmt::Probe { id, kind, path, .. } => {
                out.push("P".into());
                out.push(id.to_string());
                out.push(match kind { PKind::Fn => "0", PKind::Const => "1", PKind::Ty => "2" }.into());
                path_tok(path, out);
            }
        }
    }
}

fn mod_tok(m: &ModD, keep: &dyn Fn(usize) -> bool, out: &mut Vec<String>) {
    out.push(m.ident.to_string());
    out.push(m.parent.map_or(0, |p| p + 1).to_string());
    let items: Vec<&ItemD> = m.items.iter().filter(|i| !matches!(i, ItemD::SigProbe { id, .. } if !keep(*id))).collect();
    out.push(items.len().to_string());
    for it in items {
        match it {
            ItemD::Fn { name, tag, body } => {
                out.push("F".into());
                out.push(name.to_string());
                out.push(tag.to_string());
                match body {
                    Some(b) => block_tok(b, keep, out),
                    None => {
                        out.push("0".into());
                        out.push("0".into());
                    }
                }
            }
            ItemD::Const { name, tag } => {
                out.push("C".into());
                out.push(name.to_string());
                out.push(tag.to_string());
            }
            ItemD::Ty { name, tag } => {
                out.push("T".into());
                out.push(name.to_string());
                out.push(tag.to_string());
            }
            ItemD::Imports(trees) => {
                let ps = flatten_all(trees);
                out.push("I".into());
                out.push(ps.len().to_string());
                for p in &ps {
                    path_tok(p, out);
                }
            }
            ItemD::SigProbe { id, kind, path, .. } => {
                out.push("S".into());
                out.push(id.to_string());
                out.push(match kind { PKind::Fn => "0", PKind::Const => "1", PKind::Ty => "2" }.into());
                path_tok(path, out);
            }
        }
    }
}

fn model_request(p: &Program, keep: &dyn Fn(usize) -> bool) -> String {
    let mut out: Vec<String> = vec!["c13".into(), "run".into(), "G".into(), p.rt.len().to_string()];
    for r in &p.rt {
        out.push(r.name.to_string());
        out.push("0".into());
        out.push(r.fns.len().to_string());
        for (n, t) in &r.fns {
            out.push("F".into());
            out.push(n.to_string());
            out.push(t.to_string());
            out.push("0".into());
            out.push("0".into());
        }
    }
    out.push("M".into());
    out.push(p.mods.len().to_string());
    for m in &p.mods {
        mod_tok(m, keep, &mut out);
    }
    out.join(" ")
}

#[derive(Clone, Debug, PartialEq)]
enum Out {
    Ok(i64),
    Err(String),
    Panic(String),
}

impl Out {
    fn show(&self) -> String {
        match self {
            Out::Ok(t) => format!("ok:{t}"),
            Out::Err(k) => format!("err:{k}"),
            Out::Panic(k) => format!("panic:{k}"),
        }
    }
    fn class(&self) -> String {
        match self {
            Out::Ok(_) => "ok".into(),
            Out::Err(k) => format!("err:{k}"),
            Out::Panic(_) => "panic".into(),
        }
    }
}

fn parse_out(s: &str) -> Out {
    if let Some(t) = s.strip_prefix("ok:") {
        Out::Ok(t.parse().unwrap_or(-999))
    } else if s == "ok" {
        Out::Ok(0)
    } else if let Some(k) = s.strip_prefix("err:") {
        Out::Err(k.to_string())
    } else if let Some(k) = s.strip_prefix("panic:") {
        Out::Panic(k.to_string())
    } else {
        Out::Panic(format!("model:{s}"))
    }
}

struct ModelAns {
    base: Out,
    probes: BTreeMap<usize, Out>,
    exports: BTreeMap<String, i64>,
    scopes: Vec<String>,
}

fn ask_model(drv: &mut Driver, p: &Program, keep: &dyn Fn(usize) -> bool) -> ModelAns {
    let ans = drv.ask(&model_request(p, keep));
    let parts: Vec<&str> = ans.split(';').collect();
    if parts.len() < 4 {
        return ModelAns { base: Out::Panic(format!("model:{ans}")), probes: BTreeMap::new(), exports: BTreeMap::new(), scopes: vec![] };
    }
    let base = parse_out(parts[0].trim());
    let mut probes = BTreeMap::new();
    for t in parts[1].split_whitespace() {
        if let Some((id, r)) = t.split_once('=') {
            probes.insert(id.parse().unwrap_or(usize::MAX), parse_out(r));
        }
    }
    let mut exports = BTreeMap::new();
    for t in parts[2].split_whitespace() {
        if let Some((n, tag)) = t.split_once('=') {
            let dotted: Vec<String> = n.split('.').map(|x| x.parse::<usize>().map(|i| p.names[i].clone()).unwrap_or_else(|_| format!("?{x}"))).collect();
            exports.insert(dotted.join("."), tag.parse().unwrap_or(-999));
        }
    }
    let scopes = parts[3].split_whitespace().map(|s| s.to_string()).collect();
    ModelAns { base, probes, exports, scopes }
}

// ------------------------------------------------------------------ to the compiler

fn count_blocks(b: &Block) -> usize {
    b.stmts.iter().map(|s| if let Stmt::Block(_, inner) = s { 1 + count_blocks(inner) } else { 0 }).sum()
}

/// number of nested blocks in the modules before `mi` (the model numbers
/// blocks in the order `TypeChecker::tree` meets them)
fn block_base(p: &Program, mi: usize) -> usize {
    p.mods[..mi].iter().map(|m| m.items.iter().map(|it| if let ItemD::Fn { body: Some(b), .. } = it { count_blocks(b) } else { 0 }).sum::<usize>()).sum()
}

fn render_block(b: &Block, names: &[String], keep: &dyn Fn(usize) -> bool, tags: &BTreeMap<usize, i64>, next_block: &mut usize, out: &mut String) {
    for i in &b.imports {
        out.push_str(&format!("import {};\n", i.render(names)));
    }
    for s in &b.stmts {
        match s {
            Stmt::Let(x, t) => out.push_str(&format!("let {} = {};\n", names[*x], t)),
            Stmt::Param(_, _) => {}
            Stmt::Block(style, inner) => {
                match style % 3 {
                    0 => out.push_str("{\n"),
                    1 => out.push_str("if sel != -5 {\n"),
                    _ => out.push_str("if sel == -5 { } else {\n"),
                }
                // a marker local identifies this block's scope in the hook dump
                let id = *next_block;
                *next_block += 1;
                render_imports_first(inner, names, out);
                out.push_str(&format!("let zz{id} = 0;\n"));
                render_block_body(inner, names, keep, tags, next_block, out);
                out.push_str(if style % 3 == 0 { "};\n" } else { "}\n" });
            }
            Stmt::Probe { id, kind, path, .. } => {
                if !keep(*id) {
                    continue;
                }
                let p = path_str(path, names);
                match kind {
                    PKind::Fn if id % 2 == 1 => out.push_str(&format!("if sel == {id} {{ return {p}(); }}\n")),
                    PKind::Const if id % 2 == 1 => out.push_str(&format!("if sel == {id} {{ return {p}; }}\n")),
                    PKind::Fn => out.push_str(&format!("if sel == {id} {{ let r = {p}(); return r; }}\n")),
                    PKind::Const => out.push_str(&format!("if sel == {id} {{ let r = {p}; return r; }}\n")),
                    PKind::Ty => {
                        let t = tags.get(id).copied().unwrap_or(0);
                        out.push_str(&format!(
                            "if sel == {id} {{ let v: {p}? = None; match v {{ Some(w) => {{ return w.t{t}; }} None => {{ return {t}; }} }} }}\n"
                        ));
                    }
                }
            }
        }
    }
}

fn render_imports_first(b: &Block, names: &[String], out: &mut String) {
    for i in &b.imports {
        out.push_str(&format!("import {};\n", i.render(names)));
    }
}

/// the statements of a block whose imports have been written already
fn render_block_body(b: &Block, names: &[String], keep: &dyn Fn(usize) -> bool, tags: &BTreeMap<usize, i64>, next_block: &mut usize, out: &mut String) {
    let body = Block { imports: vec![], stmts: b.stmts.clone() };
    render_block(&body, names, keep, tags, next_block, out);
}

fn render_module(p: &Program, mi: usize, keep: &dyn Fn(usize) -> bool, tags: &BTreeMap<usize, i64>) -> String {
    let m = &p.mods[mi];
    let names = &p.names;
    let mut next_block = block_base(p, mi);
    let mut out = String::new();
    for it in &m.items {
        match it {
            ItemD::Fn { name, tag, body: None } => out.push_str(&format!("fn {}() -> i64 {{ {} }}\n", names[*name], tag)),
            ItemD::Fn { name, tag, body: Some(b) } => {
                match b.stmts.first() {
                    Some(Stmt::Param(x, _)) => out.push_str(&format!("fn {}(sel: i64, {}: i64) -> i64 {{\n", names[*name], names[*x])),
                    _ => out.push_str(&format!("fn {}(sel: i64) -> i64 {{\n", names[*name])),
                }
                render_block(b, names, keep, tags, &mut next_block, &mut out);
                out.push_str(&format!("{tag}\n}}\n"));
            }
            ItemD::Const { name, tag } => out.push_str(&format!("const {}: i64 = {};\n", names[*name], tag)),
            ItemD::Ty { name, tag } => out.push_str(&format!("record {} {{ t{}: i64 }}\n", names[*name], tag)),
            ItemD::Imports(trees) => {
                for t in trees {
                    out.push_str(&format!("import {};\n", t.render(names)));
                }
            }
            ItemD::SigProbe { id, kind, path, .. } => {
                if keep(*id) {
                    let t = tags.get(id).copied().unwrap_or(0);
                    let ps = path_str(path, names);
                    match kind {
                        // a type in a function signature / in a record field
                        PKind::Ty if id % 2 == 0 => out.push_str(&format!("fn sp{id}(x: {ps}) -> i64 {{ x.t{t} }}\n")),
                        PKind::Ty => out.push_str(&format!("record rp{id} {{ x: {ps} }}\nfn sp{id}(x: rp{id}) -> i64 {{ x.x.t{t} }}\n")),
                        // a value / a call in a constant's initialiser
                        PKind::Const => out.push_str(&format!("const cp{id}: i64 = {ps};\nfn sp{id}() -> i64 {{ cp{id} }}\n")),
                        PKind::Fn => out.push_str(&format!("const cp{id}: i64 = {ps}();\nfn sp{id}() -> i64 {{ cp{id} }}\n")),
                    }
                }
            }
        }
    }
    out
}

fn children_of(p: &Program, i: usize) -> Vec<usize> {
    (0..p.mods.len()).filter(|&c| p.mods[c].parent == Some(i)).collect()
}

fn file_spec(p: &Program, i: usize, keep: &dyn Fn(usize) -> bool, tags: &BTreeMap<usize, i64>) -> FileSpec {
    let m = &p.mods[i];
    let file = SourceFile {
        // unique per file (diagnostics key their source cache by this name)
        name: format!("m{i}/{}.roto", p.names[m.ident]),
        module_name: p.names[m.ident].clone(),
        contents: render_module(p, i, keep, tags),
        location_offset: 0,
        children: Vec::new(),
    };
    let ch = children_of(p, i);
    if ch.is_empty() && i != 0 {
        FileSpec::File(file)
    } else {
        FileSpec::Directory(file, ch.into_iter().map(|c| file_spec(p, c, keep, tags)).collect())
    }
}

static PANIC_MSG: Mutex<String> = Mutex::new(String::new());

fn install_hook() {
    std::panic::set_hook(Box::new(|info| {
        let msg = info.payload().downcast_ref::<&str>().map(|s| s.to_string())
            .or_else(|| info.payload().downcast_ref::<String>().cloned())
            .unwrap_or_default();
        let loc = info.location().map(|l| l.file().rsplit('/').next().unwrap_or("").to_string()).unwrap_or_default();
        if std::env::var("C13_DEBUG").is_ok() {
            eprintln!("panic at {:?}: {msg}", info.location());
        }
        if let Ok(mut g) = PANIC_MSG.lock() {
            *g = format!("{loc}: {}", msg.chars().take(80).collect::<String>());
        }
    }));
}

fn strip_ansi(s: &str) -> String {
    let mut out = String::new();
    let mut it = s.chars().peekable();
    while let Some(c) = it.next() {
        if c == '\u{1b}' {
            for d in it.by_ref() {
                if d == 'm' {
                    break;
                }
            }
        } else {
            out.push(c);
        }
    }
    out
}

fn err_class(msg: &str) -> String {
    let m = strip_ansi(msg);
    let first = m.lines().find(|l| l.contains("rror")).unwrap_or("").to_string();
    for (pat, k) in [
        ("too many leading `super`", "tooManySuper"),
        ("cannot find value", "notDefined"),
        ("declared multiple times", "declaredTwice"),
        ("expected a module", "expectedModule"),
        ("expected a value", "expectedValue"),
        ("expected a function", "expectedFunction"),
        ("expected type", "expectedType"),
        ("no field", "noField"),
    ] {
        if first.contains(pat) {
            return k.to_string();
        }
    }
    format!("other:{}", first.chars().take(100).collect::<String>())
}

fn runtime_of(p: &Program) -> Runtime<NoCtx> {
    let mut rt = Runtime::new();
    for r in &p.rt {
        let mut m = Module::new(p.names[r.name].as_str(), "", location!()).expect("rt module");
        let mut items = vec![];
        for (n, t) in &r.fns {
            let t = *t;
            items.push(Item::from(Function::new(p.names[*n].as_str(), "", vec![], move || t, location!()).expect("rt fn")));
        }
        m.add(items);
        rt.add(vec![Item::from(m)]).expect("rt add");
    }
    rt
}

/// what the real compiler did with one variant of the program
struct ImplRun {
    base: Out,
    /// probe id → tag returned by `ctx(sel = id)`
    probes: BTreeMap<usize, Out>,
    /// dotted export path → tag (only the ones asked for)
    exports: BTreeMap<String, Out>,
    scopes: Vec<String>,
}

#[derive(Clone)]
struct Ask {
    /// (probe id, dotted path of the context function from pkg)
    calls: Vec<(usize, String)>,
    /// (dotted path below pkg, takes a selector)
    gets: Vec<(String, bool)>,
}

fn compile_and_observe(tree: FileTree, rt: &Runtime<NoCtx>, ask: &Ask, want_scopes: bool) -> ImplRun {
    let mut run = ImplRun { base: Out::Ok(0), probes: BTreeMap::new(), exports: BTreeMap::new(), scopes: vec![] };
    let r = catch_unwind(AssertUnwindSafe(|| {
        let parsed = match tree.parse() {
            Ok(p) => p,
            Err(e) => return Err(format!("{e}")),
        };
        let checked = match parsed.typecheck(rt) {
            Ok(c) => c,
            Err(e) => return Err(format!("{e}")),
        };
        let scopes = if want_scopes { roto::verif_hooks::c13::scope_dump(&checked) } else { vec![] };
        let mut pkg = checked.lower_to_mir().lower_to_lir().codegen();
        let mut probes = BTreeMap::new();
        for (id, path) in &ask.calls {
            // `!path` = a getter without selector (module-level value reference)
            let r = match (path.strip_prefix('!'), path.split_once('#')) {
                (Some(getter), _) => pkg.get_function::<fn() -> i64>(getter).map(|f| f.call()).map_err(|_| ()),
                (None, Some((fpath, arg))) => {
                    let arg: i64 = arg.parse().unwrap_or(0);
                    pkg.get_function::<fn(i64, i64) -> i64>(fpath).map(|f| f.call(*id as i64, arg)).map_err(|_| ())
                }
                (None, None) => pkg.get_function::<fn(i64) -> i64>(path).map(|f| f.call(*id as i64)).map_err(|_| ()),
            };
            probes.insert(*id, match r { Ok(t) => Out::Ok(t), Err(()) => Out::Err("get_function".into()) });
        }
        let mut exports = BTreeMap::new();
        for (path, sel) in &ask.gets {
            let r = if let Some((fpath, _)) = path.split_once('#') {
                pkg.get_function::<fn(i64, i64) -> i64>(fpath).map(|f| f.call(-1, 0)).map_err(|_| ())
            } else if *sel {
                pkg.get_function::<fn(i64) -> i64>(path).map(|f| f.call(-1)).map_err(|_| ())
            } else {
                pkg.get_function::<fn() -> i64>(path).map(|f| f.call()).map_err(|_| ())
            };
            exports.insert(path.clone(), match r { Ok(t) => Out::Ok(t), Err(()) => Out::Err("get_function".into()) });
        }
        Ok((probes, exports, scopes))
    }));
    match r {
        Ok(Ok((p, e, s))) => {
            run.probes = p;
            run.exports = e;
            run.scopes = s;
        }
        Ok(Err(msg)) => run.base = Out::Err(err_class(&msg)),
        Err(_) => run.base = Out::Panic(PANIC_MSG.lock().map(|g| g.clone()).unwrap_or_default()),
    }
    run
}

fn mem_tree(p: &Program, keep: &dyn Fn(usize) -> bool, tags: &BTreeMap<usize, i64>) -> FileTree {
    FileTree::file_spec(file_spec(p, 0, keep, tags))
}

// ------------------------------------------------------------------ on disk

fn tmp_root() -> PathBuf {
    let base = std::env::current_dir().unwrap_or_else(|_| PathBuf::from("."));
    base.join("target").join("tmp-c13").join(format!("w{}", std::process::id()))
}

/// noise the discovery must ignore, chosen by `noise` bits
fn write_tree(p: &Program, i: usize, dir: &FsPath, keep: &dyn Fn(usize) -> bool, tags: &BTreeMap<usize, i64>, noise: u64) {
    // module i owns directory `dir`; its own file is pkg.roto (root) or mod.roto
    std::fs::create_dir_all(dir).expect("mkdir");
    let own = if i == 0 { "pkg.roto" } else { "mod.roto" };
    std::fs::write(dir.join(own), render_module(p, i, keep, tags)).expect("write");
    for c in children_of(p, i) {
        let name = &p.names[p.mods[c].ident];
        let as_dir = !children_of(p, c).is_empty() || (noise >> (c % 13)) & 1 == 1;
        if as_dir {
            write_tree(p, c, &dir.join(name), keep, tags, noise);
        } else {
            std::fs::write(dir.join(format!("{name}.roto")), render_module(p, c, keep, tags)).expect("write");
        }
    }
    if noise & (1 << 20) != 0 {
        std::fs::write(dir.join("notes.txt"), "fn ff() -> i64 { 1 }").ok();
    }
    if noise & (1 << 21) != 0 {
        // a directory without mod.roto: nothing below it is a module
        let d = dir.join("zz");
        std::fs::create_dir_all(&d).ok();
        std::fs::write(d.join("ff.roto"), "fn ff() -> i64 { 2 }").ok();
    }
    if noise & (1 << 22) != 0 && i != 0 {
        // `pkg.roto` below the root is not a module
        std::fs::write(dir.join("pkg.roto"), "fn ff() -> i64 { 3 }").ok();
    }
    if noise & (1 << 23) != 0 && i == 0 {
        // `mod.roto` next to `pkg.roto` is not a module
        std::fs::write(dir.join("mod.roto"), "fn ff() -> i64 { 4 }").ok();
    }
    if noise & (1 << 24) != 0 {
        std::fs::write(dir.join("roto"), "not a module").ok();
    }
}

/// identifier-shaped, for the ASCII names the harness writes
fn ident_shaped(s: &str) -> bool {
    let mut c = s.chars();
    c.next().is_some_and(|f| f == '_' || f.is_ascii_alphabetic()) && c.all(|x| x == '_' || x.is_ascii_alphanumeric())
}

/// the `c13 discover` request for a directory: the names that are not
/// identifier-shaped, then the listing
fn discover_request(root: &FsPath, names: &mut Vec<String>) -> String {
    let mut listing_toks = vec![];
    listing(root, names, &mut listing_toks);
    let bad: Vec<String> = names.iter().enumerate().filter(|(_, n)| !ident_shaped(n)).map(|(i, _)| i.to_string()).collect();
    let mut toks = vec!["c13".to_string(), "discover".to_string(), "V".to_string(), bad.len().to_string()];
    toks.extend(bad);
    toks.extend(listing_toks);
    toks.join(" ")
}

/// the listing of a directory in `read_dir` order, as tokens for the model;
/// names are interned into `names`
fn listing(dir: &FsPath, names: &mut Vec<String>, out: &mut Vec<String>) {
    let mut entries = vec![];
    for e in std::fs::read_dir(dir).expect("read_dir") {
        let e = e.expect("entry");
        entries.push((e.path(), e.file_type().expect("ft").is_dir()));
    }
    out.push(entries.len().to_string());
    for (path, is_dir) in entries {
        let intern = |s: &str, names: &mut Vec<String>| -> usize {
            if let Some(i) = names.iter().position(|n| n == s) {
                i
            } else {
                names.push(s.to_string());
                names.len() - 1
            }
        };
        if is_dir {
            let n = intern(path.file_name().unwrap().to_str().unwrap(), names);
            out.push("d".into());
            out.push(n.to_string());
            listing(&path, names, out);
        } else {
            let stem = path.file_stem().map(|s| s.to_str().unwrap().to_string()).unwrap_or_default();
            let roto = path.extension().is_some_and(|e| e == "roto");
            let n = intern(&stem, names);
            out.push("f".into());
            out.push(n.to_string());
            out.push(if roto { "1" } else { "0" }.into());
        }
    }
}

// ------------------------------------------------------------------ generator

struct Gen<'a> {
    rng: &'a mut Prng,
    names: Vec<String>,
    next_tag: i64,
    nprobes: usize,
    /// module index → path of identifiers from pkg (excluding pkg)
    mod_paths: Vec<Vec<usize>>,
    mods: Vec<ModD>,
    rt: Vec<RtMod>,
    /// may `module_ref` produce a deliberately wrong form?
    bad_ok: bool,
}

impl<'a> Gen<'a> {
    fn tag(&mut self) -> i64 {
        self.next_tag += 1;
        self.next_tag
    }
    fn pool(&mut self) -> usize {
        POOL0 + self.rng.below(POOL.len() as u64) as usize
    }
    fn mod_name(&mut self) -> usize {
        // mostly aa/bb/cc, sometimes a name items use too
        if self.rng.chance(5, 6) { POOL0 + self.rng.below(3) as usize } else { self.pool() }
    }
    fn item_name(&mut self, kind: PKind) -> usize {
        if self.rng.chance(1, 5) {
            return self.pool();
        }
        match kind {
            PKind::Fn => POOL0 + 3 + self.rng.below(2) as usize,
            PKind::Const => POOL0 + 5,
            PKind::Ty => POOL0 + 6,
        }
    }

    fn build_tree(&mut self, max_mods: usize) {
        self.mods.push(ModD { ident: PKG, parent: None, items: vec![] });
        self.mod_paths.push(vec![]);
        let mut frontier = vec![(0usize, 1usize)];
        while let Some((m, depth)) = frontier.pop() {
            if depth > 3 {
                continue;
            }
            let width = match depth {
                1 => 1 + self.rng.below(3),
                _ => self.rng.below(3),
            } as usize;
            let mut used: Vec<usize> = vec![];
            for _ in 0..width {
                if self.mods.len() >= max_mods {
                    break;
                }
                let n = self.mod_name();
                // duplicate sibling modules are a (rare) deliberate error case
                if used.contains(&n) && !self.rng.chance(1, 25) {
                    continue;
                }
                used.push(n);
                let idx = self.mods.len();
                self.mods.push(ModD { ident: n, parent: Some(m), items: vec![] });
                let mut path = self.mod_paths[m].clone();
                path.push(n);
                self.mod_paths.push(path);
                frontier.push((idx, depth + 1));
            }
        }
    }

    /// a path (from the point of view of module `m`) that is meant to reach
    /// module `target`, in a random form; `None` when the form does not apply
    /// a name declared in module `target` (item or child module), if any
    fn member_of(&mut self, target: usize, kind: PKind) -> usize {
        let mut cands: Vec<usize> = vec![];
        for it in &self.mods[target].items {
            match it {
                ItemD::Fn { name, body: None, .. } => cands.push(*name),
                ItemD::Const { name, .. } | ItemD::Ty { name, .. } => cands.push(*name),
                _ => {}
            }
        }
        // prefer the wanted kind
        let wanted: Vec<usize> = self.mods[target].items.iter().filter_map(|it| match (it, kind) {
            (ItemD::Fn { name, body: None, .. }, PKind::Fn) => Some(*name),
            (ItemD::Const { name, .. }, PKind::Const) => Some(*name),
            (ItemD::Ty { name, .. }, PKind::Ty) => Some(*name),
            _ => None,
        }).collect();
        if !wanted.is_empty() && self.rng.chance(3, 4) {
            return *self.rng.pick(&wanted);
        }
        if !cands.is_empty() && self.rng.chance(3, 4) {
            return *self.rng.pick(&cands);
        }
        self.item_name(kind)
    }

    fn module_ref(&mut self, m: usize, target: usize) -> (Path, &'static str) {
        let tp = self.mod_paths[target].clone();
        let mp = self.mod_paths[m].clone();
        match self.rng.below(10) {
            0..=2 => {
                let mut p = vec![PKG];
                p.extend(tp);
                (p, "abs")
            }
            3..=5 if tp.len() > mp.len() && tp[..mp.len()] == mp[..] => (tp[mp.len()..].to_vec(), "rel"),
            3..=8 => {
                // super^n to the common ancestor, then down
                let mut common = 0;
                while common < mp.len() && common < tp.len() && mp[common] == tp[common] {
                    common += 1;
                }
                let ups = mp.len() - common;
                if ups == 0 {
                    let mut p = vec![PKG];
                    p.extend(tp);
                    return (p, "abs");
                }
                let mut p = vec![SUPER; ups];
                p.extend(&tp[common..]);
                (p, if ups == 1 { "super" } else { "super+" })
            }
            _ if !self.bad_ok => {
                let mut p = vec![PKG];
                p.extend(tp);
                (p, "abs")
            }
            _ => {
                // too many / misplaced supers, or garbage
                match self.rng.below(3) {
                    0 => {
                        let mut p = vec![SUPER; mp.len() + 1];
                        p.extend(tp);
                        (p, "super-too-many")
                    }
                    1 => {
                        let mut p = tp.clone();
                        p.push(SUPER);
                        (p, "super-inside")
                    }
                    _ => {
                        let n = 1 + self.rng.below(2) as usize;
                        ((0..n).map(|_| self.pool()).collect(), "random")
                    }
                }
            }
        }
    }

    fn item_path(&mut self, m: usize, kind: PKind) -> (Path, &'static str) {
        match self.rng.below(10) {
            0..=2 => (vec![self.item_name(kind)], "bare"),
            3 => (vec![self.pool(), self.pool()], "alias.item"),
            _ => {
                let target = self.rng.below(self.mods.len() as u64) as usize;
                let (mut p, form) = self.module_ref(m, target);
                if !self.rng.chance(1, 12) {
                    p.push(self.member_of(target, kind));
                }
                if self.rng.chance(1, 25) {
                    p.push(self.pool());
                }
                (p, form)
            }
        }
    }

    /// import trees for one scope whose aliases are distinct (duplicates rarely)
    fn import_trees(&mut self, m: usize, n: usize) -> Vec<ImpTree> {
        if n >= 2 && self.rng.chance(1, 4) {
            if let Some(c) = self.chain_trees(m) {
                return c;
            }
        }
        let mut out: Vec<ImpTree> = vec![];
        let mut aliases: Vec<usize> = vec![];
        for _ in 0..n {
            for _attempt in 0..5 {
                let t = self.import_tree(m, 0);
                let mut flat = vec![];
                t.flatten(&[], &mut flat);
                let new: Vec<usize> = flat.iter().filter_map(|p| p.last().copied()).collect();
                let mut clash = new.iter().any(|a| aliases.contains(a));
                for (i, a) in new.iter().enumerate() {
                    if new[..i].contains(a) {
                        clash = true;
                    }
                }
                if !clash || self.rng.chance(1, 40) {
                    aliases.extend(new);
                    out.push(t);
                    break;
                }
            }
        }
        out
    }

    /// a dependency chain of imports for one scope, in random order: a module at
    /// depth ≥ 2 is imported step by step (`import <path to x1>; import x1.x2; …;
    /// import xk.<member>;`) — every import but the first starts with the alias
    /// the one before it introduces
    fn chain_trees(&mut self, m: usize) -> Option<Vec<ImpTree>> {
        let cands: Vec<usize> = (0..self.mods.len()).filter(|&t| self.mod_paths[t].len() >= 2).collect();
        if cands.is_empty() {
            return None;
        }
        let t = *self.rng.pick(&cands);
        let tp = self.mod_paths[t].clone();
        for (i, a) in tp.iter().enumerate() {
            if tp[..i].contains(a) {
                return None;
            }
        }
        let a1 = (0..self.mods.len()).find(|&i| self.mod_paths[i] == tp[..1])?;
        self.bad_ok = false;
        let (p1, _) = self.module_ref(m, a1);
        self.bad_ok = true;
        let mut trees = vec![ImpTree::Leaf(p1)];
        for w in tp.windows(2) {
            trees.push(ImpTree::Leaf(vec![w[0], w[1]]));
        }
        let members: Vec<usize> = self.members(t).into_iter().filter(|x| !tp.contains(x)).collect();
        if !members.is_empty() && self.rng.chance(2, 3) {
            let x = *self.rng.pick(&members);
            trees.push(ImpTree::Leaf(vec![*tp.last().unwrap(), x]));
        }
        for i in (1..trees.len()).rev() {
            let j = self.rng.below(i as u64 + 1) as usize;
            trees.swap(i, j);
        }
        Some(trees)
    }

    /// names declared in module `t`: plain items and child modules
    fn members(&self, t: usize) -> Vec<usize> {
        let mut out: Vec<usize> = vec![];
        for it in &self.mods[t].items {
            match it {
                ItemD::Fn { name, body: None, .. } => out.push(*name),
                ItemD::Const { name, .. } | ItemD::Ty { name, .. } => out.push(*name),
                _ => {}
            }
        }
        for c in 0..self.mods.len() {
            if self.mods[c].parent == Some(t) {
                out.push(self.mods[c].ident);
            }
        }
        out
    }

    fn import_tree(&mut self, m: usize, _depth: usize) -> ImpTree {
        if self.rng.chance(1, 40) {
            // deliberately doubtful: any names
            let n = 1 + self.rng.below(3) as usize;
            return ImpTree::Leaf((0..n).map(|_| self.pool()).collect());
        }
        let target = self.rng.below(self.mods.len() as u64) as usize;
        self.bad_ok = self.rng.chance(1, 30);
        let (mut p, _) = self.module_ref(m, target);
        self.bad_ok = true;
        let members = self.members(target);
        if self.rng.chance(1, 3) && !members.is_empty() {
            // a nested list below a module prefix
            let n = 1 + self.rng.below(3) as usize;
            let mut subs = vec![];
            let mut taken: Vec<usize> = vec![];
            for _ in 0..n {
                let x = *self.rng.pick(&members);
                if taken.contains(&x) {
                    continue;
                }
                taken.push(x);
                // a child module: sometimes descend (sub-path or sub-list)
                let child = (0..self.mods.len()).find(|&c| self.mods[c].parent == Some(target) && self.mods[c].ident == x);
                match child {
                    Some(c) if self.rng.chance(2, 3) => {
                        let cm = self.members(c);
                        if cm.is_empty() {
                            subs.push(ImpTree::Leaf(vec![x]));
                        } else if self.rng.chance(1, 2) {
                            subs.push(ImpTree::Leaf(vec![x, *self.rng.pick(&cm)]));
                        } else {
                            let a = *self.rng.pick(&cm);
                            let b = *self.rng.pick(&cm);
                            let mut l = vec![ImpTree::Leaf(vec![a])];
                            if b != a {
                                l.push(ImpTree::Leaf(vec![b]));
                            }
                            subs.push(ImpTree::List(vec![x], l));
                        }
                    }
                    _ => subs.push(ImpTree::Leaf(vec![x])),
                }
            }
            if self.rng.chance(1, 6) {
                // `{a, b}` wrapped once more: `{{a, b}}`
                return ImpTree::List(p, vec![ImpTree::List(vec![], subs)]);
            }
            ImpTree::List(p, subs)
        } else {
            if !members.is_empty() && !self.rng.chance(1, 4) {
                // an item; otherwise the whole module
                p.push(*self.rng.pick(&members));
            }
            ImpTree::Leaf(p)
        }
    }

    fn probe(&mut self, m: usize) -> Stmt {
        let kind = *self.rng.pick(&[PKind::Fn, PKind::Fn, PKind::Const, PKind::Ty]);
        let (path, form) = self.item_path(m, kind);
        let id = self.nprobes;
        self.nprobes += 1;
        Stmt::Probe { id, kind, path, form }
    }

    fn block(&mut self, m: usize, depth: usize) -> Block {
        let mut b = Block::default();
        let nimp = match self.rng.below(6) {
            0 | 1 => 0,
            2 | 3 => 1,
            4 => 2,
            _ => 3,
        };
        b.imports = self.import_trees(m, nimp);
        let n = 2 + self.rng.below(4) as usize;
        let mut lets: Vec<usize> = vec![];
        for _ in 0..n {
            match self.rng.below(8) {
                0 => {
                    if let Some(x) = self.fresh(&mut lets, None) {
                        let t = self.tag();
                        b.stmts.push(Stmt::Let(x, t));
                    }
                }
                1 | 2 if depth < 3 => {
                    let style = self.rng.below(3) as u8;
                    b.stmts.push(Stmt::Block(style, self.block(m, depth + 1)));
                }
                _ => b.stmts.push(self.probe(m)),
            }
        }
        b
    }

    /// a fresh name for a scope (a duplicate only as a rare deliberate error)
    fn fresh(&mut self, used: &mut Vec<usize>, kind: Option<PKind>) -> Option<usize> {
        for _ in 0..6 {
            let n = match kind { Some(k) => self.item_name(k), None => self.pool() };
            if !used.contains(&n) || self.rng.chance(1, 60) {
                used.push(n);
                return Some(n);
            }
        }
        None
    }

    fn fill_decls(&mut self, m: usize) {
        let mut items = vec![];
        // child modules are declared in this module's scope too
        let mut used: Vec<usize> = (0..self.mods.len()).filter(|&c| self.mods[c].parent == Some(m)).map(|c| self.mods[c].ident).collect();
        let nfn = self.rng.below(3) as usize;
        for _ in 0..nfn {
            if let Some(name) = self.fresh(&mut used, Some(PKind::Fn)) {
                let tag = self.tag();
                items.push(ItemD::Fn { name, tag, body: None });
            }
        }
        if self.rng.chance(1, 2) {
            if let Some(name) = self.fresh(&mut used, Some(PKind::Const)) {
                let tag = self.tag();
                items.push(ItemD::Const { name, tag });
            }
        }
        if self.rng.chance(1, 2) {
            if let Some(name) = self.fresh(&mut used, Some(PKind::Ty)) {
                let tag = self.tag();
                items.push(ItemD::Ty { name, tag });
            }
        }
        self.mods[m].items = items;
    }

    fn fill_refs(&mut self, m: usize) {
        let mut items = std::mem::take(&mut self.mods[m].items);
        let nimp = match self.rng.below(5) {
            0 | 1 => 0,
            2 => 1,
            3 => 2,
            _ => 3,
        };
        if nimp > 0 {
            let trees = self.import_trees(m, nimp);
            if !trees.is_empty() {
                items.push(ItemD::Imports(trees));
            }
        }
        // context functions: unique names outside the pool
        let nctx = 1 + self.rng.below(2) as usize;
        for j in 0..nctx {
            let name = self.names.len();
            self.names.push(format!("cx{m}x{j}"));
            let tag = self.tag();
            let mut body = self.block(m, 0);
            if self.rng.chance(1, 3) {
                // a parameter named like an item / module / local; a `let` of the same
                // name in the function body would be "declared twice": keep that rare
                let x = self.pool();
                let clash = body.stmts.iter().any(|s| matches!(s, Stmt::Let(y, _) if *y == x));
                if !clash || self.rng.chance(1, 30) {
                    let t = self.tag();
                    body.stmts.insert(0, Stmt::Param(x, t));
                }
            }
            items.push(ItemD::Fn { name, tag, body: Some(body) });
        }
        let nsig = self.rng.below(3) as usize;
        for _ in 0..nsig {
            let kind = *self.rng.pick(&[PKind::Ty, PKind::Ty, PKind::Const, PKind::Fn]);
            let (path, form) = self.item_path(m, kind);
            let id = self.nprobes;
            self.nprobes += 1;
            items.push(ItemD::SigProbe { id, kind, path, form });
        }
        // declarations and imports in any order
        for i in (1..items.len()).rev() {
            let j = self.rng.below(i as u64 + 1) as usize;
            items.swap(i, j);
        }
        self.mods[m].items = items;
    }
}

fn base_names() -> Vec<String> {
    let mut names = vec!["super".to_string(), "pkg".to_string(), "mod".to_string()];
    names.extend(POOL.iter().map(|s| s.to_string()));
    names
}

/// Most cases should be trees that compile (so that references can be
/// observed): up to 12 candidates are drawn and the first one the model accepts
/// is taken; every fifth case takes its first candidate whatever it is.
fn gen_case(drv: &mut Driver, seed: u64, index: u64, tier: &str) -> Program {
    let mut last = None;
    for attempt in 0..12u64 {
        let mut p = gen_candidate(seed, index, attempt, tier);
        normalize_order(&mut p);
        if index % 5 == 4 {
            return p;
        }
        let none = |_: usize| false;
        let ok = ask_model(drv, &p, &none).base == Out::Ok(0);
        if ok {
            return p;
        }
        last = Some(p);
    }
    last.unwrap()
}

fn gen_candidate(seed: u64, index: u64, attempt: u64, tier: &str) -> Program {
    let mut rng = Prng::for_case(seed ^ (attempt.wrapping_mul(0x5851_F42D_4C95_7F2D)), index);
    let max_mods = if tier == "thorough" { 10 } else { 7 };
    let mut g = Gen { rng: &mut rng, names: base_names(), next_tag: 100, nprobes: 0, mod_paths: vec![], mods: vec![], rt: vec![], bad_ok: true };
    g.build_tree(max_mods);
    for m in 0..g.mods.len() {
        g.fill_decls(m);
    }
    for m in 0..g.mods.len() {
        g.fill_refs(m);
    }
    if g.rng.chance(1, 3) {
        // a registered runtime module whose name scripts also use
        let name = g.mod_name();
        let nf = 1 + g.rng.below(2) as usize;
        let mut fns: Vec<(usize, i64)> = vec![];
        for _ in 0..nf {
            let n = g.item_name(PKind::Fn);
            if fns.iter().all(|(x, _)| *x != n) {
                let t = g.tag();
                fns.push((n, t));
            }
        }
        g.rt.push(RtMod { name, fns });
    }
    let nprobes = g.nprobes;
    Program { names: g.names, rt: g.rt, mods: g.mods, nprobes, note: format!("generated seed={seed} index={index} attempt={attempt}"), expect: vec![] }
}

/// `FileTree::file_spec` numbers files in depth-first pre-order; the module
/// list handed to the model is in that order.
fn normalize_order(p: &mut Program) {
    fn dfs(p: &Program, i: usize, out: &mut Vec<usize>) {
        out.push(i);
        for c in children_of(p, i) {
            dfs(p, c, out);
        }
    }
    let mut order = vec![];
    dfs(p, 0, &mut order);
    let mut new_index = vec![0usize; p.mods.len()];
    for (new, old) in order.iter().enumerate() {
        new_index[*old] = new;
    }
    let mut mods: Vec<ModD> = order.iter().map(|&o| p.mods[o].clone()).collect();
    for m in mods.iter_mut() {
        m.parent = m.parent.map(|x| new_index[x]);
    }
    p.mods = mods;
}

// ------------------------------------------------------------------ fixed cases

fn leaf(p: &[usize]) -> ImpTree {
    ImpTree::Leaf(p.to_vec())
}

/// the boundary table: index < fixed_cases().len() replays these
fn fixed_cases() -> Vec<Program> {
    let (aa, bb, cc, ff, gg, kk, tt) = (3, 4, 5, 6, 7, 8, 9);
    let mut out = vec![];
    let mk = |note: &str, rt: Vec<RtMod>, mods: Vec<ModD>, extra: &[&str]| {
        let mut names = base_names();
        names.extend(extra.iter().map(|s| s.to_string()));
        let mut n = 0;
        fn count(b: &Block, n: &mut usize) {
            for s in &b.stmts {
                match s {
                    Stmt::Probe { id, .. } => *n = (*n).max(id + 1),
                    Stmt::Block(_, b) => count(b, n),
                    _ => {}
                }
            }
        }
        for m in &mods {
            for it in &m.items {
                match it {
                    ItemD::Fn { body: Some(b), .. } => count(b, &mut n),
                    ItemD::SigProbe { id, .. } => n = n.max(id + 1),
                    _ => {}
                }
            }
        }
        Program { names, rt, mods, nprobes: n, note: note.to_string(), expect: vec![] }
    };
    let f = |name, tag| ItemD::Fn { name, tag, body: None };
    let cx = |name, tag, b: Block| ItemD::Fn { name, tag, body: Some(b) };
    let pr = |id, kind, path: &[usize]| Stmt::Probe { id, kind, path: path.to_vec(), form: "fixed" };
    let c0 = 10; // first extra name

    // 0: block-level import order: `aa` is both pkg.aa (outer declaration) and the alias of pkg.bb.aa
    out.push(mk(
        "import order: first segment is an outer declaration and the alias of a sibling import",
        vec![],
        vec![
            ModD { ident: PKG, parent: None, items: vec![cx(c0, 900, Block {
                imports: vec![leaf(&[bb, aa]), leaf(&[aa, ff])],
                stmts: vec![pr(0, PKind::Fn, &[ff]), pr(1, PKind::Fn, &[aa, ff])],
            })] },
            ModD { ident: aa, parent: Some(0), items: vec![f(ff, 101)] },
            ModD { ident: bb, parent: Some(0), items: vec![] },
            ModD { ident: aa, parent: Some(2), items: vec![f(ff, 102)] },
        ],
        &["cx0"],
    ));
    // 1: module-level import order with a registered runtime module of the same name
    out.push(mk(
        "import order: first segment is a runtime module and the alias of a sibling import",
        vec![RtMod { name: aa, fns: vec![(ff, 201)] }],
        vec![
            ModD { ident: PKG, parent: None, items: vec![] },
            ModD { ident: cc, parent: Some(0), items: vec![
                ItemD::Imports(vec![leaf(&[PKG, bb, aa]), leaf(&[aa, ff])]),
                cx(c0, 900, Block { imports: vec![], stmts: vec![pr(0, PKind::Fn, &[ff]), pr(1, PKind::Fn, &[aa, ff])] }),
            ] },
            ModD { ident: bb, parent: Some(0), items: vec![] },
            ModD { ident: aa, parent: Some(2), items: vec![f(ff, 102)] },
        ],
        &["cx0"],
    ));
    // 2: super from nested modules and blocks, too many supers, super inside a path
    out.push(mk(
        "super chains from a depth-3 module and from blocks",
        vec![],
        vec![
            ModD { ident: PKG, parent: None, items: vec![f(ff, 101), ItemD::Const { name: kk, tag: 111 }] },
            ModD { ident: aa, parent: Some(0), items: vec![f(ff, 102), ItemD::Ty { name: tt, tag: 112 }] },
            ModD { ident: bb, parent: Some(1), items: vec![f(ff, 103)] },
            ModD { ident: cc, parent: Some(2), items: vec![f(ff, 104), cx(c0, 900, Block {
                imports: vec![],
                stmts: vec![
                    pr(0, PKind::Fn, &[SUPER, ff]),
                    pr(1, PKind::Fn, &[SUPER, SUPER, ff]),
                    pr(2, PKind::Fn, &[SUPER, SUPER, SUPER, ff]),
                    pr(3, PKind::Fn, &[SUPER, SUPER, SUPER, SUPER, ff]),
                    pr(4, PKind::Fn, &[SUPER, cc, ff]),
                    pr(5, PKind::Fn, &[PKG, aa, SUPER, ff]),
                    pr(6, PKind::Const, &[SUPER, SUPER, SUPER, kk]),
                    pr(7, PKind::Ty, &[SUPER, SUPER, tt]),
                    Stmt::Block(1, Block { imports: vec![leaf(&[SUPER, SUPER])], stmts: vec![
                        pr(8, PKind::Fn, &[aa, ff]),
                        pr(9, PKind::Fn, &[SUPER, ff]),
                        pr(10, PKind::Fn, &[ff]),
                    ] }),
                ],
            })] },
        ],
        &["cx0"],
    ));
    // 3: later segments are direct members only: imports and outer names are not members
    out.push(mk(
        "later segments see declarations only (not imports, not outer scopes)",
        vec![],
        vec![
            ModD { ident: PKG, parent: None, items: vec![f(ff, 101), f(gg, 105), cx(c0, 900, Block {
                imports: vec![],
                stmts: vec![
                    pr(0, PKind::Fn, &[aa, ff]),
                    pr(1, PKind::Fn, &[aa, gg]),
                    pr(2, PKind::Fn, &[aa, PKG, ff]),
                    pr(3, PKind::Fn, &[PKG, aa, bb, ff]),
                    pr(4, PKind::Fn, &[aa, bb, gg]),
                ],
            })] },
            ModD { ident: aa, parent: Some(0), items: vec![ItemD::Imports(vec![leaf(&[PKG, ff])])] },
            ModD { ident: bb, parent: Some(1), items: vec![f(ff, 103)] },
        ],
        &["cx0"],
    ));
    // 4: shadowing: local vs import vs module item vs outer block
    out.push(mk(
        "shadowing between locals, block imports, module items and module imports",
        vec![],
        vec![
            ModD { ident: PKG, parent: None, items: vec![
                f(ff, 101),
                ItemD::Imports(vec![leaf(&[aa, gg])]),
                cx(c0, 900, Block {
                    imports: vec![leaf(&[aa, ff])],
                    stmts: vec![
                        pr(0, PKind::Fn, &[ff]),
                        pr(1, PKind::Fn, &[gg]),
                        Stmt::Let(gg, 301),
                        pr(2, PKind::Const, &[gg]),
                        pr(3, PKind::Fn, &[gg]),
                        Stmt::Block(0, Block { imports: vec![leaf(&[PKG, aa, gg])], stmts: vec![
                            pr(4, PKind::Fn, &[gg]),
                            Stmt::Let(ff, 302),
                            pr(5, PKind::Const, &[ff]),
                        ] }),
                        pr(6, PKind::Fn, &[ff]),
                    ],
                }),
            ] },
            ModD { ident: aa, parent: Some(0), items: vec![f(ff, 102), f(gg, 103)] },
        ],
        &["cx0"],
    ));
    // 5: nested import lists
    out.push(mk(
        "nested import lists expand to prefix ++ sub-path",
        vec![],
        vec![
            ModD { ident: PKG, parent: None, items: vec![
                ItemD::Imports(vec![ImpTree::List(vec![aa], vec![
                    leaf(&[ff]),
                    ImpTree::List(vec![bb], vec![leaf(&[gg]), leaf(&[kk])]),
                    ImpTree::List(vec![], vec![leaf(&[tt])]),
                ])]),
                cx(c0, 900, Block { imports: vec![], stmts: vec![
                    pr(0, PKind::Fn, &[ff]), pr(1, PKind::Fn, &[gg]), pr(2, PKind::Const, &[kk]), pr(3, PKind::Ty, &[tt]),
                ] }),
                ItemD::SigProbe { id: 4, kind: PKind::Ty, path: vec![tt], form: "fixed" },
                ItemD::SigProbe { id: 5, kind: PKind::Ty, path: vec![aa, tt], form: "fixed" },
                ItemD::SigProbe { id: 6, kind: PKind::Fn, path: vec![aa, ff], form: "fixed" },
                ItemD::SigProbe { id: 7, kind: PKind::Const, path: vec![aa, bb, kk], form: "fixed" },
            ] },
            ModD { ident: aa, parent: Some(0), items: vec![f(ff, 102), ItemD::Ty { name: tt, tag: 112 }] },
            ModD { ident: bb, parent: Some(1), items: vec![f(gg, 103), ItemD::Const { name: kk, tag: 113 }] },
        ],
        &["cx0"],
    ));
    // 6: `super.x` against `pkg.x`: what the parent module imports is not a member of it
    out.push(mk(
        "super.x where x is only imported by (or visible from) the parent module",
        vec![],
        vec![
            ModD { ident: PKG, parent: None, items: vec![ItemD::Imports(vec![leaf(&[bb, gg])])] },
            ModD { ident: aa, parent: Some(0), items: vec![cx(c0, 900, Block { imports: vec![], stmts: vec![
                pr(0, PKind::Fn, &[SUPER, gg]),
                pr(1, PKind::Fn, &[PKG, gg]),
                pr(2, PKind::Fn, &[SUPER, PKG, bb, gg]),
                pr(3, PKind::Fn, &[SUPER, bb, gg]),
                pr(4, PKind::Fn, &[PKG, bb, gg]),
            ] })] },
            ModD { ident: bb, parent: Some(0), items: vec![f(gg, 103)] },
        ],
        &["cx0"],
    ));
    // 7: a child module of the root called `pkg` must not capture absolute paths
    out.push(mk(
        "a module named pkg below the root: pkg.… still starts at the package root",
        vec![],
        vec![
            ModD { ident: PKG, parent: None, items: vec![cx(c0, 900, Block { imports: vec![], stmts: vec![
                pr(0, PKind::Fn, &[PKG, aa, ff]),
                pr(1, PKind::Fn, &[aa, ff]),
            ] })] },
            ModD { ident: aa, parent: Some(0), items: vec![f(ff, 101), cx(c0 + 1, 901, Block { imports: vec![], stmts: vec![
                pr(2, PKind::Fn, &[PKG, aa, ff]),
                pr(3, PKind::Fn, &[SUPER, PKG, aa, ff]),
            ] })] },
            ModD { ident: PKG, parent: Some(0), items: vec![] },
            ModD { ident: aa, parent: Some(2), items: vec![f(ff, 102)] },
        ],
        &["cx0", "cx1"],
    ));
    // 8: a FileSpec whose root file is not called pkg (e.g. built with SourceFile::read("aa.roto"))
    out.push(mk(
        "the root of a FileSpec is the package root whatever its file is called",
        vec![],
        vec![
            ModD { ident: aa, parent: None, items: vec![f(ff, 101), cx(c0, 900, Block { imports: vec![], stmts: vec![
                pr(0, PKind::Fn, &[ff]),
                pr(1, PKind::Fn, &[PKG, ff]),
                pr(2, PKind::Fn, &[PKG, bb, gg]),
            ] })] },
            ModD { ident: bb, parent: Some(0), items: vec![f(gg, 102)] },
        ],
        &["cx0"],
    ));
    out
}

// ------------------------------------------------------------------ dependency chains of imports

/// the `idx`-th permutation of `0..n` (lexicographic; `idx < n!`)
fn nth_perm(n: usize, mut idx: u64) -> Vec<usize> {
    let mut pool: Vec<usize> = (0..n).collect();
    let mut out = vec![];
    for k in (1..=n).rev() {
        let f: u64 = (1..k as u64).product();
        let q = (idx / f) as usize;
        idx %= f;
        out.push(pool.remove(q.min(pool.len() - 1)));
    }
    out
}

const CHAIN_LENGTHS: [usize; 3] = [3, 4, 5];
const CHAIN_PLACEMENTS: u64 = 2;

fn chain_perms_per_placement() -> u64 {
    CHAIN_LENGTHS.iter().map(|&n| (1..=n as u64).product::<u64>()).sum()
}

/// class representatives: one scope whose `n` imports form a dependency chain
/// (`import super.aa; import aa.bb; …; import <innermost>.ff;`), written in the
/// `k`-th order; every alias is introduced by nothing but its import, so every
/// order must compile and mean the same.  Placement 0: at module level;
/// placement 1: in an `if` block of a function whose module has its own `ff`.
fn chain_case(k: u64) -> Option<Program> {
    let per = chain_perms_per_placement();
    if k >= per * CHAIN_PLACEMENTS {
        return None;
    }
    let placement = k / per;
    let mut r = k % per;
    let mut n = 0;
    for &len in &CHAIN_LENGTHS {
        let f: u64 = (1..=len as u64).product();
        if r < f {
            n = len;
            break;
        }
        r -= f;
    }
    let perm = nth_perm(n, r);
    let (aa, bb, cc, ff) = (3, 4, 5, 6);
    let mut names = base_names();
    let c0 = names.len();
    names.extend(["cx0", "dd", "uu"].iter().map(|s| s.to_string()));
    let (cx0, dd, uu) = (c0, c0 + 1, c0 + 2);
    let chain_mods = [aa, bb, cc, dd];
    let f = |name, tag| ItemD::Fn { name, tag, body: None };
    // pkg, then the nested modules aa { bb { … } }, each with its own `ff`
    let mut mods = vec![ModD { ident: PKG, parent: None, items: vec![f(ff, 2000)] }];
    for d in 0..n - 1 {
        mods.push(ModD { ident: chain_mods[d], parent: Some(d), items: vec![f(ff, 1001 + d as i64)] });
    }
    let deep = 1001 + (n as i64 - 2);
    // the imports in dependency order
    let mut chain: Vec<Path> = vec![vec![SUPER, aa]];
    for d in 1..n - 1 {
        chain.push(vec![chain_mods[d - 1], chain_mods[d]]);
    }
    chain.push(vec![chain_mods[n - 2], ff]);
    let written: Vec<ImpTree> = perm.iter().map(|&i| ImpTree::Leaf(chain[i].clone())).collect();
    let pr = |id, path: &[usize]| Stmt::Probe { id, kind: PKind::Fn, path: path.to_vec(), form: "chain" };
    let user = if placement == 0 {
        ModD { ident: uu, parent: Some(0), items: vec![
            ItemD::Imports(written),
            ItemD::Fn { name: cx0, tag: 900, body: Some(Block { imports: vec![], stmts: vec![
                pr(0, &[ff]), pr(1, &[chain_mods[n - 2], ff]), pr(2, &[aa, ff]),
            ] }) },
        ] }
    } else {
        ModD { ident: uu, parent: Some(0), items: vec![
            f(ff, 3000),
            ItemD::Fn { name: cx0, tag: 900, body: Some(Block { imports: vec![], stmts: vec![
                Stmt::Block(1, Block { imports: written, stmts: vec![pr(0, &[ff]), pr(1, &[chain_mods[n - 2], ff]), pr(2, &[aa, ff])] }),
                pr(3, &[ff]),
            ] }) },
        ] }
    };
    mods.push(user);
    let mut expect = vec![(0, deep), (1, deep), (2, 1001)];
    if placement == 1 {
        expect.push((3, 3000));
    }
    Some(Program {
        names,
        rt: vec![],
        mods,
        nprobes: expect.len(),
        note: format!("dependency chain of {n} imports, {} level, written in order {:?}", if placement == 0 { "module" } else { "block" }, perm),
        expect,
    })
}


// ------------------------------------------------------------------ shapes of import lists

/// kinds of items of an import list below the prefix `pkg.aa`
/// (`x` is the name the item imports):
/// `L` `x` · `M` `bb.x` · `G` `bb.{x}` · `D` `dd.{x}` · `B` `{x}` · `N` `bb.{cc.{x}, tt}`
const LIST_KINDS: [char; 6] = ['L', 'M', 'G', 'D', 'B', 'N'];

/// the shapes: every sequence of two kinds (but `N, N`: `tt` twice) and every
/// sequence of three of the first five kinds, at module level; the sequences of
/// two again in a block
fn list_shapes() -> Vec<(Vec<char>, bool)> {
    let mut out = vec![];
    for block in [false, true] {
        for a in LIST_KINDS {
            for b in LIST_KINDS {
                if !(a == 'N' && b == 'N') {
                    out.push((vec![a, b], block));
                }
            }
        }
        if !block {
            for a in &LIST_KINDS[..5] {
                for b in &LIST_KINDS[..5] {
                    for c in &LIST_KINDS[..5] {
                        out.push((vec![*a, *b, *c], false));
                    }
                }
            }
        }
    }
    out
}

fn list_cases() -> u64 {
    list_shapes().len() as u64
}

/// class representatives: one `import pkg.aa.{…};` whose list has the `k`-th
/// shape — every position of a group (`bb.{…}`, `dd.{…}`, `{…}`, two levels deep)
/// relative to plain and multi-segment items.  `aa`, `aa.bb`, `aa.bb.cc` and
/// `aa.dd` all declare `ff`, `gg`, `kk` and `tt` with different tags, so a path
/// expanded under the wrong prefix is a *different item* (or no item), and the
/// meaning of every alias is fixed by construction (not by `ImpTree::flatten`).
fn list_case(k: u64) -> Option<Program> {
    let shapes = list_shapes();
    let (shape, in_block) = shapes.get(k as usize)?.clone();
    let (aa, bb, cc, ff, gg, kk, tt) = (3, 4, 5, 6, 7, 8, 9);
    let mut names = base_names();
    let c0 = names.len();
    names.extend(["cx0", "dd", "uu"].iter().map(|s| s.to_string()));
    let (cx0, dd, uu) = (c0, c0 + 1, c0 + 2);
    let f = |name, tag| ItemD::Fn { name, tag, body: None };
    let members = |base: i64| vec![f(ff, base + 1), f(gg, base + 2), f(kk, base + 3), f(tt, base + 4)];
    let mut mods = vec![
        ModD { ident: PKG, parent: None, items: vec![] },
        ModD { ident: aa, parent: Some(0), items: members(1100) },
        ModD { ident: bb, parent: Some(1), items: members(1200) },
        ModD { ident: cc, parent: Some(2), items: members(1300) },
        ModD { ident: dd, parent: Some(1), items: members(1400) },
    ];
    let item_names = [ff, gg, kk];
    let mut items = vec![];
    let mut expect: Vec<(usize, i64)> = vec![];
    let mut probes = vec![];
    let mut probe = |name: usize, tag: i64, probes: &mut Vec<Stmt>| {
        let id = probes.len();
        probes.push(Stmt::Probe { id, kind: PKind::Fn, path: vec![name], form: "list" });
        expect.push((id, tag));
    };
    for (j, kind) in shape.iter().enumerate() {
        let x = item_names[j];
        let off = j as i64 + 1;
        match kind {
            'L' => {
                items.push(leaf(&[x]));
                probe(x, 1100 + off, &mut probes);
            }
            'M' => {
                items.push(leaf(&[bb, x]));
                probe(x, 1200 + off, &mut probes);
            }
            'G' => {
                items.push(ImpTree::List(vec![bb], vec![leaf(&[x])]));
                probe(x, 1200 + off, &mut probes);
            }
            'D' => {
                items.push(ImpTree::List(vec![dd], vec![leaf(&[x])]));
                probe(x, 1400 + off, &mut probes);
            }
            'B' => {
                items.push(ImpTree::List(vec![], vec![leaf(&[x])]));
                probe(x, 1100 + off, &mut probes);
            }
            _ => {
                items.push(ImpTree::List(vec![bb], vec![ImpTree::List(vec![cc], vec![leaf(&[x])]), leaf(&[tt])]));
                probe(x, 1300 + off, &mut probes);
                probe(tt, 1204, &mut probes);
            }
        }
    }
    let written = vec![ImpTree::List(vec![PKG, aa], items)];
    let user = if in_block {
        ModD { ident: uu, parent: Some(0), items: vec![ItemD::Fn { name: cx0, tag: 900, body: Some(Block { imports: vec![], stmts: vec![
            Stmt::Block(1, Block { imports: written, stmts: probes }),
        ] }) }] }
    } else {
        ModD { ident: uu, parent: Some(0), items: vec![
            ItemD::Imports(written),
            ItemD::Fn { name: cx0, tag: 900, body: Some(Block { imports: vec![], stmts: probes }) },
        ] }
    };
    mods.push(user);
    Some(Program {
        names,
        rt: vec![],
        mods,
        nprobes: expect.len(),
        note: format!("import list of shape {} below `pkg.aa`, {} level", shape.iter().collect::<String>(), if in_block { "block" } else { "module" }),
        expect,
    })
}

/// the property for trees whose meaning is fixed by construction: every order of
/// a dependency chain compiles and every reference means the designated item
fn expect_oracle(rep: &mut Report, p: &Program, res: &CaseResult, ident: &J, label: &str) {
    if p.expect.is_empty() {
        return;
    }
    let all = |_: usize| true;
    let empty = BTreeMap::new();
    let infos = probe_infos(p).probes;
    for (id, tag) in &p.expect {
        let got = res.seen.get(id).cloned().unwrap_or_else(|| res.base.clone());
        rep.evaluations += 1;
        if got != Out::Ok(*tag) {
            let what = if matches!(got, Out::Ok(_)) { "wrong-item" } else { "rejected" };
            let is_list = p.note.starts_with("import list");
            let why = if is_list {
                "an item of a nested import list is the path made of the prefixes of the groups that enclose it, then its own segments"
            } else {
                "in every order of the imports: each import is resolvable once the import of the same scope it depends on has been processed"
            };
            violate(
                rep,
                &format!(
                    "{}: the reference `{}` must mean the item with tag {tag} ({why}), the compiler says {} ({label})",
                    p.note, infos.get(id).map(|i| path_str(&i.path, &p.names)).unwrap_or_default(), got.show()
                ),
                &format!("{}:{what}", if is_list { "import-list" } else { "import-chain" }),
                json!({"case": ident, "variant": label, "probe": id, "sources": sources_json(p, &all, &empty)}),
            );
        }
    }
}

const ENUM_CHAIN_CASES: u64 = 48;

/// module → enum → variant chains (enums are outside the Lean model: judged by
/// running the program): `import super.aa; import aa.bb; import bb.Color;
/// import Color.Green;` in every order, at module level (k < 24) and in a block
fn enum_chain_case(rep: &mut Report, k: u64, ident: &J) {
    let perm = nth_perm(4, k % 24);
    let in_block = k / 24 == 1;
    let chain = ["import super.aa;", "import aa.bb;", "import bb.Color;", "import Color.Green;"];
    let imports: String = perm.iter().map(|&i| format!("{}\n", chain[i])).collect();
    let user = if in_block {
        format!("fn pick(c: i32) -> i32 {{ 4000 + c }}\nfn run(x: i32) -> i32 {{\nif x > 0 {{\n{imports}x + bb.pick(Green)\n}} else {{\npick(x)\n}}\n}}\n")
    } else {
        format!("{imports}fn run(x: i32) -> i32 {{ x + bb.pick(Green) }}\n")
    };
    let file = |name: &str, module: &str, src: &str| SourceFile {
        name: name.to_string(),
        module_name: module.to_string(),
        contents: src.to_string(),
        location_offset: 0,
        children: Vec::new(),
    };
    let bb_src = "enum Color { Red, Green }\nfn pick(c: Color) -> i32 {\nmatch c {\nRed => 1,\nGreen => 2,\n}\n}\n";
    let spec = FileSpec::Directory(
        file("e0/pkg.roto", "pkg", "fn pick(c: i32) -> i32 { 2000 + c }\n"),
        vec![
            FileSpec::Directory(file("e1/aa/mod.roto", "aa", "fn pick(c: i32) -> i32 { 1000 + c }\n"), vec![FileSpec::File(file("e2/aa/bb.roto", "bb", bb_src))]),
            FileSpec::File(file("e3/uu.roto", "uu", &user)),
        ],
    );
    let rt = Runtime::new();
    let got = catch_unwind(AssertUnwindSafe(|| match FileTree::file_spec(spec).compile(&rt) {
        Ok(mut pkg) => match pkg.get_function::<fn(i32) -> i32>("uu.run") {
            Ok(f) => format!("run(5)={} run(-5)={}", f.call(5), f.call(-5)),
            Err(_) => "uu.run not retrievable".to_string(),
        },
        Err(e) => format!("rejected: {}", strip_ansi(&format!("{e}")).lines().take(4).collect::<Vec<_>>().join(" | ")),
    }))
    .unwrap_or_else(|_| format!("panic:{}", PANIC_MSG.lock().map(|g| g.clone()).unwrap_or_default()));
    let want = if in_block { "run(5)=7 run(-5)=3995".to_string() } else { "run(5)=7 run(-5)=-3".to_string() };
    rep.evaluations += 1;
    rep.class(format!("enum-chain|{}|{}", if in_block { "block" } else { "module" }, if got == want { "ok" } else { "differs" }));
    rep.hist("import_chain", "enum-variant");
    if got != want {
        violate(
            rep,
            &format!("module → enum → variant chain of imports written in order {perm:?} ({}): expected {want}, got {got}", if in_block { "block level" } else { "module level" }),
            "import-chain:enum-variant",
            json!({"case": ident, "order": perm, "sources": {"uu.roto": user, "aa/bb.roto": bb_src}}),
        );
    }
}

// ------------------------------------------------------------------ one case

fn reverse_imports_block(b: &mut Block) {
    b.imports.reverse();
    for s in b.stmts.iter_mut() {
        if let Stmt::Block(_, inner) = s {
            reverse_imports_block(inner);
        }
    }
}

/// the same program with the import statements of every scope in reverse order
fn reversed_imports(p: &Program) -> Program {
    let mut q = p.clone();
    for m in q.mods.iter_mut() {
        // reverse the sequence of module-level import paths: reverse the order
        // of the Imports items among themselves and the trees inside each
        let mut idx: Vec<usize> = vec![];
        for (i, it) in m.items.iter_mut().enumerate() {
            match it {
                ItemD::Imports(trees) => {
                    trees.reverse();
                    idx.push(i);
                }
                ItemD::Fn { body: Some(b), .. } => reverse_imports_block(b),
                _ => {}
            }
        }
        let n = idx.len();
        for k in 0..n / 2 {
            m.items.swap(idx[k], idx[n - 1 - k]);
        }
    }
    q
}

fn rotate_imports_block(b: &mut Block, any: &mut bool) {
    if b.imports.len() >= 3 {
        b.imports.rotate_left(1);
        *any = true;
    }
    for s in b.stmts.iter_mut() {
        if let Stmt::Block(_, inner) = s {
            rotate_imports_block(inner, any);
        }
    }
}

/// the same program with every import list of three or more statements rotated
/// by one (`None` when there is no such list)
fn rotated_imports(p: &Program) -> Option<Program> {
    let mut q = p.clone();
    let mut any = false;
    for m in q.mods.iter_mut() {
        for it in m.items.iter_mut() {
            match it {
                ItemD::Imports(trees) if trees.len() >= 3 => {
                    trees.rotate_left(1);
                    any = true;
                }
                ItemD::Fn { body: Some(b), .. } => rotate_imports_block(b, &mut any),
                _ => {}
            }
        }
    }
    if any { Some(q) } else { None }
}

/// does this import list contain a path whose first segment (looked up through
/// the enclosing scopes, i.e. not after `super`) is the alias (last segment) of
/// another path of the list?
fn alias_prefix_pair(p: &Program, mi: usize, ps: &[Path]) -> bool {
    for (i, a) in ps.iter().enumerate() {
        for (j, b) in ps.iter().enumerate() {
            if i != j && b.len() > 1 && b[0] != SUPER && alias_of(p, mi, a) == Some(b[0]) {
                return true;
            }
        }
    }
    false
}

/// the alias an import introduces: its last segment, or — for `super…super` —
/// the name of the module it denotes
fn alias_of(p: &Program, mi: usize, a: &Path) -> Option<usize> {
    if !a.is_empty() && a.iter().all(|x| *x == SUPER) {
        let mut m = mi;
        for _ in 0..a.len() {
            m = p.mods[m].parent?;
        }
        Some(p.mods[m].ident)
    } else {
        a.last().copied()
    }
}

/// Names that mean something in the scope of module `mi` without any import of
/// that scope: `pkg`, registered runtime modules (root scope), the module's
/// items and child modules.
fn module_visible_names(p: &Program, mi: usize) -> Vec<usize> {
    let mut out = vec![PKG];
    out.extend(p.rt.iter().map(|r| r.name));
    out.extend((0..p.mods.len()).filter(|&c| p.mods[c].parent == Some(mi)).map(|c| p.mods[c].ident));
    for it in &p.mods[mi].items {
        match it {
            ItemD::Fn { name, .. } | ItemD::Const { name, .. } | ItemD::Ty { name, .. } => out.push(*name),
            _ => {}
        }
    }
    out
}

/// like `alias_prefix_pair`, but only pairs whose shared name may also mean
/// something without the sibling import (`visible`: an over-approximation of
/// the names the scope sees otherwise — its own declarations wherever they
/// stand, everything enclosing scopes declare or import) — the shape of the open
/// finding `C13-import-order-sibling-alias`.  When the shared name cannot be
/// seen otherwise, the dependent path can only be resolved through the sibling
/// import: the order of the two must not matter.
fn alias_prefix_pair_visible(p: &Program, mi: usize, ps: &[Path], visible: &[usize]) -> bool {
    for (i, a) in ps.iter().enumerate() {
        for (j, b) in ps.iter().enumerate() {
            if i != j && b.len() > 1 && b[0] != SUPER && alias_of(p, mi, a) == Some(b[0]) && visible.contains(&b[0]) {
                return true;
            }
        }
    }
    false
}

struct ProbeInfo {
    ctx: String, // dotted path of the context function below pkg ("" for signature probes)
    kind: PKind,
    form: &'static str,
    depth: usize,
    path: Path,
    /// canonical name of the scope the reference is written in
    scope: String,
    /// position in program order (locals declared later are not visible)
    seq: usize,
    /// index of the module the reference is written in
    module: usize,
}

/// module paths from `pkg` (including `pkg`), joined with dots
fn module_names(p: &Program) -> Vec<String> {
    let mut mp: Vec<Vec<String>> = vec![];
    for m in &p.mods {
        let mut path = match m.parent {
            Some(pi) if pi < mp.len() => mp[pi].clone(),
            _ => vec![],
        };
        // the root of a tree is the package root `pkg`, whatever its file is called
        path.push(if m.parent.is_none() { "pkg".to_string() } else { p.names[m.ident].clone() });
        mp.push(path);
    }
    mp.iter().map(|x| x.join(".")).collect()
}

/// Where every reference sits, and the tag of every declaration, keyed by the
/// canonical scope name (`pkg.aa`, `pkg.aa.cx1x0`, `pkg.aa.cx1x0.$b3.$b4`).
struct Sites {
    probes: BTreeMap<usize, ProbeInfo>,
    /// (canonical scope, identifier) → tag of the declaration
    decls: BTreeMap<(String, String), i64>,
    /// (canonical scope, identifier) of a local → its position in program order
    let_seq: BTreeMap<(String, String), usize>,
    /// canonical names of the scopes whose import list has an alias-prefix pair
    pair_scopes: Vec<String>,
    /// … and the shared name of such a pair may also be visible without the sibling import
    visible_pair_scopes: Vec<String>,
    /// every import: (canonical scope, path, position in program order of the block start)
    imports: Vec<(String, Path, usize)>,
    /// context functions (dotted path below pkg) that take a parameter
    with_param: Vec<String>,
}

fn probe_infos(p: &Program) -> Sites {
    let mut out = BTreeMap::new();
    let mut decls: BTreeMap<(String, String), i64> = BTreeMap::new();
    let mut let_seq: BTreeMap<(String, String), usize> = BTreeMap::new();
    let mut pair_scopes: Vec<String> = vec![];
    let mut visible_pair_scopes: Vec<String> = vec![];
    let mut imports: Vec<(String, Path, usize)> = vec![];
    let mut with_param: Vec<String> = vec![];
    let mut seq = 0usize;
    #[allow(clippy::too_many_arguments)]
    fn walk(p: &Program, mi: usize, b: &Block, ctx: &str, scope: &str, depth: usize, next_block: &mut usize, seq: &mut usize, out: &mut BTreeMap<usize, ProbeInfo>, decls: &mut BTreeMap<(String, String), i64>, let_seq: &mut BTreeMap<(String, String), usize>, pair_scopes: &mut Vec<String>, visible_pair_scopes: &mut Vec<String>, imports: &mut Vec<(String, Path, usize)>, outer: &[usize]) {
        if alias_prefix_pair(p, mi, &flatten_all(&b.imports)) {
            pair_scopes.push(scope.to_string());
        }
        // what this scope sees without its own imports: its locals (wherever they
        // stand) and everything the enclosing scopes declare or import
        let mut visible: Vec<usize> = outer.to_vec();
        for s in &b.stmts {
            if let Stmt::Let(x, _) | Stmt::Param(x, _) = s {
                visible.push(*x);
            }
        }
        if alias_prefix_pair_visible(p, mi, &flatten_all(&b.imports), &visible) {
            visible_pair_scopes.push(scope.to_string());
        }
        visible.extend(flatten_all(&b.imports).iter().filter_map(|ip| alias_of(p, mi, ip)));
        let outer: &[usize] = &visible;
        for ip in flatten_all(&b.imports) {
            imports.push((scope.to_string(), ip, *seq + 1));
        }
        for s in &b.stmts {
            *seq += 1;
            match s {
                Stmt::Probe { id, kind, path, form } => {
                    out.insert(*id, ProbeInfo { ctx: ctx.to_string(), kind: *kind, form, depth, path: path.clone(), scope: scope.to_string(), seq: *seq, module: mi });
                }
                Stmt::Block(_, inner) => {
                    let id = *next_block;
                    *next_block += 1;
                    walk(p, mi, inner, ctx, &format!("{scope}.$b{id}"), depth + 1, next_block, seq, out, decls, let_seq, pair_scopes, visible_pair_scopes, imports, outer);
                }
                Stmt::Let(x, t) => {
                    decls.entry((scope.to_string(), p.names[*x].clone())).or_insert(*t);
                    let_seq.entry((scope.to_string(), p.names[*x].clone())).or_insert(*seq);
                }
                Stmt::Param(x, t) => {
                    decls.entry((scope.to_string(), p.names[*x].clone())).or_insert(*t);
                    let_seq.entry((scope.to_string(), p.names[*x].clone())).or_insert(0);
                }
            }
        }
    }
    let mn = module_names(p);
    for (mi, m) in p.mods.iter().enumerate() {
        let mut next_block = block_base(p, mi);
        let mut module_imports = vec![];
        for it in &m.items {
            if let ItemD::Imports(t) = it {
                module_imports.extend(flatten_all(t));
            }
        }
        if alias_prefix_pair(p, mi, &module_imports) {
            pair_scopes.push(mn[mi].clone());
        }
        let mut module_visible = module_visible_names(p, mi);
        if alias_prefix_pair_visible(p, mi, &module_imports, &module_visible) {
            visible_pair_scopes.push(mn[mi].clone());
        }
        module_visible.extend(module_imports.iter().filter_map(|ip| alias_of(p, mi, ip)));
        for ip in &module_imports {
            imports.push((mn[mi].clone(), ip.clone(), 0));
        }
        for it in &m.items {
            match it {
                ItemD::Fn { name, tag, body } => {
                    decls.entry((mn[mi].clone(), p.names[*name].clone())).or_insert(*tag);
                    if let Some(b) = body {
                        let fscope = format!("{}.{}", mn[mi], p.names[*name]);
                        let mut below = fscope.strip_prefix("pkg.").unwrap_or(&fscope).to_string();
                        if let Some(Stmt::Param(_, t)) = b.stmts.first() {
                            // the argument passed for the parameter: its tag
                            with_param.push(below.clone());
                            below = format!("{below}#{t}");
                        }
                        walk(p, mi, b, &below, &fscope, 0, &mut next_block, &mut seq, &mut out, &mut decls, &mut let_seq, &mut pair_scopes, &mut visible_pair_scopes, &mut imports, &module_visible);
                    }
                }
                ItemD::Const { name, tag } | ItemD::Ty { name, tag } => {
                    decls.entry((mn[mi].clone(), p.names[*name].clone())).or_insert(*tag);
                }
                ItemD::SigProbe { id, kind, path, form } => {
                    // value probes are observed through the getter `sp<id>()`
                    let getter = format!("{}.sp{id}", mn[mi]);
                    let ctx = if *kind == PKind::Ty { String::new() } else { format!("!{}", getter.strip_prefix("pkg.").unwrap_or(&getter)) };
                    out.insert(*id, ProbeInfo { ctx, kind: *kind, form, depth: 99, path: path.clone(), scope: mn[mi].clone(), seq: 0, module: mi });
                }
                ItemD::Imports(_) => {}
            }
        }
    }
    for r in &p.rt {
        for (n, t) in &r.fns {
            decls.entry((p.names[r.name].clone(), p.names[*n].clone())).or_insert(*t);
        }
    }
    Sites { probes: out, decls, let_seq, pair_scopes, visible_pair_scopes, imports, with_param }
}

/// **Program-level oracle for absolute paths**: `pkg.<module path>.<item>` must
/// be exactly the item declared under that name in that module (the generator
/// never declares anything called `pkg`, so the first segment cannot be
/// shadowed).  Independent of the model and of the compiler's scope graph.
/// `Some(Ok(tag))`: must resolve to that item; `Some(Err(()))`: must be an error
/// (no such member / module); `None`: no verdict (kind mismatch, longer paths).
fn absolute_path_oracle(p: &Program, path: &[usize], kind: PKind) -> Option<Result<i64, ()>> {
    if path.first() != Some(&PKG) || path.len() < 2 || path.contains(&SUPER) {
        return None;
    }
    let mut cur = 0usize;
    let mut i = 1;
    while i < path.len() {
        match children_of(p, cur).into_iter().find(|c| p.mods[*c].ident == path[i]) {
            Some(c) => {
                cur = c;
                i += 1;
            }
            None => break,
        }
    }
    if i == path.len() {
        return None; // the path names a module: a kind error, not a lookup question
    }
    // path[i] must be an item of module `cur`
    let mut found: Option<(PKind, i64)> = None;
    for it in &p.mods[cur].items {
        match it {
            ItemD::Fn { name, tag, body: None } if *name == path[i] => found = Some((PKind::Fn, *tag)),
            ItemD::Const { name, tag } if *name == path[i] => found = Some((PKind::Const, *tag)),
            ItemD::Ty { name, tag } if *name == path[i] => found = Some((PKind::Ty, *tag)),
            _ => {}
        }
    }
    match found {
        None => Some(Err(())),
        Some((k, tag)) if i + 1 == path.len() && k == kind => Some(Ok(tag)),
        Some(_) => None,
    }
}

/// **Program-level oracle for `super` paths** written in module `mi`:
/// `super^n.<child modules…>.<item>` climbs `n` modules from the module the
/// reference is written in, then names direct members only.  Same verdicts as
/// `absolute_path_oracle`; too many `super`s must be an error.
fn super_path_oracle(p: &Program, mi: usize, path: &[usize], kind: PKind) -> Option<Result<i64, ()>> {
    if path.first() != Some(&SUPER) {
        return None;
    }
    let mut cur = mi;
    let mut i = 0;
    while i < path.len() && path[i] == SUPER {
        match p.mods[cur].parent {
            Some(q) => cur = q,
            None => return Some(Err(())),
        }
        i += 1;
    }
    if path[i..].contains(&SUPER) {
        return Some(Err(()));
    }
    while i < path.len() {
        match children_of(p, cur).into_iter().find(|c| p.mods[*c].ident == path[i]) {
            Some(c) => {
                cur = c;
                i += 1;
            }
            None => break,
        }
    }
    if i == path.len() {
        return None;
    }
    let mut found: Option<(PKind, i64)> = None;
    for it in &p.mods[cur].items {
        match it {
            ItemD::Fn { name, tag, body: None } if *name == path[i] => found = Some((PKind::Fn, *tag)),
            ItemD::Const { name, tag } if *name == path[i] => found = Some((PKind::Const, *tag)),
            ItemD::Ty { name, tag } if *name == path[i] => found = Some((PKind::Ty, *tag)),
            ItemD::Fn { name, body: Some(_), .. } if *name == path[i] => return None,
            _ => {}
        }
    }
    match found {
        None => Some(Err(())),
        Some((k, tag)) if i + 1 == path.len() && k == kind => Some(Ok(tag)),
        Some(_) => None,
    }
}

// ------------------------------------------------------------------ the compiler's own scope graph

#[derive(Clone, Debug)]
struct DScope {
    parent: Option<usize>,
    printed: String,
    /// alias → (scope index, identifier)
    imports: Vec<(String, usize, String)>,
    /// identifier, kind, owned scope
    decls: Vec<(String, String, Option<usize>)>,
    /// canonical name; `None` for scopes the harness itself introduced
    canon: Option<String>,
}

fn parse_dump(lines: &[String]) -> Vec<DScope> {
    let mut out: Vec<DScope> = vec![];
    for l in lines {
        let parts: Vec<&str> = l.split('|').collect();
        if parts.len() != 5 {
            continue;
        }
        let imports = parts[3].split(',').filter(|x| !x.is_empty()).filter_map(|x| {
            let (alias, t) = x.split_once('>')?;
            let (si, id) = t.split_once('.')?;
            Some((alias.to_string(), si.parse().ok()?, id.to_string()))
        }).collect();
        let decls = parts[4].split(',').filter(|x| !x.is_empty()).filter_map(|x| {
            let (id, k) = x.split_once(':')?;
            let (kind, owned) = match k.split_once('@') {
                Some((k, o)) => (k, o.parse().ok()),
                None => (k, None),
            };
            Some((id.to_string(), kind.to_string(), owned))
        }).collect();
        out.push(DScope { parent: parts[1].parse().ok(), printed: parts[2].to_string(), imports, decls, canon: None });
    }
    // canonical names: named scopes keep their printed name, blocks are named by their marker
    for i in 0..out.len() {
        let last = out[i].printed.rsplit('.').next().unwrap_or("").to_string();
        let canon = if !last.starts_with('$') {
            Some(out[i].printed.clone())
        } else {
            let marker = out[i].decls.iter().find_map(|(id, _, _)| id.strip_prefix("zz").and_then(|k| k.parse::<usize>().ok()));
            match (marker, out[i].parent.and_then(|pi| out.get(pi)).and_then(|ps| ps.canon.clone())) {
                (Some(k), Some(pc)) => Some(format!("{pc}.$b{k}")),
                _ => None,
            }
        };
        out[i].canon = canon;
    }
    out
}

/// the dump in the shape the model's dump is compared in (script scopes only)
fn canon_graph(sc: &[DScope], names: &[String]) -> std::collections::BTreeSet<String> {
    let mut out = std::collections::BTreeSet::new();
    for s in sc {
        let Some(name) = &s.canon else { continue };
        if !(name == "pkg" || name.starts_with("pkg.")) {
            continue;
        }
        let parent = match s.parent {
            Some(pi) => match sc.get(pi).and_then(|ps| ps.canon.clone()) {
                Some(c) => c,
                None => continue,
            },
            None => "-".to_string(),
        };
        let mut imps: Vec<String> = s.imports.iter().map(|(a, ti, id)| {
            format!("{a}>{}.{id}", sc.get(*ti).and_then(|t| t.canon.clone()).unwrap_or_else(|| format!("?{ti}")))
        }).collect();
        imps.sort();
        let mut decls: Vec<String> = s.decls.iter().filter(|(id, _, _)| names.iter().any(|n| n == id)).map(|(id, k, _)| format!("{id}:{k}")).collect();
        decls.sort();
        // scopes of the items that carry module-level references (`sp<id>`, `cp<id>`, `rp<id>`)
        if name.rsplit('.').next().is_some_and(|l| l.starts_with("sp") || l.starts_with("cp") || l.starts_with("rp")) && imps.is_empty() && decls.is_empty() {
            continue;
        }
        out.insert(format!("{name}|{parent}|{}|{}", imps.join(","), decls.join(",")));
    }
    out
}

/// the model's dump line in the same shape
fn canon_model_line(s: &str, names: &[String]) -> Option<String> {
    let parts: Vec<&str> = s.split('|').collect();
    if parts.len() != 4 {
        return Some(s.to_string());
    }
    let name = parts[0];
    if !(name == "pkg" || name.starts_with("pkg.")) {
        return None;
    }
    let mut imps: Vec<&str> = parts[2].split(',').filter(|x| !x.is_empty()).collect();
    imps.sort();
    let mut decls: Vec<&str> = parts[3].split(',').filter(|x| !x.is_empty()).filter(|x| {
        let id = x.split(':').next().unwrap_or("");
        names.iter().any(|n| n == id)
    }).collect();
    decls.sort();
    if name.rsplit('.').next().is_some_and(|l| l.starts_with("sp")) && imps.is_empty() && decls.is_empty() {
        return None;
    }
    Some(format!("{name}|{}|{}|{}", parts[1], imps.join(","), decls.join(",")))
}

/// **The property's oracle**: the documented lookup rules, evaluated on the
/// compiler's own scope graph.  First segment: declarations of the innermost
/// enclosing scope, then that scope's imports, then outward; leading `super`s
/// climb the module tree; every later segment (and the one after `super`s) is a
/// direct member of the item before it.  Returns the declaration as
/// (canonical scope name, identifier, kind) or the error class.
fn oracle(sc: &[DScope], start: usize, path: &[String], kind: PKind, visible: &dyn Fn(&str, &str) -> bool) -> Result<(String, String), String> {
    let (d, rest) = oracle_core(sc, start, path, visible)?;
    let k = d.2.as_str();
    let ok = || Ok((sc[d.0].canon.clone().unwrap_or_else(|| format!("?{}", d.0)), d.1.clone()));
    match (kind, k) {
        (PKind::Ty, "ty") => ok(),
        (PKind::Ty, _) => Err("expectedType".into()),
        (PKind::Fn, "mod") | (PKind::Fn, "ty") | (PKind::Const, "mod") | (PKind::Const, "ty") => Err("expectedValue".into()),
        (PKind::Fn, "fn") => if rest == 0 { ok() } else { Err("noField".into()) },
        (PKind::Fn, _) => if rest == 0 { Err("expectedFunction".into()) } else { Err("noField".into()) },
        (PKind::Const, "fn") => if rest == 0 { Err("expectedValue".into()) } else { Err("noField".into()) },
        (PKind::Const, _) => if rest == 0 { ok() } else { Err("noField".into()) },
    }
}

/// the module part of a path by the documented rules: the declaration reached
/// and the number of identifiers left over
#[allow(clippy::type_complexity)]
fn oracle_core(sc: &[DScope], start: usize, path: &[String], visible: &dyn Fn(&str, &str) -> bool) -> Result<((usize, String, String, Option<usize>), usize), String> {
    let decl_in = |s: usize, id: &str| -> Option<(usize, String, String, Option<usize>)> {
        sc[s].decls.iter().find(|(i, k, _)| i == id && (k != "local" || visible(sc[s].canon.as_deref().unwrap_or(""), id))).map(|(i, k, o)| (s, i.clone(), k.clone(), *o))
    };
    // the module scope enclosing `s`, and the scope its declaration lives in
    let owner_of = |m: usize| -> Option<usize> {
        sc.iter().position(|x| x.decls.iter().any(|(_, k, o)| k == "mod" && *o == Some(m)))
    };
    let enclosing_module = |mut s: usize| -> Option<usize> {
        loop {
            if owner_of(s).is_some() {
                return Some(s);
            }
            s = sc[s].parent?;
        }
    };
    let mut i = 0;
    let mut cur: Option<(usize, String, String, Option<usize>)> = None;
    if path[0] == "super" {
        let mut m = enclosing_module(start).ok_or("tooManySuper")?;
        while i < path.len() && path[i] == "super" {
            let owner = owner_of(m).ok_or("tooManySuper")?;
            if owner == 0 {
                return Err("tooManySuper".into());
            }
            // the parent module is the module scope `owner`; its declaration:
            let decl = sc.iter().enumerate().find_map(|(si, x)| x.decls.iter().find(|(_, k, o)| k == "mod" && *o == Some(owner)).map(|(id, k, o)| (si, id.clone(), k.clone(), *o)));
            cur = decl;
            m = owner;
            i += 1;
        }
    } else {
        // first segment: innermost scope outward, declarations before imports;
        // `pkg` names the package root wherever it is written: global scope
        let mut s = Some(if path[0] == "pkg" { 0 } else { start });
        while let Some(x) = s {
            if let Some(d) = decl_in(x, &path[0]) {
                cur = Some(d);
                break;
            }
            if let Some((_, ts, tid)) = sc[x].imports.iter().find(|(a, _, _)| a == &path[0]) {
                cur = Some(decl_in(*ts, tid).ok_or("dangling-import")?);
                break;
            }
            s = sc[x].parent;
        }
        if cur.is_none() {
            return Err("notDefined".into());
        }
        i = 1;
    }
    // later segments: direct members of the item before
    let mut d = cur.ok_or("notDefined")?;
    while i < path.len() {
        let Some(owned) = d.3 else { break };
        if path[i] == "super" {
            return Err("tooManySuper".into());
        }
        d = decl_in(owned, &path[i]).ok_or("notDefined")?;
        i += 1;
    }
    let rest = path.len() - i;
    Ok((d, rest))
}

fn sources_json(p: &Program, keep: &dyn Fn(usize) -> bool, tags: &BTreeMap<usize, i64>) -> J {
    let mut v = vec![];
    for (i, m) in p.mods.iter().enumerate() {
        v.push(json!({"module": i, "name": p.names[m.ident], "parent": m.parent, "source": render_module(p, i, keep, tags)}));
    }
    json!({"files": v, "runtime": p.rt.iter().map(|r| json!({"module": p.names[r.name], "fns": r.fns.iter().map(|(n, t)| json!([p.names[*n], t])).collect::<Vec<_>>()})).collect::<Vec<_>>()})
}

struct CaseResult {
    class: Vec<String>,
    sample: J,
    /// per-probe outcome of the implementation (for order comparison)
    seen: BTreeMap<usize, Out>,
    base: Out,
}

/// run one variant of a program on model and implementation and compare
fn check_variant(rep: &mut Report, drv: &mut Driver, p: &Program, label: &str, ident: &J, max_err_probes: usize, disk: Option<u64>) -> CaseResult {
    let all = |_: usize| true;
    let none = |_: usize| false;
    let sites = probe_infos(p);
    let infos = &sites.probes;
    let decl_tags = &sites.decls;
    let model = ask_model(drv, p, &all);
    let rt = runtime_of(p);
    let empty = BTreeMap::new();
    let mut res = CaseResult { class: vec![], sample: J::Null, seen: BTreeMap::new(), base: model.base.clone() };
    rep.evaluations += 1;

    if model.base != Out::Ok(0) {
        // the tree itself is predicted not to compile: no probes
        let run = compile_and_observe(mem_tree(p, &none, &empty), &rt, &Ask { calls: vec![], gets: vec![] }, false);
        res.base = run.base.clone();
        if run.base != model.base {
            rep.mismatch(
                &format!("tree outcome: model {} vs compiler {} ({label})", model.base.show(), run.base.show()),
                json!({"case": ident, "variant": label, "sources": sources_json(p, &none, &empty)}),
            );
        }
        if let Out::Panic(m) = &run.base {
            violate(rep, &format!("the compiler panicked on a module tree: {m}"), &format!("panic:{m}"), json!({"case": ident, "variant": label, "sources": sources_json(p, &none, &empty)}));
        }
        res.class.push(format!("tree:{}", model.base.class()));
        rep.hist("tree_outcome", model.base.class());
        return res;
    }
    rep.hist("tree_outcome", "ok");

    // 1. all references the model resolves, in one compilation
    let ok_ids: Vec<usize> = model.probes.iter().filter(|(_, o)| matches!(o, Out::Ok(_))).map(|(i, _)| *i).collect();
    let tags: BTreeMap<usize, i64> = model.probes.iter().filter_map(|(i, o)| if let Out::Ok(t) = o { Some((*i, *t)) } else { None }).collect();
    let keep_ok = |id: usize| tags.contains_key(&id);
    let calls: Vec<(usize, String)> = ok_ids.iter().filter(|i| !infos[i].ctx.is_empty()).map(|i| (*i, infos[i].ctx.clone())).collect();
    // every exported function by its path, plus paths that must not exist
    let mut gets: Vec<(String, bool)> = vec![];
    // the exported names are read off the program itself (module path + function name);
    // the model's export table must say the same
    let mut exports_prog: BTreeMap<String, i64> = BTreeMap::new();
    {
        let mn = module_names(p);
        for (mi, m) in p.mods.iter().enumerate() {
            for it in &m.items {
                if let ItemD::Fn { name, tag, .. } = it {
                    exports_prog.insert(format!("{}.{}", mn[mi], p.names[*name]), *tag);
                }
            }
        }
    }
    let model_script_exports: BTreeMap<String, i64> = model.exports.iter().filter(|(k, _)| k.starts_with("pkg.")).map(|(k, v)| (k.clone(), *v)).collect();
    if model_script_exports != exports_prog {
        rep.mismatch(
            &format!("export table: model {:?} vs program {:?} ({label})", model_script_exports, exports_prog),
            json!({"case": ident, "variant": label}),
        );
    }
    for (name, tag) in &exports_prog {
        let below = name.strip_prefix("pkg.").unwrap_or(name).to_string();
        if name.starts_with("pkg.") && !below.contains("sp") {
            let is_cx = *tag >= 0 && name.rsplit('.').next().is_some_and(|l| l.starts_with("cx"));
            // context functions with a parameter are asked for with two arguments
            let path = if sites.with_param.contains(&below) { format!("{below}#0") } else { below };
            gets.push((path, is_cx));
        }
    }
    let mut absent: Vec<String> = vec![];
    {
        // module path × pool function names that are not exported there (imports are not exports)
        let mut mp: Vec<Vec<String>> = vec![];
        for m in &p.mods {
            let mut path = match m.parent { Some(pi) if pi < mp.len() => mp[pi].clone(), _ => vec![] };
            if m.parent.is_some() {
                path.push(p.names[m.ident].clone());
            }
            mp.push(path);
        }
        for path in &mp {
            for n in POOL {
                let mut d = path.clone();
                d.push(n.to_string());
                let dotted = d.join(".");
                if !exports_prog.contains_key(&format!("pkg.{dotted}")) {
                    absent.push(dotted);
                }
            }
        }
    }
    for a in &absent {
        gets.push((a.clone(), false));
    }
    let ask = Ask { calls: calls.clone(), gets: gets.clone() };
    let run = compile_and_observe(mem_tree(p, &keep_ok, &tags), &rt, &ask, true);
    res.base = run.base.clone();
    if run.base != Out::Ok(0) {
        // some reference the model resolves does not compile: find which
        let mut blamed = vec![];
        for id in &ok_ids {
            let only = |i: usize| i == *id;
            let one = compile_and_observe(mem_tree(p, &only, &tags), &rt, &Ask { calls: vec![], gets: vec![] }, false);
            if one.base != Out::Ok(0) {
                blamed.push(json!({"probe": id, "path": path_str(&infos[id].path, &p.names), "in": infos[id].ctx, "model": model.probes[id].show(), "compiler": one.base.show()}));
                res.seen.insert(*id, one.base.clone());
            }
            rep.evaluations += 1;
        }
        let base_only = compile_and_observe(mem_tree(p, &none, &empty), &rt, &Ask { calls: vec![], gets: vec![] }, false);
        rep.mismatch(
            &format!("model resolves every kept reference, compiler says {} (tree alone: {}) ({label})", run.base.show(), base_only.base.show()),
            json!({"case": ident, "variant": label, "blamed": blamed, "sources": sources_json(p, &keep_ok, &tags)}),
        );
        if let Out::Panic(m) = &run.base {
            violate(rep, &format!("the compiler panicked on a module tree: {m}"), &format!("panic:{m}"), json!({"case": ident, "variant": label, "sources": sources_json(p, &keep_ok, &tags)}));
        }
        if let Out::Err(k) = &run.base {
            if k.contains("Parse error") {
                // every reference is rendered in documented syntax: a parse error is the parser's
                let key = if k.contains("got 'pkg'") || k.contains("got 'super'") { "return-path-keyword" } else { "reference-does-not-parse" };
                violate(rep, &format!("a reference in documented syntax does not parse: {k}"), key, json!({"case": ident, "variant": label, "blamed": blamed, "sources": sources_json(p, &keep_ok, &tags)}));
            }
        }
        res.class.push("tree:ok/refs-rejected".into());
        return res;
    }
    for (id, _) in &calls {
        let want = &model.probes[id];
        let got = run.probes.get(id).cloned().unwrap_or(Out::Err("not-run".into()));
        res.seen.insert(*id, got.clone());
        if &got != want {
            rep.mismatch(
                &format!("reference `{}` in {}: model {} vs compiler {} ({label})", path_str(&infos[id].path, &p.names), infos[id].ctx, want.show(), got.show()),
                json!({"case": ident, "variant": label, "probe": id, "sources": sources_json(p, &keep_ok, &tags)}),
            );
        }
    }
    for id in &ok_ids {
        if infos[id].ctx.is_empty() {
            // a signature probe compiled: the type with exactly this tag was selected
            res.seen.insert(*id, model.probes[id].clone());
        }
        let i = &infos[id];
        res.class.push(format!("{}|{:?}|d{}|ok", i.form, i.kind, i.depth.min(4)));
        rep.hist("reference_form", i.form);
        rep.hist("reference_outcome", "ok");
    }
    // get_function by module path
    for (path, _) in &gets {
        let got = run.exports.get(path).cloned().unwrap_or(Out::Err("not-run".into()));
        let want = match exports_prog.get(&format!("pkg.{}", path.split('#').next().unwrap_or(path))) {
            Some(t) => Out::Ok(*t),
            None => Out::Err("get_function".into()),
        };
        rep.evaluations += 1;
        if got != want {
            // the property itself: every function is retrievable by its module path (and nothing else is)
            violate(
                rep,
                &format!("get_function(\"{path}\"): expected {} got {}", want.show(), got.show()),
                &format!("get_function:{}", if matches!(want, Out::Ok(_)) { "missing-or-wrong" } else { "unexpected" }),
                json!({"case": ident, "variant": label, "path": path, "sources": sources_json(p, &keep_ok, &tags)}),
            );
            rep.mismatch(&format!("get_function(\"{path}\"): model {} vs compiler {}", want.show(), got.show()), json!({"case": ident, "variant": label}));
        }
    }
    rep.hist("exports_per_tree", format!("{}", model.exports.len().min(12)));
    // scope graph dump (localisation + tie of the graph itself): exact, up to scope numbering
    let dsc = parse_dump(&run.scopes);
    if !dsc.is_empty() {
        let want: std::collections::BTreeSet<String> = model.scopes.iter().filter_map(|s| canon_model_line(&canon_dump(s, &p.names), &p.names)).collect();
        let got = canon_graph(&dsc, &p.names);
        rep.evaluations += 1;
        if want != got {
            let only_model: Vec<&String> = want.difference(&got).collect();
            let only_impl: Vec<&String> = got.difference(&want).collect();
            rep.mismatch(
                &format!("scope graph differs ({label}): only in model {:?}; only in compiler {:?}", &only_model[..only_model.len().min(4)], &only_impl[..only_impl.len().min(4)]),
                json!({"case": ident, "variant": label, "sources": sources_json(p, &keep_ok, &tags)}),
            );
        }
    }

    // 2. references the model rejects: each alone must be a compile error of the same class
    let err_ids: Vec<usize> = model.probes.iter().filter(|(_, o)| !matches!(o, Out::Ok(_))).map(|(i, _)| *i).collect();
    let mut tested = 0;
    for id in &err_ids {
        let i = &infos[id];
        let want = &model.probes[id];
        res.class.push(format!("{}|{:?}|d{}|{}", i.form, i.kind, i.depth.min(4), want.class()));
        rep.hist("reference_form", i.form);
        rep.hist("reference_outcome", want.class());
        if tested >= max_err_probes {
            continue;
        }
        tested += 1;
        let only = |x: usize| x == *id;
        let one = compile_and_observe(mem_tree(p, &only, &tags), &rt, &Ask { calls: vec![], gets: vec![] }, false);
        rep.evaluations += 1;
        res.seen.insert(*id, one.base.clone());
        if &one.base != want {
            rep.mismatch(
                &format!("reference `{}` in {}: model {} vs compiler {} ({label})", path_str(&i.path, &p.names), i.ctx, want.show(), one.base.show()),
                json!({"case": ident, "variant": label, "probe": id, "sources": sources_json(p, &only, &tags)}),
            );
        }
        if let Out::Panic(m) = &one.base {
            violate(rep, &format!("the compiler panicked on a reference: {m}"), &format!("panic:{m}"), json!({"case": ident, "variant": label, "sources": sources_json(p, &only, &tags)}));
        }
    }

    // 3. the property's oracle: the documented rules on the compiler's own scope graph
    if !dsc.is_empty() {
        let by_canon: BTreeMap<String, usize> = dsc.iter().enumerate().filter_map(|(i, s)| s.canon.clone().map(|c| (c, i))).collect();
        for (id, got) in &res.seen {
            let i = &infos[id];
            let Some(&start) = by_canon.get(&i.scope) else { continue };
            let path: Vec<String> = i.path.iter().map(|x| p.names[*x].clone()).collect();
            let seq = i.seq;
            let visible = |scope: &str, name: &str| sites.let_seq.get(&(scope.to_string(), name.to_string())).is_some_and(|q| *q < seq);
            let want = match oracle(&dsc, start, &path, i.kind, &visible) {
                Ok((scope, name)) => match decl_tags.get(&(scope.clone(), name.clone())) {
                    Some(t) => Out::Ok(*t),
                    None => Out::Err(format!("oracle: no tag for {scope}.{name}")),
                },
                Err(k) => Out::Err(k),
            };
            rep.evaluations += 1;
            if &want != got {
                violate(
                rep,
                    &format!(
                        "reference `{}` written in {} resolves to {} but the lookup rules (innermost declarations, imports, outward; later segments direct members) on the compiler's own scope graph designate {} ({label})",
                        path.join("."), i.scope, got.show(), want.show()
                    ),
                    &(if path[0] == "super" && matches!(want, Out::Err(_)) && matches!(got, Out::Ok(_)) {
                        "super-nonmember".to_string()
                    } else {
                        format!("lookup-rule:{}-vs-{}", want.class(), got.class())
                    }),
                    json!({"case": ident, "variant": label, "probe": id, "sources": sources_json(p, &keep_ok, &tags)}),
                );
            }
        }
    }

    // 3a. absolute paths against the program itself
    for (id, got) in &res.seen {
        let i = &infos[id];
        let (want, which) = match (absolute_path_oracle(p, &i.path, i.kind), super_path_oracle(p, i.module, &i.path, i.kind)) {
            (Some(w), _) => (w, "absolute-path"),
            (None, Some(w)) => (w, "super-path"),
            (None, None) => continue,
        };
        rep.evaluations += 1;
        let ok = match (&want, got) {
            (Ok(t), Out::Ok(g)) => t == g,
            (Err(()), Out::Ok(_)) => false,
            (Ok(_), _) => false,
            (Err(()), _) => true,
        };
        if !ok {
            violate(
                rep,
                &format!(
                    "the path `{}` written in {} resolves to {}; in the program it designates {} ({label})",
                    path_str(&i.path, &p.names), i.scope, got.show(),
                    match want { Ok(t) => format!("the item with tag {t}"), Err(()) => "nothing (not a member)".to_string() }
                ),
                &format!("{which}:{}", match want { Ok(_) => "wrong-or-unresolved", Err(()) => "resolves-nonmember" }),
                json!({"case": ident, "variant": label, "probe": id, "sources": sources_json(p, &keep_ok, &tags)}),
            );
        }
    }

    // 3b. the import tables: every import of a scope whose list has no dependent pair
    //     must point at what the rules designate for its path (on the final graph,
    //     with the locals declared before the block)
    if !dsc.is_empty() {
        let by_canon: BTreeMap<String, usize> = dsc.iter().enumerate().filter_map(|(i, s)| s.canon.clone().map(|c| (c, i))).collect();
        for (scope, ipath, seq) in &sites.imports {
            // a dependent pair whose shared name may also mean something else: the
            // final graph does not say what the path meant when it was imported
            if sites.visible_pair_scopes.iter().any(|ps| ps == scope) {
                continue;
            }
            // `import x.….x`: the path's own alias must not be consulted for its first segment
            if ipath.len() > 1 && ipath[0] != SUPER && ipath.first() == ipath.last() {
                continue;
            }
            let Some(&start) = by_canon.get(scope) else { continue };
            let path: Vec<String> = ipath.iter().map(|x| p.names[*x].clone()).collect();
            let visible = |sc: &str, name: &str| sites.let_seq.get(&(sc.to_string(), name.to_string())).is_some_and(|q| q < seq);
            let want = match oracle_core(&dsc, start, &path, &visible) {
                Ok((d, 0)) => Ok((dsc[d.0].canon.clone().unwrap_or_else(|| format!("?{}", d.0)), d.1)),
                Ok((_, _)) => Err("expectedModule".to_string()),
                Err(k) => Err(k),
            };
            rep.evaluations += 1;
            let got: Vec<(String, String)> = dsc[start].imports.iter().map(|(_, ts, tid)| (dsc.get(*ts).and_then(|t| t.canon.clone()).unwrap_or_else(|| format!("?{ts}")), tid.clone())).collect();
            let ok = match &want {
                Ok(t) => got.contains(t),
                Err(_) => false, // the tree compiled, so the compiler accepted this import
            };
            if !ok {
                violate(
                    rep,
                    &format!(
                        "`import {}` in {scope}: the lookup rules designate {:?}, the scope's import table is {:?} ({label})",
                        path.join("."), want, got
                    ),
                    &format!("import-target:{}", match &want { Ok(_) => "wrong-or-missing".to_string(), Err(k) => format!("accepted-{k}") }),
                    json!({"case": ident, "variant": label, "sources": sources_json(p, &keep_ok, &tags)}),
                );
            }
        }
    }

    // 4. the same tree discovered on disk
    if let Some(noise) = disk {
        check_disk(rep, drv, p, &keep_ok, &tags, &run, &ask, &rt, noise, ident, label);
    }

    res.sample = json!({
        "note": p.note, "variant": label, "modules": p.mods.len(), "references": p.nprobes,
        "resolved": ok_ids.len(), "rejected": err_ids.len(), "exports": model.exports.len(),
        "pkg.roto": render_module(p, 0, &keep_ok, &tags),
    });
    res
}

/// model dump token (identifier numbers) → the hook's spelling
fn canon_dump(s: &str, names: &[String]) -> String {
    let seg = |x: &str| -> String {
        if let Ok(i) = x.parse::<usize>() {
            return names.get(i).cloned().unwrap_or_else(|| format!("?{i}"));
        }
        let (k, rest) = x.split_at(1);
        match (k, rest.parse::<usize>()) {
            ("f", Ok(i)) => {
                if i >= 1000 { format!("sp{}", i - 1000) } else { names.get(i).cloned().unwrap_or_default() }
            }
            ("t", Ok(i)) => names.get(i).cloned().unwrap_or_default(),
            ("b", Ok(i)) => format!("$b{i}"),
            _ => x.to_string(),
        }
    };
    let scope = |x: &str| -> String {
        if x == "@" || x == "-" || x == "?" {
            return x.to_string();
        }
        x.split('.').map(seg).collect::<Vec<_>>().join(".")
    };
    let parts: Vec<&str> = s.split('|').collect();
    if parts.len() != 4 {
        return s.to_string();
    }
    let mut imps: Vec<String> = parts[2].split(',').filter(|x| !x.is_empty()).map(|x| {
        let (a, t) = x.split_once('>').unwrap_or((x, ""));
        format!("{}>{}", seg(a), scope(t))
    }).collect();
    imps.sort();
    let mut decls: Vec<String> = parts[3].split(',').filter(|x| !x.is_empty()).map(|x| {
        let (n, k) = x.split_once(':').unwrap_or((x, ""));
        let k = k.trim_end_matches(|c: char| c.is_ascii_digit());
        format!("{}:{}", seg(n), k)
    }).collect();
    decls.sort();
    format!("{}|{}|{}|{}", scope(parts[0]), scope(parts[1]), imps.join(","), decls.join(","))
}

#[allow(clippy::too_many_arguments)]
fn check_disk(rep: &mut Report, drv: &mut Driver, p: &Program, keep: &dyn Fn(usize) -> bool, tags: &BTreeMap<usize, i64>, mem: &ImplRun, ask: &Ask, rt: &Runtime<NoCtx>, noise: u64, ident: &J, label: &str) {
    let root = tmp_root();
    let _ = std::fs::remove_dir_all(&root);
    write_tree(p, 0, &root, keep, tags, noise);
    rep.hist("disk_noise", format!("{:05b}", (noise >> 20) & 31));
    // discovery: model on the listing vs FileTree::read
    let mut names = p.names.clone();
    let toks = vec![discover_request(&root, &mut names)];
    let want = drv.ask(&toks[0]);
    let tree = match FileTree::read(&root) {
        Ok(t) => t,
        Err(e) => {
            // the directory holds the generated tree (identifier-shaped names, `pkg.roto`,
            // `name.roto` / `name/mod.roto`) plus noise the documented rules ignore: when the
            // documented discovery (model) yields a tree, failing to read it is a violation
            // of the property itself — e.g. same-named modules in different directories
            let msg = strip_ansi(&format!("{e}"));
            if want != "none" {
                violate(
                    rep,
                    &format!("a valid package directory (modules {want}) was rejected by FileTree::read: {}", msg.lines().take(3).collect::<Vec<_>>().join(" | ").chars().take(300).collect::<String>()),
                    "discovery:valid-tree-rejected",
                    json!({"case": ident, "variant": label, "listing": toks.join(" ")}),
                );
            } else {
                rep.mismatch(&format!("FileTree::read failed on a generated directory: {}", err_class(&format!("{e}"))), json!({"case": ident, "variant": label}));
            }
            let _ = std::fs::remove_dir_all(&root);
            return;
        }
    };
    let got: Vec<String> = tree.files.iter().map(|f| {
        let n = names.iter().position(|x| x == &f.module_name).map(|i| i.to_string()).unwrap_or_else(|| format!("?{}", f.module_name));
        format!("{}:{}", n, f.children.iter().map(|c| c.to_string()).collect::<Vec<_>>().join(","))
    }).collect();
    rep.evaluations += 1;
    if got.join(" ") != want {
        rep.mismatch(&format!("discovery: model `{want}` vs FileTree::read `{}`", got.join(" ")), json!({"case": ident, "variant": label, "listing": toks.join(" ")}));
    }
    // the documented map: exactly the modules of the generated tree, by path
    let mut disk_paths: Vec<String> = vec![];
    {
        let mut parent: BTreeMap<usize, usize> = BTreeMap::new();
        for (i, f) in tree.files.iter().enumerate() {
            for c in &f.children {
                parent.insert(*c, i);
            }
        }
        for i in 0..tree.files.len() {
            let mut segs = vec![tree.files[i].module_name.clone()];
            let mut cur = i;
            while let Some(pi) = parent.get(&cur) {
                segs.push(tree.files[*pi].module_name.clone());
                cur = *pi;
            }
            segs.reverse();
            disk_paths.push(segs.join("."));
        }
        disk_paths.sort();
    }
    let mut want_paths: Vec<String> = vec![];
    {
        let mut mp: Vec<Vec<String>> = vec![];
        for m in &p.mods {
            let mut path = match m.parent { Some(pi) if pi < mp.len() => mp[pi].clone(), _ => vec![] };
            // the root of a package on disk is `pkg.roto` whatever the tree calls its root (fixed tree 8)
            path.push(if m.parent.is_none() { "pkg".to_string() } else { p.names[m.ident].clone() });
            mp.push(path);
        }
        want_paths = mp.iter().map(|x| x.join(".")).collect();
        want_paths.sort();
    }
    if disk_paths != want_paths {
        violate(
                rep,
            &format!("file discovery: modules {:?} expected {:?}", disk_paths, want_paths),
            "discovery:module-set",
            json!({"case": ident, "variant": label, "listing": toks.join(" ")}),
        );
    }
    // and it means the same as the in-memory tree
    let run = compile_and_observe(tree, rt, ask, false);
    rep.evaluations += 1;
    if run.base != mem.base || run.probes != mem.probes || run.exports != mem.exports {
        let diff: Vec<String> = mem.probes.iter().filter(|(i, o)| run.probes.get(i) != Some(o)).map(|(i, o)| format!("{i}: memory {} disk {}", o.show(), run.probes.get(i).map_or("-".into(), |x| x.show()))).collect();
        violate(
                rep,
            &format!("the tree read from disk does not mean what the same tree in memory means: base {} vs {}; {:?}", run.base.show(), mem.base.show(), &diff[..diff.len().min(4)]),
            "disk-vs-memory",
            json!({"case": ident, "variant": label, "listing": toks.join(" ")}),
        );
    }
    let _ = std::fs::remove_dir_all(&root);
    // `name.roto` next to `name/mod.roto`: two modules of one name — an error, not a silent choice
    if noise & (1 << 25) != 0 {
        // (`pkg.roto` / `mod.roto` are the directory's own file, not a module next to it)
        if let Some(c) = children_of(p, 0).into_iter().find(|c| !children_of(p, *c).is_empty() && !matches!(p.names[p.mods[*c].ident].as_str(), "pkg" | "mod")) {
            write_tree(p, 0, &root, keep, tags, 0);
            let name = &p.names[p.mods[c].ident];
            std::fs::write(root.join(format!("{name}.roto")), "fn zz() -> i64 { 0 }\n").expect("write");
            let mut names = p.names.clone();
            let toks = vec![discover_request(&root, &mut names)];
            let want = drv.ask(&toks[0]);
            let twice = want.split_whitespace().filter(|t| t.split(':').next() == Some(&p.mods[c].ident.to_string())).count();
            let got = match FileTree::read(&root) {
                Ok(tree) => compile_and_observe(tree, rt, &Ask { calls: vec![], gets: vec![] }, false).base,
                Err(e) => Out::Err(err_class(&format!("{e}"))),
            };
            rep.evaluations += 1;
            rep.hist("disk_duplicate_module", got.class());
            // the model's discovery lists the name at least twice (the same name may also occur deeper)
            if twice < 2 {
                rep.mismatch(&format!("discovery model does not list `{name}` twice: {want}"), json!({"case": ident, "variant": label}));
            }
            if got != Out::Err("declaredTwice".into()) {
                violate(
                rep,
                    &format!("`{name}.roto` and `{name}/mod.roto` both exist: expected the error \"declared twice\", got {}", got.show()),
                    "discovery:file-and-directory",
                    json!({"case": ident, "variant": label, "listing": toks.join(" ")}),
                );
            }
            let _ = std::fs::remove_dir_all(&root);
        }
    }
    // a file or module directory whose name is not identifier-shaped cannot be a module:
    // it must be reported, not turned into a module whose printed name collides with others
    if noise & (1 << 26) != 0 {
        for (kind, rel) in [("file", "aa.bb.roto"), ("file", "my-mod.roto"), ("dir", "bad.dir")] {
            write_tree(p, 0, &root, keep, tags, 0);
            if kind == "file" {
                std::fs::write(root.join(rel), "fn ff() -> i64 { 0 }\n").expect("write");
            } else {
                std::fs::create_dir_all(root.join(rel)).expect("mkdir");
                std::fs::write(root.join(rel).join("mod.roto"), "fn ff() -> i64 { 0 }\n").expect("write");
            }
            let got = catch_unwind(AssertUnwindSafe(|| match FileTree::read(&root) {
                Ok(tree) => compile_and_observe(tree, rt, &Ask { calls: vec![], gets: vec![] }, false).base.show(),
                Err(e) => strip_ansi(&format!("{e}")),
            }))
            .unwrap_or_else(|_| format!("panic:{}", PANIC_MSG.lock().map(|g| g.clone()).unwrap_or_default()));
            rep.evaluations += 1;
            let mut names = p.names.clone();
            let model = drv.ask(&discover_request(&root, &mut names));
            if model != "none" {
                rep.mismatch(&format!("discovery model accepts a listing with `{rel}`: {model}"), json!({"case": ident, "variant": label}));
            }
            rep.hist("disk_invalid_name", if got.contains("not a valid Roto identifier") { "rejected" } else { "accepted" });
            if !got.contains("not a valid Roto identifier") {
                violate(
                    rep,
                    &format!("`{rel}` is not identifier-shaped but discovery did not reject it: {}", got.chars().take(160).collect::<String>()),
                    "discovery:invalid-module-name",
                    json!({"case": ident, "variant": label, "entry": rel}),
                );
            }
            let _ = std::fs::remove_dir_all(&root);
        }
    }
}

fn check_case(rep: &mut Report, drv: &mut Driver, p: &Program, ident: J, tier: &str, index: u64) -> CaseResult {
    let max_err = if tier == "thorough" { 12 } else { 6 };
    // every third tree, and every fixed boundary tree (same-named modules in different
    // directories, a directory called `pkg`, …), is also written to disk and discovered
    let disk = if index % 3 == 0 || (index as usize) < fixed_cases().len() { Some(Prng::for_case(index, 77).next()) } else { None };
    let first = check_variant(rep, drv, p, "as-written", &ident, max_err, disk);
    expect_oracle(rep, p, &first, &ident, "as-written");
    // import order: the same tree with every scope's imports reversed
    let q = reversed_imports(p);
    let second = check_variant(rep, drv, &q, "imports-reversed", &ident, max_err, None);
    expect_oracle(rep, &q, &second, &ident, "imports-reversed");
    let mut differs = vec![];
    let sites = probe_infos(p);
    // is every difference below a scope whose import list has an alias-prefix pair?
    let mut explained = !sites.visible_pair_scopes.is_empty();
    rep.hist(
        "dependent_import_lists",
        if sites.pair_scopes.is_empty() { "none" } else if sites.visible_pair_scopes.is_empty() { "aliases-fresh" } else { "alias-also-visible" },
    );
    let mut others = vec![second];
    if let Some(r) = rotated_imports(p) {
        others.push(check_variant(rep, drv, &r, "imports-rotated", &ident, max_err, None));
        rep.hist("import_order_variants", "3");
    } else {
        rep.hist("import_order_variants", "2");
    }
    for other in &others {
        if matches!(first.base, Out::Ok(_)) != matches!(other.base, Out::Ok(_)) {
            differs.push(format!("tree: {} vs {}", first.base.show(), other.base.show()));
        }
        for (id, a) in &first.seen {
            if let Some(b) = other.seen.get(id) {
                if a != b {
                    differs.push(format!("reference {id}: {} vs {}", a.show(), b.show()));
                    let at = &sites.probes[id].scope;
                    if !sites.visible_pair_scopes.iter().any(|ps| at == ps || at.starts_with(&format!("{ps}."))) {
                        explained = false;
                    }
                }
            }
        }
    }
    if !differs.is_empty() {
        let shape = if explained { "sibling-alias-prefix" } else { "other" };
        let all = |_: usize| true;
        let empty = BTreeMap::new();
        violate(
                rep,
            &format!("the order of imports changes what names mean: {}", differs.join("; ")),
            &format!("import-order:{shape}"),
            json!({"case": ident, "differs": differs, "sources": sources_json(p, &all, &empty), "sources_reversed": sources_json(&q, &all, &empty)}),
        );
        rep.hist("import_order", "dependent");
    } else {
        rep.hist("import_order", "independent");
    }
    first
}

/// A tree given in memory whose module names are not identifier-shaped
/// (`SourceFile::read("aa.bb.roto")` keeps the stem `aa.bb`) must be rejected:
/// module `aa.bb` and module `bb` inside `aa` would both print as `pkg.aa.bb`.
fn invalid_name_in_memory(rep: &mut Report) {
    let file = |name: &str, module: &str, src: &str| SourceFile {
        name: name.to_string(),
        module_name: module.to_string(),
        contents: src.to_string(),
        location_offset: 0,
        children: Vec::new(),
    };
    for bad in ["aa.bb", "my-mod", "1st", ""] {
        let spec = FileSpec::Directory(
            file("m0/pkg.roto", "pkg", "fn main() -> i64 { 0 }\n"),
            vec![
                FileSpec::File(file("m1/x.roto", bad, "fn ff() -> i64 { 1 }\n")),
                FileSpec::Directory(file("m2/aa/mod.roto", "aa", ""), vec![FileSpec::File(file("m3/aa/bb.roto", "bb", "fn ff() -> i64 { 2 }\n"))]),
            ],
        );
        let rt = Runtime::new();
        let got = catch_unwind(AssertUnwindSafe(|| match FileTree::file_spec(spec).compile(&rt) {
            Ok(_) => "compiled".to_string(),
            Err(e) => strip_ansi(&format!("{e}")),
        }))
        .unwrap_or_else(|_| format!("panic:{}", PANIC_MSG.lock().map(|g| g.clone()).unwrap_or_default()));
        rep.evaluations += 1;
        rep.class(format!("memory-invalid-name|{}", if got.contains("not a valid Roto identifier") { "rejected" } else { "accepted" }));
        if !got.contains("not a valid Roto identifier") {
            violate(
                rep,
                &format!("a module named `{bad}` (in memory) was not rejected: {}", got.chars().take(160).collect::<String>()),
                "memory:invalid-module-name",
                json!({"module_name": bad}),
            );
        }
    }
}

fn run_range(seed: u64, tier: &str, from: u64, n: u64, rep: &mut Report) {
    let mut drv = Driver::spawn().expect("lean driver");
    let fixed = fixed_cases();
    for index in from..from + n {
        println!("START {index}");
        use std::io::Write;
        let _ = std::io::stdout().flush();
        if index == 0 {
            invalid_name_in_memory(rep);
        }
        let ident = json!({"seed": seed, "index": index, "tier": tier});
        let nfixed = fixed.len() as u64;
        let nchain = chain_perms_per_placement() * CHAIN_PLACEMENTS;
        if index >= nfixed && index < nfixed + nchain {
            // one order of a dependency chain: model vs compiler vs the meaning fixed by construction
            let p = chain_case(index - nfixed).expect("chain case");
            rep.hist("import_chain", format!("len{}", p.mods.len() - 1));
            let r = check_variant(rep, &mut drv, &p, "as-written", &ident, 6, None);
            expect_oracle(rep, &p, &r, &ident, "as-written");
            for c in r.class {
                rep.class(c);
            }
            rep.class(format!("chain|{}", p.note.split(", written").next().unwrap_or("")));
            continue;
        }
        if index >= nfixed + nchain && index < nfixed + nchain + ENUM_CHAIN_CASES {
            enum_chain_case(rep, index - nfixed - nchain, &ident);
            continue;
        }
        let nlist0 = nfixed + nchain + ENUM_CHAIN_CASES;
        if index >= nlist0 && index < nlist0 + list_cases() {
            // one shape of a nested import list: model vs compiler vs the meaning fixed by construction
            let p = list_case(index - nlist0).expect("list case");
            let shape = p.note.split_whitespace().nth(4).unwrap_or("").to_string();
            rep.hist("import_list_shape", format!("len{}", shape.len()));
            let r = check_variant(rep, &mut drv, &p, "as-written", &ident, 6, None);
            expect_oracle(rep, &p, &r, &ident, "as-written");
            for c in r.class {
                rep.class(c);
            }
            rep.class(format!("list|{}", p.note.split(" below").next().unwrap_or("")));
            continue;
        }
        let mut p = if index < nfixed { fixed[index as usize].clone() } else { gen_case(&mut drv, seed, index, tier) };
        normalize_order(&mut p);
        rep.hist("modules_per_tree", p.mods.len().to_string());
        rep.hist("runtime_module", if p.rt.is_empty() { "no" } else { "yes" });
        let r = check_case(rep, &mut drv, &p, ident, tier, index);
        for c in r.class {
            rep.class(c);
        }
        if index % 41 == 2 || (index as usize) < 2 {
            rep.sample(r.sample);
        }
    }
}

fn main() {
    let args: Vec<String> = std::env::args().collect();
    install_hook();
    match args.get(1).map(|s| s.as_str()) {
        Some("run") => {
            let seed: u64 = args[2].parse().expect("seed");
            let tier = args.get(3).map(|s| s.as_str()).unwrap_or("quick");
            let total: u64 = match tier { "thorough" => 24000, "search" => 4000, _ => 1700 };
            let mut rep = Report::default();
            let seed_s = seed.to_string();
            // directories left behind by workers that died in an earlier run
            if let Some(parent) = tmp_root().parent() {
                let _ = std::fs::remove_dir_all(parent);
            }
            worker::run_batches(&[&seed_s, tier], total, if tier == "thorough" { 1000 } else { 250 }, Duration::from_secs(900), &mut rep, |rep, last, ended| {
                let how = match ended {
                    Ended::Signal(s, _) => format!("signal {s}"),
                    Ended::Timeout => "timeout".into(),
                    Ended::Exit(c, _) => format!("exit {c}"),
                };
                violate(
                rep,
                    &format!("worker died ({how}) while compiling / running a module tree"),
                    &format!("crash {how}"),
                    json!({"case": {"seed": seed, "index": last, "tier": tier}}),
                );
            });
            rep.notes.push(format!(
                "{total} cases: {} fixed boundary trees, then {} orders of dependency chains of 3-5 imports (module and block level) and {} orders of module -> enum -> variant chains, {} shapes of nested import lists, then generated module trees, each as written and with every scope's imports reversed / rotated; every third also written to disk and discovered",
                fixed_cases().len(), chain_perms_per_placement() * CHAIN_PLACEMENTS, ENUM_CHAIN_CASES, list_cases()
            ));
            rep.emit();
        }
        Some("worker") => {
            let seed: u64 = args[2].parse().expect("seed");
            let tier = args[3].clone();
            let from: u64 = args[4].parse().expect("from");
            let n: u64 = args[5].parse().expect("n");
            let mut rep = Report::default();
            run_range(seed, &tier, from, n, &mut rep);
            rep.emit();
        }
        Some("replay") => {
            let v: J = serde_json::from_str(&args[2]).expect("json");
            let c = if v["case"].is_object() { &v["case"] } else { &v };
            let seed = c["seed"].as_u64().unwrap_or(0);
            let index = c["index"].as_u64().unwrap_or(0);
            let tier = c["tier"].as_str().unwrap_or("quick").to_string();
            let mut rep = Report::default();
            run_range(seed, &tier, index, 1, &mut rep);
            rep.emit();
        }
        Some("show") => {
            // print the sources of a case (debugging aid)
            let seed: u64 = args[2].parse().expect("seed");
            let index: u64 = args[3].parse().expect("index");
            let tier = args.get(4).map(|s| s.as_str()).unwrap_or("quick");
            let fixed = fixed_cases();
            let mut drv = Driver::spawn().expect("lean driver");
            let mut p = if (index as usize) < fixed.len() {
                fixed[index as usize].clone()
            } else if let Some(c) = chain_case(index - fixed.len() as u64) {
                c
            } else if let Some(c) = (index - fixed.len() as u64).checked_sub(chain_perms_per_placement() * CHAIN_PLACEMENTS + ENUM_CHAIN_CASES).and_then(list_case) {
                c
            } else {
                gen_case(&mut drv, seed, index, tier)
            };
            normalize_order(&mut p);
            let all = |_: usize| true;
            let m = ask_model(&mut drv, &p, &all);
            let tags: BTreeMap<usize, i64> = m.probes.iter().filter_map(|(i, o)| if let Out::Ok(t) = o { Some((*i, *t)) } else { None }).collect();
            for (i, md) in p.mods.iter().enumerate() {
                println!("// ---- module {i} `{}` parent {:?}\n{}", p.names[md.ident], md.parent, render_module(&p, i, &all, &tags));
            }
            println!("// model: base {} probes {:?}", m.base.show(), m.probes.iter().map(|(i, o)| format!("{i}={}", o.show())).collect::<Vec<_>>());
            println!("// exports {:?}", m.exports);
            for s in &m.scopes {
                println!("// scope {}", canon_dump(s, &p.names));
            }
        }
        Some("dir") => {
            // compile a directory (or file) and call `fn() -> i64` functions by path (debugging aid)
            let rt = Runtime::new();
            let r = catch_unwind(AssertUnwindSafe(|| {
                let tree = FileTree::read(&args[2]).map_err(|e| strip_ansi(&format!("{e}")))?;
                println!("files: {:?}", tree.files.iter().map(|f| (f.module_name.clone(), f.children.clone())).collect::<Vec<_>>());
                let mut pkg = tree.compile(&rt).map_err(|e| strip_ansi(&format!("{e}")))?;
                for name in &args[3..] {
                    match pkg.get_function::<fn() -> i64>(name) {
                        Ok(f) => println!("{name}() = {}", f.call()),
                        Err(_) => println!("{name}: not retrievable"),
                    }
                }
                Ok::<(), String>(())
            }));
            match r {
                Ok(Ok(())) => {}
                Ok(Err(e)) => println!("ERROR {}", e.lines().take(3).collect::<Vec<_>>().join(" | ")),
                Err(_) => println!("PANIC {}", PANIC_MSG.lock().map(|g| g.clone()).unwrap_or_default()),
            }
        }
        _ => {
            eprintln!("usage: c13 run <seed> <quick|thorough> | replay <json> | show <seed> <index> | dir <path> <fn>…");
            std::process::exit(64);
        }
    }
}
