//! C02 correspondence.
//!
//! Phase `layout`: generated type environments are compiled to MIR; the hook
//! `roto::verif_hooks::c02` questions the real LIR lowerer about every type of
//! the pool (layout_of, is_reference_type, needs_clone/drop, lower_type, the
//! offsets `location` computes for projection paths, the memory operations of
//! the generated clone / drop / eq functions). The answers are compared
//!  (a) with the property itself (fields disjoint / aligned / inside, the
//!      four offset computations agree, no lowerer panic on an inhabited type),
//!  (b) with the Lean model (`c02 type …` of rotov-driver), string for string.
//!
//! Phase `beh`: generated scripts declare types, build values from `main`'s
//! arguments, copy (assign, pass, return, store, match-bind, `?`), mutate one
//! copy, and emit every component of both copies through host functions; the
//! expected emission comes from the executable value-semantics spec in Lean
//! (`c02 spec …`).
//!
//! usage: c02 run <seed> <quick|thorough>
//!        c02 replay '<json>'
//!        c02 worker <layout|beh> <seed> <from> <n>
#[path = "../c02/types.rs"]
mod types;
#[path = "../c02/beh.rs"]
mod beh;
#[path = "../c02/zst.rs"]
mod zst;
#[path = "../c02/ctor.rs"]
mod ctor;

use roto::verif_hooks::c02 as hook;
use roto::{FileTree, NoCtx, Runtime, Val, library};
use rotov_harness::driver::Driver;
use rotov_harness::worker::{Ended, run_batches};
use rotov_harness::{Prng, Report};
use serde_json::{Value, json};
use std::collections::BTreeSet;
use std::time::Duration;
use types::*;

// ------------------------------------------------------------ host types

#[derive(Clone, Debug, PartialEq)]
pub struct Big {
    a: u64,
    b: u64,
    c: u64,
}
#[derive(Clone, Copy, Debug, PartialEq)]
pub struct Pt(u8, u8, u8);
#[derive(Clone, Copy, Debug, PartialEq)]
pub struct Z;
#[derive(Clone, Debug, PartialEq)]
pub struct Zc;

pub fn layout_runtime() -> Runtime<NoCtx> {
    Runtime::from_lib(library! {
        /// 24-byte Clone type
        #[clone] type Big = Val<Big>;
        /// 3-byte Copy type, align 1
        #[copy] type Pt = Val<Pt>;
        /// zero-sized Copy type
        #[copy] type Z = Val<Z>;
        /// zero-sized Clone type
        #[clone] type Zc = Val<Zc>;
        /// make one
        fn big(x: u64) -> Val<Big> { Val(Big { a: x, b: x + 1, c: x + 2 }) }
    })
    .expect("runtime")
}

/// record a violation unless enough with the same key prefix are recorded
/// already (one flooding oracle must not crowd out the others)
pub fn viol(rep: &mut Report, what: &str, key: &str, input: Value) {
    let prefix = key.split(' ').next().unwrap_or(key);
    let n = rep
        .impl_violations
        .iter()
        .filter(|v| v["key"].as_str().map(|k| k.split(' ').next() == Some(prefix)).unwrap_or(false))
        .count();
    if n < 6 {
        rep.violation(what, key, input);
    }
}

/// Per-case watchdog of a worker: a case that is still running after `secs`
/// seconds (deadlock on a corrupted list handle, endless loop) ends the worker
/// with exit status 3; the parent sees the last `START <index>` and resumes
/// after it.
pub static CASE_STARTED: std::sync::atomic::AtomicU64 = std::sync::atomic::AtomicU64::new(0);
fn now_ms() -> u64 {
    std::time::SystemTime::now()
        .duration_since(std::time::UNIX_EPOCH)
        .map(|d| d.as_millis() as u64)
        .unwrap_or(0)
}
pub fn case_begins() {
    CASE_STARTED.store(now_ms(), std::sync::atomic::Ordering::SeqCst);
}
pub fn start_watchdog(secs: u64) {
    case_begins();
    std::thread::spawn(move || {
        loop {
            std::thread::sleep(Duration::from_millis(200));
            let started = CASE_STARTED.load(std::sync::atomic::Ordering::SeqCst);
            if now_ms().saturating_sub(started) > secs * 1000 {
                println!("CASE-TIMEOUT");
                std::process::exit(3);
            }
        }
    });
}

pub fn strip_ansi(s: &str) -> String {
    let mut out = String::new();
    let mut it = s.chars().peekable();
    while let Some(c) = it.next() {
        if c == '\x1b' {
            for d in it.by_ref() {
                if d.is_ascii_alphabetic() {
                    break;
                }
            }
        } else {
            out.push(c);
        }
    }
    out
}

// ------------------------------------------------------------ layout phase

fn layout_script(p: &mut Prng) -> String {
    let o = GenOpts { exotic: true, host: false };
    let n = 2 + p.below(5) as usize;
    let env = gen_env(p, n, &o);
    let mut s = decl_src(&env);
    let mut k = 0;
    for i in 0..env.decls.len() {
        let reps = if env.decls[i].generic() { 2 } else { 1 };
        for _ in 0..reps {
            let t = if env.decls[i].generic() {
                T::Named(i, (0..env.decls[i].nparams()).map(|_| gen_type(p, &env, 1, 0, &o)).collect())
            } else {
                T::Named(i, vec![])
            };
            let t = match p.below(6) {
                0 => T::Opt(Box::new(t)),
                1 => T::Res(Box::new(t), Box::new(gen_type(p, &env, 1, 0, &o))),
                2 => T::Verdict(Box::new(gen_type(p, &env, 1, 0, &o)), Box::new(t)),
                _ => t,
            };
            let ts = t.src(&env);
            s += &format!("fn use{k}(x: {ts}) -> {ts} {{ x }}\n");
            k += 1;
        }
    }
    // unconstrained type variables become `Ty::Never` components: the only
    // way uninhabited variants / fields reach the pool
    s += "fn nv() {\n";
    let lit = |p: &mut Prng| -> &'static str { *p.pick(&["1", "true", "\"s\"", "()", "1.5", "[1]"]) };
    let mut j = 0;
    if p.chance(1, 2) {
        s += &format!("    let n{j} = None;\n");
        j += 1;
    }
    if p.chance(1, 2) {
        s += &format!("    let n{j} = Ok({});\n", lit(p));
        j += 1;
    }
    if p.chance(1, 2) {
        s += &format!("    let n{j} = Err({});\n", lit(p));
        j += 1;
    }
    if p.chance(1, 2) {
        s += &format!("    let n{j} = {{f: {}, g: None, h: {}}};\n", lit(p), lit(p));
        j += 1;
    }
    if p.chance(1, 3) {
        s += &format!("    let n{j} = Some(Err({}));\n", lit(p));
        j += 1;
    }
    if p.chance(1, 3) {
        s += &format!("    let n{j} = Some({{a: None, b: {}}});\n", lit(p));
        j += 1;
    }
    for d in &env.decls {
        if let Decl::Enum { name, generic: 1.., variants } = d {
            for (v, ts) in variants {
                if ts.is_empty() && p.chance(2, 3) {
                    s += &format!("    let n{j} = {name}.{v};\n");
                    j += 1;
                    if p.chance(1, 2) {
                        s += &format!("    let n{j} = Some({name}.{v});\n");
                        j += 1;
                    }
                }
            }
        }
    }
    s += "}\n";
    s
}

fn res_str<TT>(r: &Result<TT, String>, f: impl Fn(&TT) -> String) -> String {
    match r {
        Ok(x) => f(x),
        Err(_) => "panic".into(),
    }
}

fn path_str(p: &[hook::Step]) -> String {
    p.iter()
        .map(|(v, i)| match v {
            None => format!("f{i}"),
            Some(v) => format!("v{v}.{i}"),
        })
        .collect::<Vec<_>>()
        .join("/")
}

fn ops_str(o: &Option<Result<Vec<String>, String>>) -> String {
    match o {
        None => "-".into(),
        Some(Err(_)) => "panic".into(),
        Some(Ok(v)) => v.join("|"),
    }
}

/// the answer line the Lean driver must give for this type
fn expected_line(t: &hook::TypeDump) -> String {
    let lay = res_str(&t.layout, |l| match l {
        None => "none".into(),
        Some((s, a)) => format!("{s}.{a}"),
    });
    let rf = res_str(&t.is_reference_type, |r| match r {
        None => "none".into(),
        Some(true) => "t".into(),
        Some(false) => "f".into(),
    });
    let b = |r: &Result<bool, String>| res_str(r, |x| (*x as u8).to_string());
    let lt = res_str(&t.lower_type, |l| match l {
        None => "none".into(),
        Some(None) => "ptr".into(),
        Some(Some(n)) => n.to_string(),
    });
    let paths = t
        .paths
        .iter()
        .map(|(_, r)| {
            res_str(r, |o| match o {
                None => "none".into(),
                Some(o) => o.to_string(),
            })
        })
        .collect::<Vec<_>>()
        .join(",");
    format!(
        "lay={lay};ref={rf};nc={};nd={};lt={lt};paths={paths};clone={};drop={};eq={}",
        b(&t.needs_clone),
        b(&t.needs_drop),
        ops_str(&t.clone_ops),
        ops_str(&t.drop_ops),
        ops_str(&t.eq_ops)
    )
}

fn offsets_in(ops: &[String], verb: &[&str], base: &str) -> Vec<u64> {
    // offsets `base+N` of the first pointer operand of ops whose verb is listed
    let mut out = vec![];
    for o in ops {
        let w: Vec<&str> = o.split(' ').collect();
        let head = if w[0] == "call" { format!("call {}", w[1]) } else { w[0].to_string() };
        if !verb.contains(&head.as_str()) {
            continue;
        }
        for x in &w[1..] {
            if let Some(n) = x.strip_prefix(base).and_then(|r| r.strip_prefix('+')) {
                if let Ok(n) = n.parse() {
                    out.push(n);
                    break;
                }
            }
        }
    }
    out
}

/// The property at layout level, on the lowerer's own answers (no model).
fn check_props(d: &hook::Dump, t: &hook::TypeDump, script: &str, rep: &mut Report) {
    let input = |extra: Value| json!({"kind": "layout", "script": script, "type": t.printed, "detail": extra});
    let Ok(Some((size, align))) = t.layout else {
        if let Err(m) = &t.layout {
            viol(rep, "layout_of panicked", "lowerer-panic layout_of", input(json!(m)));
        }
        return;
    };
    // (1) no panic of the lowerer on an inhabited type
    for (what, r) in [("clone", &t.clone_ops), ("drop", &t.drop_ops), ("eq", &t.eq_ops)] {
        if let Some(Err(m)) = r {
            viol(rep, &format!("generating the {what} function of an inhabited type panics the compiler: {m}"),
                &format!("lowerer-panic generate_{what}"),
                input(json!(m)),
            );
        }
    }
    // (1b) the generated functions are well-formed control flow
    for (f, m) in &t.malformed {
        viol(
            rep,
            &format!("the generated {f} function is malformed (the code generator panics on it): {m}"),
            &format!("malformed generate_{f}"),
            input(json!(m)),
        );
    }
    if !align.is_power_of_two() || size % align != 0 {
        viol(rep, "layout not well-formed", "layout-wf", input(json!([size, align])));
    }
    // (2) direct components: aligned, inside, pairwise disjoint per record / variant
    let mut groups: std::collections::BTreeMap<Option<usize>, Vec<(usize, u64, u64)>> = Default::default();
    let children: Vec<usize> = match &t.node {
        hook::Node::Record(fs) => fs.iter().map(|f| f.1).collect(),
        hook::Node::Enum(vs) => vs.iter().flat_map(|v| v.1.iter().copied()).collect(),
        _ => return,
    };
    let mut k = 0;
    for (p, r) in &t.paths {
        if p.len() != 1 {
            continue;
        }
        let child = children[k];
        k += 1;
        let (v, i) = p[0];
        // components of an uninhabited variant never exist at run time
        if let (hook::Node::Enum(vs), Some(v)) = (&t.node, v) {
            if !vs[v].1.iter().all(|c| matches!(d.types[*c].layout, Ok(Some(_)))) {
                continue;
            }
        }
        match r {
            Err(m) => {
                // location may only panic when an earlier sibling is uninhabited
                let _ = m;
            }
            Ok(None) => {}
            Ok(Some(off)) => {
                if let Ok(Some((cs, ca))) = d.types[child].layout {
                    let off = *off as u64;
                    if off % ca as u64 != 0 || off + cs as u64 > size as u64 || (v.is_some() && off < 1) {
                        viol(rep, "component misplaced (alignment / bounds / tag overlap)",
                            "component-misplaced",
                            input(json!({"path": path_str(p), "off": off, "size": cs, "align": ca, "total": size})),
                        );
                    }
                    groups.entry(v).or_default().push((i, off, cs as u64));
                }
            }
        }
    }
    for (v, g) in &groups {
        for a in g {
            for b in g {
                if a.0 < b.0 && a.1 + a.2 > b.1 && a.2 > 0 && b.2 > 0 {
                    viol(rep, "two components of one record / variant overlap",
                        "components-overlap",
                        input(json!({"variant": v, "a": [a.0, a.1, a.2], "b": [b.0, b.1, b.2]})),
                    );
                }
            }
        }
    }
    // (2b) location is compositional: the offset of a nested path is the offset
    //      of its prefix plus the offset of the last step inside the prefix's type
    {
        let find = |ty: usize, path: &[hook::Step]| -> Option<u64> {
            d.types[ty].paths.iter().find(|(p, _)| p.as_slice() == path).and_then(|(_, r)| match r {
                Ok(Some(o)) => Some(*o as u64),
                _ => None,
            })
        };
        let child_of = |ty: usize, step: &hook::Step| -> Option<usize> {
            match (&d.types[ty].node, step.0) {
                (hook::Node::Record(fs), None) => fs.get(step.1).map(|f| f.1),
                (hook::Node::Enum(vs), Some(v)) => vs.get(v).and_then(|x| x.1.get(step.1)).copied(),
                _ => None,
            }
        };
        for (p, r) in &t.paths {
            if p.len() < 2 {
                continue;
            }
            let Ok(Some(off)) = r else { continue };
            let (prefix, last) = p.split_at(p.len() - 1);
            let mut ty = t.id;
            let mut ok = true;
            for st in prefix {
                match child_of(ty, st) {
                    Some(c) => ty = c,
                    None => {
                        ok = false;
                        break;
                    }
                }
            }
            if !ok {
                continue;
            }
            if let (Some(a), Some(b)) = (find(t.id, prefix), find(ty, last)) {
                if a + b != *off as u64 {
                    viol(
                        rep,
                        "Lowerer::location of a nested path is not the sum of the offsets of its steps",
                        "nested-offset",
                        input(json!({"path": path_str(p), "location": off, "prefix": a, "last_step": b})),
                    );
                }
            }
        }
    }
    // (3) the independently computed offsets agree (records whose fields are all inhabited,
    //     enums variant by variant in order)
    let loc: Vec<u64> = t
        .paths
        .iter()
        .filter(|(p, _)| p.len() == 1)
        .filter_map(|(p, r)| match r {
            Ok(Some(o)) => Some((p[0], *o as u64)),
            _ => None,
        })
        .filter(|((v, _), _)| match (&t.node, v) {
            // a variant with an uninhabited field is skipped by the generated functions
            (hook::Node::Enum(vs), Some(v)) => vs[*v].1.iter().all(|c| matches!(d.types[*c].layout, Ok(Some(_)))),
            _ => true,
        })
        .map(|(_, o)| o)
        .collect();
    let all_inhabited = children.iter().all(|c| matches!(d.types[*c].layout, Ok(Some(_))));
    if let (Some(Ok(c)), Some(Ok(e))) = (&t.clone_ops, &t.eq_ops) {
        let is_enum = matches!(t.node, hook::Node::Enum(_));
        if all_inhabited || is_enum {
            let co = offsets_in(c, &["copy", "clone", "call clone"], "ret");
            // eq: only components that are compared
            let eo = offsets_in(e, &["read", "eq", "call eq"], "left");
            let eo: Vec<u64> = if is_enum { eo.into_iter().skip(1).collect() } else { eo };
            // the components a copy / a comparison has to touch: every sized
            // one; of the zero-sized ones a registered `Clone` value is still
            // cloned through its registered function, and a registered value
            // (a reference type whatever its size) is still compared through
            // its registered eq function
            let touched = |for_eq: bool| -> Vec<u64> {
                let mut out = vec![];
                let mut k = 0;
                for (p, r) in &t.paths {
                    if p.len() != 1 {
                        continue;
                    }
                    let child = children[k];
                    k += 1;
                    if let (Ok(Some(o)), Ok(Some((cs, _)))) = (r, &d.types[child].layout) {
                        let skip = match (&t.node, p[0].0) {
                            (hook::Node::Enum(vs), Some(v)) => {
                                !vs[v].1.iter().all(|c| matches!(d.types[*c].layout, Ok(Some(_))))
                            }
                            _ => false,
                        };
                        let registered = matches!(d.types[child].node, hook::Node::Leaf("rtCopy") | hook::Node::Leaf("rtClone"));
                        let zero_sized_but_touched = if for_eq {
                            registered
                        } else {
                            matches!(d.types[child].needs_clone, Ok(true))
                        };
                        if (*cs > 0 || zero_sized_but_touched) && !skip {
                            out.push(*o as u64);
                        }
                    }
                }
                out
            };
            let nz = touched(false);
            // clone: zero-sized components are not copied either
            if co != nz {
                viol(rep, "offsets used by the generated clone function differ from Lowerer::location's",
                    "offsets-disagree clone",
                    input(json!({"location": nz, "clone": co})),
                );
            }
            let nz = touched(true);
            if eo != nz {
                viol(rep, "offsets compared by the generated eq function differ from Lowerer::location's",
                    "offsets-disagree eq",
                    input(json!({"location": nz, "eq": eo})),
                );
            }
        }
    }
    if let Some(Ok(dr)) = &t.drop_ops {
        // every component that needs dropping is dropped, exactly once, where location puts it
        let mut want = vec![];
        {
            let mut k = 0;
            for (p, r) in &t.paths {
                if p.len() != 1 {
                    continue;
                }
                let child = children[k];
                k += 1;
                let skip = match (&t.node, p[0].0) {
                    (hook::Node::Enum(vs), Some(v)) => {
                        !vs[v].1.iter().all(|c| matches!(d.types[*c].layout, Ok(Some(_))))
                    }
                    _ => false,
                };
                if let (Ok(Some(o)), Ok(true)) = (r, &d.types[child].needs_drop) {
                    if !skip {
                        want.push(*o as u64);
                    }
                }
            }
        }
        let got = offsets_in(dr, &["drop", "call drop"], "val");
        let is_enum = matches!(t.node, hook::Node::Enum(_));
        if (all_inhabited || is_enum) && got != want {
            viol(
                rep,
                "the generated drop function does not release exactly the components that need dropping (leak or double drop)",
                "offsets-disagree drop",
                input(json!({"needs_drop_at": want, "dropped_at": got})),
            );
        }
        let dofs = offsets_in(dr, &["drop", "call drop"], "val");
        for o in dofs {
            if !loc.contains(&o) {
                viol(rep, "generated drop function releases at an offset where Lowerer::location puts no component",
                    "offsets-disagree drop",
                    input(json!({"location": loc, "drop": o})),
                );
            }
        }
    }
}

fn run_layout_case(
    script: &str,
    rt: &Runtime<NoCtx>,
    drv: &mut Driver,
    seen: &mut BTreeSet<String>,
    rep: &mut Report,
) {
    rep.evaluations += 1;
    let tree = FileTree::test_file("c02.roto", script, 0);
    let d = match std::panic::catch_unwind(std::panic::AssertUnwindSafe(|| hook::dump(tree, rt))) {
        Ok(Ok(d)) => d,
        Ok(Err(e)) => {
            rep.hist("layout_scripts", "rejected");
            viol(
                rep,
                "the compiler rejects a well-typed type environment",
                "rejected-well-typed",
                json!({"kind": "layout", "script": script}),
            );
            rep.notes.push(format!("generator produced a rejected script: {}", strip_ansi(&format!("{e}")).lines().take(6).collect::<Vec<_>>().join(" / ")));
            return;
        }
        Err(_) => {
            viol(rep, "compiling (to MIR) a well-typed script panics",
                "compile-panic mir",
                json!({"kind": "layout", "script": script}),
            );
            return;
        }
    };
    rep.hist("layout_scripts", "ok");
    let nodes: Vec<hook::Node> = d.types.iter().map(|t| t.node.clone()).collect();
    let layouts: Vec<Option<(usize, usize)>> = d.types.iter().map(|t| t.layout.clone().ok().flatten()).collect();
    for t in &d.types {
        let ts = hook::tystr(&nodes, &layouts, t.id);
        if !seen.insert(ts.clone()) {
            continue;
        }
        let aggregate = matches!(t.node, hook::Node::Record(_) | hook::Node::Enum(_));
        if aggregate {
            rep.class(format!("type {ts}"));
            let nf = match &t.node {
                hook::Node::Record(f) => format!("record/{}", f.len()),
                hook::Node::Enum(v) => format!("enum/{}", v.len()),
                _ => unreachable!(),
            };
            rep.hist("aggregate_shape", nf);
            rep.hist(
                "aggregate_size",
                match t.layout {
                    Ok(Some((s, _))) => format!("{}", if s == 0 { "0".to_string() } else { format!("<= {}", s.next_power_of_two()) }),
                    Ok(None) => "uninhabited".into(),
                    Err(_) => "panic".into(),
                },
            );
        }
        check_props(&d, t, script, rep);
        let paths = t.paths.iter().map(|(p, _)| path_str(p)).collect::<Vec<_>>().join(",");
        let req = format!("c02 type {ts} 1 {paths}");
        let got = drv.ask(req.trim_end());
        let want = expected_line(t);
        if got != want {
            let (mut gi, mut wi) = (got.split(';'), want.split(';'));
            let mut diff = vec![];
            loop {
                match (gi.next(), wi.next()) {
                    (None, None) => break,
                    (g, w) => {
                        if g != w {
                            diff.push(json!({"model": g, "lowerer": w}));
                        }
                    }
                }
            }
            rep.mismatch(
                "Lean layout model and the real lowerer disagree on a type",
                json!({"kind": "layout", "script": script, "type": t.printed, "tystr": ts, "paths": paths, "diff": diff}),
            );
        } else if aggregate && rep.samples.len() < 3 {
            rep.sample(json!({"type": t.printed, "tystr": ts, "answer": want}));
        }
    }
}

fn worker_layout(seed: u64, base: u64, from: u64, n: u64) {
    std::panic::set_hook(Box::new(|_| {}));
    let rt = layout_runtime();
    let mut drv = Driver::spawn().expect("driver");
    let mut rep = Report::default();
    let mut seen = BTreeSet::new();
    start_watchdog(10);
    for idx in from..from + n {
        println!("START {idx}");
        case_begins();
        let mut p = Prng::for_case(seed, base + idx);
        let script = layout_script(&mut p);
        run_layout_case(&script, &rt, &mut drv, &mut seen, &mut rep);
    }
    rep.emit();
}

// ------------------------------------------------------------ main

fn main() {
    let args: Vec<String> = std::env::args().collect();
    match args.get(1).map(|s| s.as_str()) {
        Some("run") => {
            let seed: u64 = args[2].parse().expect("seed");
            let tier = args.get(3).map(|s| s.as_str()).unwrap_or("quick");
            let (n_layout, n_beh) = match tier {
                "thorough" => (40000, 30000),
                "search" => (4000, 4000),
                _ => (2000, 1500),
            };
            let n_ctor: u64 = match tier {
                "thorough" => 20000,
                "search" => 3000,
                _ => 1000,
            };
            let mut rep = Report::default();
            // corpus first
            beh::corpus(&mut rep);
            // the fixed battery over zero-sized registered values
            zst::run(&mut rep);
            // in chunks, so that a tree on which many cases crash or hang ends
            // the phase after a handful of witnesses instead of paying the
            // time limit hundreds of times
            let crashes = std::cell::Cell::new(0u32);
            let chunk = 250u64;
            let mut base = 0u64;
            while base < n_layout && crashes.get() < 6 {
                let sb = format!("{seed}:{base}");
                run_batches(&["layout", &sb], chunk.min(n_layout - base), 50, Duration::from_secs(240), &mut rep, |rep, idx, ended| {
                    crashes.set(crashes.get() + 1);
                    let mut p = Prng::for_case(seed, base + idx);
                    let script = layout_script(&mut p);
                    viol(
                        rep,
                        &format!("questioning the lowerer about the types of a well-typed script kills the process: {}", ended_str(ended)),
                        "crash layout",
                        json!({"kind": "layout", "script": script}),
                    );
                });
                base += chunk;
            }
            crashes.set(0);
            // class representatives of the behavioural phase first, whatever the seed:
            // the representation battery (values equal as values, other bytes)
            run_batches(&["reps", "0:0"], beh::n_reps(), 30, Duration::from_secs(240), &mut rep, |rep, idx, ended| {
                crashes.set(crashes.get() + 1);
                let case = beh::gen_rep_case(idx);
                viol(
                    rep,
                    &format!("compiling / running a representative script kills the process or never ends: {}", ended_str(ended)),
                    "crash beh",
                    beh::case_json(&case),
                );
            });
            // constructors: the real lowerer's MIR run against the value-semantics spec
            // (`Model/ValueCtor`); class representatives first, whatever the seed
            for (kind, total) in [("ctor-reps", ctor::n_reps()), ("ctor", n_ctor)] {
                let sb = format!("{seed}:0");
                run_batches(&[kind, &sb], total, 250, Duration::from_secs(240), &mut rep, |rep, idx, ended| {
                    let pr = if kind == "ctor" { ctor::gen_prog(seed, idx) } else { ctor::rep_progs().swap_remove(idx as usize) };
                    viol(
                        rep,
                        &format!("lowering a well-typed constructor script kills the process or never ends: {}", ended_str(ended)),
                        "crash ctor",
                        json!({"kind": "ctor", "script": ctor::source(&pr), "seed": seed, "index": idx}),
                    );
                });
            }
            let mut base = 0u64;
            while base < n_beh && crashes.get() < 6 {
                let sb = format!("{seed}:{base}");
                run_batches(&["beh", &sb], chunk.min(n_beh - base), 50, Duration::from_secs(240), &mut rep, |rep, idx, ended| {
                    crashes.set(crashes.get() + 1);
                    let case = beh::gen_case(seed, base + idx);
                    viol(
                        rep,
                        &format!("compiling / running a well-typed script kills the process or never ends: {}", ended_str(ended)),
                        "crash beh",
                        beh::case_json(&case),
                    );
                });
                base += chunk;
            }
            if crashes.get() >= 6 {
                rep.notes.push("behavioural phase stopped early after 6 crashed / hanging cases".into());
            }
            rep.emit();
        }
        Some("show-rep") => {
            // print representative <idx> of the battery (script and spec)
            let c = beh::gen_rep_case(args[2].parse().expect("index"));
            println!("{}\n// spec: {}", c.script, c.spec.lines().next().unwrap_or(""));
        }
        Some("mir-rep") => {
            // print the real lowerer's MIR of representative <idx> of the behavioural battery
            let c = beh::gen_rep_case(args[2].parse().expect("index"));
            let rt = beh::runtime();
            match roto::verif_hooks::core::lower_to_mir(FileTree::test_file("c02.roto", &c.script, 0), &rt) {
                Ok(m) => println!("{}", m.text()),
                Err(e) => println!("ERROR {e}"),
            }
        }
        Some("show-ctor") => {
            // print constructor representative <idx> (or `r<seed>:<idx>`, a generated one)
            let pr = match args[2].strip_prefix('r').and_then(|x| x.split_once(':')) {
                Some((s, i)) => ctor::gen_prog(s.parse().expect("seed"), i.parse().expect("index")),
                None => ctor::rep_progs().swap_remove(args[2].parse().expect("index")),
            };
            println!("{}// {}", ctor::source(&pr), pr.sig);
        }
        Some("zst") => {
            let mut rep = Report::default();
            zst::run(&mut rep);
            rep.emit();
        }
        Some("zst-one") => {
            start_watchdog(30);
            zst::one(args[2].parse().expect("index"));
        }
        Some("worker") => {
            let (seed, base): (u64, u64) = match args[3].split_once(':') {
                Some((a, b)) => (a.parse().expect("seed"), b.parse().expect("base")),
                None => (args[3].parse().expect("seed"), 0),
            };
            let from: u64 = args[4].parse::<u64>().expect("from");
            let n: u64 = args[5].parse().expect("n");
            match args[2].as_str() {
                "layout" => worker_layout(seed, base, from, n),
                "beh" => beh::worker(seed, base, from, n, false),
                "reps" => beh::worker(seed, base, from, n, true),
                "ctor" => ctor::worker(seed, base, from, n, false),
                "ctor-reps" => ctor::worker(seed, base, from, n, true),
                "beh-one" => beh::replay_in_worker(&args[6]),
                _ => std::process::exit(64),
            }
        }
        Some("replay") => {
            // `@path` = read the JSON from a file (a script may exceed the argv limit)
            let text = match args[2].strip_prefix('@') {
                Some(path) => std::fs::read_to_string(path).expect("replay file"),
                None => args[2].clone(),
            };
            let v: Value = serde_json::from_str(&text).expect("json");
            let mut rep = Report::default();
            match v["kind"].as_str() {
                Some("layout") => {
                    std::panic::set_hook(Box::new(|_| {}));
                    let rt = layout_runtime();
                    let mut drv = Driver::spawn().expect("driver");
                    let mut seen = BTreeSet::new();
                    run_layout_case(v["script"].as_str().unwrap_or(""), &rt, &mut drv, &mut seen, &mut rep);
                }
                Some("beh") => beh::replay(&v, &mut rep),
                Some("ctor") => ctor::replay(&v, &mut rep),
                Some("zst") => {
                    let name = v["name"].as_str().unwrap_or("");
                    match zst::SCRIPTS.iter().position(|s| s.0 == name) {
                        Some(i) => zst::run_one(i, &mut rep),
                        None => rep.notes.push("unknown zst script".into()),
                    }
                }
                _ => rep.notes.push("unknown replay kind".into()),
            }
            rep.emit();
        }
        _ => {
            eprintln!("usage: c02 run <seed> <tier> | replay <json> | worker …");
            std::process::exit(64);
        }
    }
}

pub fn ended_str(e: &Ended) -> String {
    match e {
        Ended::Exit(3, _) => "the case did not finish within its time limit (hang / deadlock)".to_string(),
        Ended::Exit(c, s) => format!("exit {c}: {}", strip_ansi(s).lines().rev().take(3).collect::<Vec<_>>().join(" / ")),
        Ended::Signal(s, err) => format!("signal {s}: {}", strip_ansi(err).lines().rev().take(3).collect::<Vec<_>>().join(" / ")),
        Ended::Timeout => "timeout".into(),
    }
}
