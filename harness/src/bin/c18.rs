//! C18 correspondence: libraries built through the public item API
//! (`Item`, `Module::new`, `Type::clone`, `Function::new`, `Constant::new`,
//! `Impl::new`, `Use::new`, and `library!` for fixed shapes) are registered on
//! a real `Runtime`; outcome (Ok / Err kind / panic) and the reachability of
//! every item from scripts are compared three ways:
//!   implementation  vs  Lean model (`RotoV.Reg.register`, `Cfg.fixed`)   → model mismatch
//!   implementation  vs  the property's oracle (computed here from the tree) → violation
//! and across item orders (order-dependent).
//!
//! usage: c18 run <seed> <quick|thorough>
//!        c18 worker <seed> <tier> <from> <n>
//!        c18 replay <json>

use roto::{
    Constant, FileTree, Function, Impl, Item, Module, NoCtx, RegistrationError, Runtime, Type,
    Use, Val, library, location,
};
use rotov_harness::driver::Driver;
use rotov_harness::worker::{self, Ended};
use rotov_harness::{Prng, Report};
use serde_json::{Value as J, json};
use std::collections::{BTreeMap, BTreeSet};
use std::panic::{AssertUnwindSafe, catch_unwind};
use std::sync::Mutex;
use std::time::Duration;

// ------------------------------------------------------------------ marker types

#[derive(Clone, PartialEq, Debug)]
pub struct M<const N: usize>(pub u64);
impl<const N: usize> M<N> {
    fn new(v: u64) -> Self {
        M(v)
    }
}

macro_rules! with_m {
    ($i:expr, $T:ident => $e:expr) => {
        match $i {
            0 => { type $T = M<0>; $e }
            1 => { type $T = M<1>; $e }
            2 => { type $T = M<2>; $e }
            3 => { type $T = M<3>; $e }
            4 => { type $T = M<4>; $e }
            5 => { type $T = M<5>; $e }
            6 => { type $T = M<6>; $e }
            7 => { type $T = M<7>; $e }
            _ => unreachable!("marker index"),
        }
    };
}

const NM: usize = 8;
/// type id of `u64` towards the model (markers are 0..8)
const TY_U64: usize = 100;

// ------------------------------------------------------------------ library trees

#[derive(Clone, Debug, PartialEq)]
enum Shape {
    S0,        // () -> u64
    S1(usize), // (Val<Mi>) -> u64
    S2(usize), // (Option<Val<Mi>>) -> u64
    S3(usize), // () -> Val<Mi>
    S4(usize), // (Val<Mi>, u64) -> u64
    S5,        // (u64) -> u64
    S6(usize), // (Verdict<Val<Mi>, u64>) -> u64   (composite signatures: the components and their order,
    S7(usize), // (Result<u64, Val<Mi>>) -> u64     `rust_type_to_roto_type` on Verdict / Result / List)
    S8(usize), // (List<Val<Mi>>) -> u64
}

impl Shape {
    fn marker(&self) -> Option<usize> {
        match self {
            Shape::S1(i) | Shape::S2(i) | Shape::S3(i) | Shape::S4(i) | Shape::S6(i) | Shape::S7(i) | Shape::S8(i) => Some(*i),
            _ => None,
        }
    }
    fn lean(&self) -> String {
        match self {
            Shape::S0 => "0 r 100".into(),
            Shape::S1(i) => format!("1 r {i} r 100"),
            Shape::S2(i) => format!("1 o r {i} r 100"),
            Shape::S3(i) => format!("0 r {i}"),
            Shape::S4(i) => format!("2 r {i} r 100 r 100"),
            Shape::S5 => "1 r 100 r 100".into(),
            Shape::S6(i) => format!("1 v r {i} r 100 r 100"),
            Shape::S7(i) => format!("1 e r 100 r {i} r 100"),
            Shape::S8(i) => format!("1 l r {i} r 100"),
        }
    }
    fn code(&self) -> String {
        match self {
            Shape::S0 => "S0".into(),
            Shape::S1(i) => format!("S1.{i}"),
            Shape::S2(i) => format!("S2.{i}"),
            Shape::S3(i) => format!("S3.{i}"),
            Shape::S4(i) => format!("S4.{i}"),
            Shape::S5 => "S5".into(),
            Shape::S6(i) => format!("S6.{i}"),
            Shape::S7(i) => format!("S7.{i}"),
            Shape::S8(i) => format!("S8.{i}"),
        }
    }
    fn parse(s: &str) -> Shape {
        let (a, b) = s.split_once('.').unwrap_or((s, "0"));
        let i: usize = b.parse().unwrap();
        match a {
            "S0" => Shape::S0,
            "S1" => Shape::S1(i),
            "S2" => Shape::S2(i),
            "S3" => Shape::S3(i),
            "S4" => Shape::S4(i),
            "S6" => Shape::S6(i),
            "S7" => Shape::S7(i),
            "S8" => Shape::S8(i),
            _ => Shape::S5,
        }
    }
}

/// what an impl block is for / the type of a constant: a marker or `u64`
type TyRef = Option<usize>; // Some(i) = Val<M<i>>, None = u64

#[derive(Clone, Debug, PartialEq)]
enum It {
    Module { name: String, ch: Vec<It> },
    Type { name: String, m: usize },
    Fn { name: String, shape: Shape, tag: u64 },
    Const { name: String, ty: TyRef, tag: u64 },
    Impl { ty: TyRef, ch: Vec<It> },
    Use { paths: Vec<Vec<String>> },
}

impl It {
    fn to_json(&self) -> J {
        match self {
            It::Module { name, ch } => json!({"mod": name, "ch": ch.iter().map(|c| c.to_json()).collect::<Vec<_>>()}),
            It::Type { name, m } => json!({"type": name, "m": m}),
            It::Fn { name, shape, tag } => json!({"fn": name, "shape": shape.code(), "tag": tag}),
            It::Const { name, ty, tag } => json!({"const": name, "ty": ty.map(|x| x as i64).unwrap_or(-1), "tag": tag}),
            It::Impl { ty, ch } => json!({"impl": ty.map(|x| x as i64).unwrap_or(-1), "ch": ch.iter().map(|c| c.to_json()).collect::<Vec<_>>()}),
            It::Use { paths } => json!({"use": paths}),
        }
    }
    fn from_json(v: &J) -> It {
        let kids = |v: &J| v["ch"].as_array().map(|a| a.iter().map(It::from_json).collect()).unwrap_or_default();
        let tyref = |x: &J| { let i = x.as_i64().unwrap_or(-1); if i < 0 { None } else { Some(i as usize) } };
        if let Some(n) = v["mod"].as_str() {
            It::Module { name: n.into(), ch: kids(v) }
        } else if let Some(n) = v["type"].as_str() {
            It::Type { name: n.into(), m: v["m"].as_u64().unwrap() as usize }
        } else if let Some(n) = v["fn"].as_str() {
            It::Fn { name: n.into(), shape: Shape::parse(v["shape"].as_str().unwrap()), tag: v["tag"].as_u64().unwrap() }
        } else if let Some(n) = v["const"].as_str() {
            It::Const { name: n.into(), ty: tyref(&v["ty"]), tag: v["tag"].as_u64().unwrap() }
        } else if !v["impl"].is_null() {
            It::Impl { ty: tyref(&v["impl"]), ch: kids(v) }
        } else {
            It::Use {
                paths: v["use"].as_array().unwrap().iter()
                    .map(|p| p.as_array().unwrap().iter().map(|s| s.as_str().unwrap().to_string()).collect())
                    .collect(),
            }
        }
    }
}

fn libs_json(libs: &[Vec<It>]) -> J {
    J::Array(libs.iter().map(|l| J::Array(l.iter().map(|i| i.to_json()).collect())).collect())
}
fn libs_from_json(v: &J) -> Vec<Vec<It>> {
    v.as_array().unwrap().iter().map(|l| l.as_array().unwrap().iter().map(It::from_json).collect()).collect()
}

// ------------------------------------------------------------------ names

/// (name, lex code) — code = first + 8*more + 16*whole; first: 0 end of input,
/// 1 lexer error, 2 ident, 3 keyword, 4 other token.  18 = valid identifier.
const INVALID_NAMES: &[(&str, u32)] = &[
    ("", 0), (" ", 0), ("1x", 20), ("a b", 10), ("a-b", 10), ("a.b", 10), ("true", 20),
    ("false", 20), ("AS1", 20), (" f", 2), ("f ", 2), ("f // c", 2), ("f\n", 2), ("r#x", 10),
    ("\t", 0), ("f(", 10), ("0", 20), ("\"s\"", 20), ("-", 20),
];
/// Roto's documented keywords (the lexer's table is tied to this list by the
/// Lean theorem `keyword_table_documented` over the generated table).
const KEYWORDS: &[&str] = &[
    "accept", "const", "dep", "else", "enum", "filter", "filtermap", "for", "fn", "if", "import",
    "in", "let", "match", "pkg", "record", "reject", "return", "std", "super", "test", "while",
];
const VALID_NAMES: &[&str] = &[
    "f", "g", "h", "k", "alpha", "beta", "gamma", "T", "U", "V", "W", "K", "m", "n", "a", "b", "c",
    "d", "_x", "x1", "q_", "\u{e9}t\u{e9}", "\u{3b1}", "Foo", "get", "new", "type", "use", "mod",
    "impl", "struct", "loop",
];
/// root names that exist in every runtime (primitives → `prim`, others → `other`)
const ROOT_PRIMS: &[(&str, usize)] = &[("u64", TY_U64), ("u32", 101), ("String", 102), ("bool", 103)];
const ROOT_OTHERS: &[&str] = &["Option", "Verdict"];

fn lex_code(name: &str) -> u32 {
    if let Some((_, c)) = INVALID_NAMES.iter().find(|(n, _)| *n == name) {
        return *c;
    }
    if KEYWORDS.contains(&name) {
        return 19;
    }
    18
}

// ------------------------------------------------------------------ the property's oracle

#[derive(Clone, Debug, PartialEq, Eq, PartialOrd, Ord)]
enum Defect {
    InvalidName,
    NameTaken,
    TypeTwice,
    Unregistered,
    /// not one of the four: a use item with an empty path names nothing (must be an error, not a panic)
    EmptyUsePath,
}

#[derive(Clone, Debug)]
struct ItemInfo {
    /// "fn" | "method" | "const" | "type" | "mod"
    kind: &'static str,
    shape: Shape,
    ty: TyRef,
    tag: u64,
    marker: usize,
}

/// What the property says a runtime contains after a sequence of successful adds.
#[derive(Clone, Default)]
struct Spec {
    /// declared path → item
    items: BTreeMap<Vec<String>, ItemInfo>,
    /// marker → declared path of its type
    types: BTreeMap<usize, Vec<String>>,
    /// (scope path of the use, bound name) → target path; bool = use sits inside a module
    uses: BTreeMap<(Vec<String>, String), (Vec<String>, bool)>,
}

impl Spec {
    fn new() -> Spec {
        let mut s = Spec::default();
        for (n, _) in ROOT_PRIMS {
            s.items.insert(vec![n.to_string()], ItemInfo { kind: "builtin", shape: Shape::S0, ty: None, tag: 0, marker: 0 });
        }
        for n in ROOT_OTHERS {
            s.items.insert(vec![n.to_string()], ItemInfo { kind: "builtin", shape: Shape::S0, ty: None, tag: 0, marker: 0 });
        }
        s
    }

    fn type_path(&self, t: TyRef) -> Option<Vec<String>> {
        match t {
            None => Some(vec!["u64".to_string()]),
            Some(i) => self.types.get(&i).cloned(),
        }
    }

    /// The four defects of the property, on `lib` added to a runtime in this state.
    /// Returns (defects, state after a successful add).
    fn check(&self, lib: &[It]) -> (BTreeSet<Defect>, Spec) {
        let mut d = BTreeSet::new();
        let mut next = self.clone();
        // types first (passes make the order irrelevant)
        fn types(items: &[It], path: &mut Vec<String>, next: &mut Spec, d: &mut BTreeSet<Defect>) {
            for it in items {
                match it {
                    It::Module { name, ch } => {
                        path.push(name.clone());
                        types(ch, path, next, d);
                        path.pop();
                    }
                    It::Type { name, m } => {
                        let mut p = path.clone();
                        p.push(name.clone());
                        if next.types.contains_key(m) {
                            d.insert(Defect::TypeTwice);
                        } else {
                            next.types.insert(*m, p);
                        }
                    }
                    _ => {}
                }
            }
        }
        types(lib, &mut vec![], &mut next, &mut d);
        fn declare(next: &mut Spec, d: &mut BTreeSet<Defect>, p: Vec<String>, info: ItemInfo) {
            if next.items.contains_key(&p) {
                d.insert(Defect::NameTaken);
            } else {
                next.items.insert(p, info);
            }
        }
        fn name(n: &str, d: &mut BTreeSet<Defect>) {
            if lex_code(n) != 18 {
                d.insert(Defect::InvalidName);
            }
        }
        fn walk(items: &[It], path: &mut Vec<String>, in_impl: Option<TyRef>, next: &mut Spec, d: &mut BTreeSet<Defect>) {
            for it in items {
                match it {
                    It::Module { name: n, ch } => {
                        name(n, d);
                        let mut p = path.clone();
                        p.push(n.clone());
                        declare(next, d, p, ItemInfo { kind: "mod", shape: Shape::S0, ty: None, tag: 0, marker: 0 });
                        path.push(n.clone());
                        walk(ch, path, None, next, d);
                        path.pop();
                    }
                    It::Type { name: n, m } => {
                        name(n, d);
                        let mut p = path.clone();
                        p.push(n.clone());
                        declare(next, d, p, ItemInfo { kind: "type", shape: Shape::S0, ty: Some(*m), tag: 0, marker: *m });
                    }
                    It::Fn { name: n, shape, tag } => {
                        name(n, d);
                        if let Some(m) = shape.marker() {
                            if !next.types.contains_key(&m) {
                                d.insert(Defect::Unregistered);
                            }
                        }
                        let mut p = path.clone();
                        p.push(n.clone());
                        let kind = if in_impl.is_some() { "method" } else { "fn" };
                        declare(next, d, p, ItemInfo { kind, shape: shape.clone(), ty: in_impl.flatten(), tag: *tag, marker: 0 });
                    }
                    It::Const { name: n, ty, tag } => {
                        name(n, d);
                        if let Some(m) = ty {
                            if !next.types.contains_key(m) {
                                d.insert(Defect::Unregistered);
                            }
                        }
                        let mut p = path.clone();
                        p.push(n.clone());
                        declare(next, d, p, ItemInfo { kind: "const", shape: Shape::S0, ty: *ty, tag: *tag, marker: 0 });
                    }
                    It::Impl { ty, ch } => match next.type_path(*ty) {
                        None => {
                            d.insert(Defect::Unregistered);
                            // still look at the children for the other defects
                            let mut p = vec!["?unregistered".to_string()];
                            walk(ch, &mut p, Some(*ty), next, d);
                        }
                        Some(tp) => {
                            let mut p = tp.clone();
                            walk(ch, &mut p, Some(*ty), next, d);
                        }
                    },
                    It::Use { .. } => {}
                }
            }
        }
        walk(lib, &mut vec![], None, &mut next, &mut d);
        fn uses(items: &[It], path: &mut Vec<String>, next: &mut Spec, d: &mut BTreeSet<Defect>) {
            for it in items {
                match it {
                    It::Module { name, ch } => {
                        path.push(name.clone());
                        uses(ch, path, next, d);
                        path.pop();
                    }
                    It::Use { paths } => {
                        for p in paths {
                            if p.is_empty() {
                                d.insert(Defect::EmptyUsePath);
                            }
                            if let Some(last) = p.last() {
                                let key = (path.clone(), last.clone());
                                if next.uses.contains_key(&key) {
                                    d.insert(Defect::NameTaken);
                                } else {
                                    next.uses.insert(key, (p.clone(), !path.is_empty()));
                                }
                            }
                        }
                    }
                    _ => {}
                }
            }
        }
        uses(lib, &mut vec![], &mut next, &mut d);
        next.items.retain(|p, _| p.first().map(|s| s != "?unregistered").unwrap_or(true));
        (d, next)
    }

    /// Every path at which the property says an item is reachable: declared
    /// path, and through every use (bound name replacing the used prefix).
    /// bool = the path comes from a use inside a module.
    fn reachable(&self) -> Vec<(Vec<String>, Vec<String>, bool)> {
        let mut out = vec![];
        for (p, info) in &self.items {
            if info.kind == "builtin" {
                continue;
            }
            out.push((p.clone(), p.clone(), false));
        }
        for ((scope, bound), (target, nested)) in &self.uses {
            for p in self.items.keys() {
                if p.len() >= target.len() && p[..target.len()] == target[..] {
                    let mut q = scope.clone();
                    q.push(bound.clone());
                    q.extend_from_slice(&p[target.len()..]);
                    out.push((q, p.clone(), *nested));
                }
            }
        }
        out
    }
}

fn has_nested_use(items: &[It], depth: usize) -> bool {
    items.iter().any(|i| match i {
        It::Module { ch, .. } => has_nested_use(ch, depth + 1),
        It::Use { .. } => depth > 0,
        _ => false,
    })
}
fn has_empty_path(items: &[It]) -> bool {
    items.iter().any(|i| match i {
        It::Module { ch, .. } => has_empty_path(ch),
        It::Use { paths } => paths.iter().any(|p| p.is_empty()),
        _ => false,
    })
}
fn max_use_len(items: &[It]) -> usize {
    items.iter().map(|i| match i {
        It::Module { ch, .. } => max_use_len(ch),
        It::Use { paths } => paths.iter().map(|p| p.len()).max().unwrap_or(0),
        _ => 0,
    }).max().unwrap_or(0)
}
fn depth_of(items: &[It]) -> usize {
    items.iter().map(|i| match i {
        It::Module { ch, .. } => 1 + depth_of(ch),
        _ => 0,
    }).max().unwrap_or(0)
}
fn count_items(items: &[It]) -> usize {
    items.iter().map(|i| match i {
        It::Module { ch, .. } | It::Impl { ch, .. } => 1 + count_items(ch),
        _ => 1,
    }).sum()
}

// ------------------------------------------------------------------ building real items

static PANIC_MSG: Mutex<String> = Mutex::new(String::new());

fn install_hook() {
    std::panic::set_hook(Box::new(|info| {
        let msg = info.payload().downcast_ref::<&str>().map(|s| s.to_string())
            .or_else(|| info.payload().downcast_ref::<String>().cloned())
            .unwrap_or_default();
        let loc = info.location().map(|l| l.file().rsplit('/').next().unwrap_or("").to_string()).unwrap_or_default();
        if std::env::var("C18_DEBUG").is_ok() {
            eprintln!("panic at {:?}: {msg}", info.location());
        }
        if let Ok(mut g) = PANIC_MSG.lock() {
            *g = format!("{loc}: {}", msg.chars().take(80).collect::<String>());
        }
    }));
}

fn build_fn(name: &str, shape: &Shape, tag: u64) -> Result<Function, RegistrationError> {
    let loc = location!();
    match shape {
        Shape::S0 => Function::new(name, "", vec![], move || tag, loc),
        Shape::S5 => Function::new(name, "", vec!["a"], move |_a: u64| tag, loc),
        Shape::S1(i) => with_m!(*i, T => Function::new(name, "", vec!["a"], move |_a: Val<T>| tag, loc)),
        Shape::S2(i) => with_m!(*i, T => Function::new(name, "", vec!["a"], move |_a: Option<Val<T>>| tag, loc)),
        Shape::S3(i) => with_m!(*i, T => Function::new(name, "", vec![], move || Val(T::new(tag)), loc)),
        Shape::S4(i) => with_m!(*i, T => Function::new(name, "", vec!["a", "b"], move |_a: Val<T>, _b: u64| tag, loc)),
        Shape::S6(i) => with_m!(*i, T => Function::new(name, "", vec!["a"], move |_a: roto::Verdict<Val<T>, u64>| tag, loc)),
        Shape::S7(i) => with_m!(*i, T => Function::new(name, "", vec!["a"], move |_a: Result<u64, Val<T>>| tag, loc)),
        Shape::S8(i) => with_m!(*i, T => Function::new(name, "", vec!["a"], move |_a: roto::List<Val<T>>| tag, loc)),
    }
}

fn build(items: &[It]) -> Result<Vec<Item>, RegistrationError> {
    let mut out = vec![];
    for it in items {
        out.push(match it {
            It::Module { name, ch } => {
                let mut m = Module::new(name.as_str(), "", location!())?;
                m.add(build(ch)?);
                Item::from(m)
            }
            It::Type { name, m } => {
                with_m!(*m, T => Item::from(Type::clone::<Val<T>>(name.as_str(), "", location!())?))
            }
            It::Fn { name, shape, tag } => Item::from(build_fn(name, shape, *tag)?),
            It::Const { name, ty, tag } => match ty {
                None => Item::from(Constant::new(name.as_str(), "", *tag, location!())?),
                Some(i) => with_m!(*i, T => Item::from(Constant::new(name.as_str(), "", Val(T::new(*tag)), location!())?)),
            },
            It::Impl { ty, ch } => {
                let mut b = match ty {
                    None => Impl::new::<u64>(location!()),
                    Some(i) => with_m!(*i, T => Impl::new::<Val<T>>(location!())),
                };
                b.add(build(ch)?);
                Item::from(b)
            }
            It::Use { paths } => Item::from(Use::new(paths.clone(), location!())),
        });
    }
    Ok(out)
}

fn err_kind(e: &RegistrationError) -> &'static str {
    let m = format!("{e}");
    if m.contains("already registered under a different name") {
        "typeTwice"
    } else if m.contains("already exists") || m.contains("declared twice") {
        "nameTaken"
    } else if m.contains("unregistered type") {
        "unregistered"
    } else if m.contains("Cannot nest") {
        "nestedInImpl"
    } else if m.contains("Could not get scope") {
        "noScope"
    } else if m.contains("empty path") {
        "emptyPath"
    } else if m.contains("not a valid Roto identifier") || m.contains("is a keyword") {
        "invalidName"
    } else {
        "other"
    }
}

/// helper functions `zzmk<i>() -> Val<Mi>` and `zzget<i>(Val<Mi>) -> u64`
fn helpers(markers: &BTreeSet<usize>) -> Vec<Item> {
    let mut out = vec![];
    for &i in markers {
        with_m!(i, T => {
            out.push(Item::from(Function::new(format!("zzmk{i}").as_str(), "", vec![], move || Val(T::new(4242)), location!()).unwrap()));
            out.push(Item::from(Function::new(format!("zzget{i}").as_str(), "", vec!["a"], move |a: Val<T>| a.0.0, location!()).unwrap()));
        });
    }
    out
}

#[derive(Clone, Debug, PartialEq)]
enum Outcome {
    Ok,
    Err(String),
    Panic(String),
}
impl Outcome {
    fn class(&self) -> &'static str {
        match self {
            Outcome::Ok => "ok",
            Outcome::Err(_) => "err",
            Outcome::Panic(_) => "panic",
        }
    }
    fn show(&self) -> String {
        match self {
            Outcome::Ok => "ok".into(),
            Outcome::Err(k) => format!("err:{k}"),
            Outcome::Panic(m) => format!("panic:{m}"),
        }
    }
}

/// what `Runtime::types()/functions()/constants()` hold (public getters): a rejected add must not change them
fn getter_counts(rt: &Runtime<NoCtx>) -> (usize, usize, usize) {
    (rt.types().len(), rt.functions().len(), rt.constants().len())
}

struct ImplRun {
    outs: Vec<Outcome>,
    /// the runtime after the last add (None after a panic: the host is gone)
    rt: Option<Runtime<NoCtx>>,
    /// (index of a rejected add, what the public getters show before -> after it)
    leftovers: Vec<(usize, String)>,
}

/// Register the libraries one after the other on ONE fresh runtime. A rejected
/// add is an error value the host handles: the session goes on with the same
/// runtime (only a panic ends it).
fn run_impl(libs: &[Vec<It>]) -> ImplRun {
    let mut outs = vec![];
    let mut leftovers = vec![];
    let mut rt = Runtime::new();
    for (k, lib) in libs.iter().enumerate() {
        let before = getter_counts(&rt);
        let r = catch_unwind(AssertUnwindSafe(|| {
            let items = build(lib)?;
            rt.add(items)
        }));
        match r {
            Ok(Ok(())) => outs.push(Outcome::Ok),
            Ok(Err(e)) => {
                outs.push(Outcome::Err(err_kind(&e).to_string()));
                let after = getter_counts(&rt);
                if after != before {
                    leftovers.push((k, format!("(types, functions, constants) {before:?} -> {after:?}")));
                }
            }
            Err(_) => {
                outs.push(Outcome::Panic(PANIC_MSG.lock().map(|g| g.clone()).unwrap_or_default()));
                return ImplRun { outs, rt: None, leftovers };
            }
        }
    }
    ImplRun { outs, rt: Some(rt), leftovers }
}

// ------------------------------------------------------------------ probes

#[derive(Clone, Debug)]
struct Probe {
    path: Vec<String>,
    /// the item the expression is written for
    info: ItemInfo,
    /// what the property expects: Some(tag) reachable, None not reachable
    expect: Option<u64>,
    /// comes from a use inside a module
    nested_use: bool,
    what: &'static str,
}

fn arg(m: usize) -> String {
    format!("zzmk{m}()")
}

/// expression of type u64 that uses the item at `path` (written for `info`)
fn probe_expr(path: &[String], info: &ItemInfo) -> Option<String> {
    let p = path.join(".");
    Some(match info.kind {
        "fn" | "method" => match &info.shape {
            Shape::S0 => format!("{p}()"),
            Shape::S5 => format!("{p}(7)"),
            Shape::S1(i) => format!("{p}({})", arg(*i)),
            Shape::S2(i) => format!("{p}(Some({}))", arg(*i)),
            Shape::S3(i) => format!("zzget{i}({p}())"),
            Shape::S4(i) => format!("{p}({}, 7)", arg(*i)),
            Shape::S6(i) => format!("{p}(Verdict.Accept({}))", arg(*i)),
            Shape::S7(i) => format!("{p}(Err({}))", arg(*i)),
            Shape::S8(i) => format!("{p}([{}])", arg(*i)),
        },
        "const" => match info.ty {
            None => p,
            Some(i) => format!("zzget{i}({p})"),
        },
        _ => return None,
    })
}

fn probe_fn(idx: usize, pr: &Probe) -> String {
    match pr.info.kind {
        // a type path: usable as a parameter type, and it is the marker's type
        "type" if pr.expect.is_none() => format!("fn p{idx}(x: {}) -> u64 {{ 0 }}\n", pr.path.join(".")),
        "type" => format!("fn p{idx}(x: {}) -> u64 {{ zzget{}(x) }}\n", pr.path.join("."), pr.info.marker),
        _ => format!("fn p{idx}() -> u64 {{ {} }}\n", probe_expr(&pr.path, &pr.info).unwrap()),
    }
}

#[derive(Clone, Debug, PartialEq)]
enum Seen {
    Tag(u64),
    TypeOk,
    No,
    Panic,
}

fn compile_probes(rt: &Runtime<NoCtx>, probes: &[(usize, &Probe)]) -> Option<Vec<Seen>> {
    let mut src = String::new();
    for (i, p) in probes {
        src.push_str(&probe_fn(*i, p));
    }
    let r = catch_unwind(AssertUnwindSafe(|| {
        let mut pkg = FileTree::test_file("c18.roto", &src, 0).compile(rt).ok()?;
        let mut out = vec![];
        for (i, p) in probes {
            if p.info.kind == "type" {
                out.push(Seen::TypeOk);
            } else {
                let f = pkg.get_function::<fn() -> u64>(&format!("p{i}")).ok()?;
                out.push(Seen::Tag(f.call()));
            }
        }
        Some(out)
    }));
    match r {
        Ok(x) => x,
        Err(_) => None,
    }
}

fn run_probes(rt: &Runtime<NoCtx>, probes: &[Probe]) -> Vec<Seen> {
    // the expected-reachable ones in one script; on failure (and for the rest) one by one
    let pos: Vec<(usize, &Probe)> = probes.iter().enumerate().filter(|(_, p)| p.expect.is_some()).collect();
    let mut seen: Vec<Option<Seen>> = vec![None; probes.len()];
    if !pos.is_empty() {
        if let Some(v) = compile_probes(rt, &pos) {
            for ((i, _), s) in pos.iter().zip(v) {
                seen[*i] = Some(s);
            }
        }
    }
    for (i, p) in probes.iter().enumerate() {
        if seen[i].is_none() {
            let one = [(i, p)];
            let r = catch_unwind(AssertUnwindSafe(|| compile_probes(rt, &one)));
            seen[i] = Some(match r {
                Ok(Some(v)) => v[0].clone(),
                Ok(None) => {
                    // distinguish a compiler panic from a compile error
                    let src = probe_fn(i, p);
                    match catch_unwind(AssertUnwindSafe(|| FileTree::test_file("c18.roto", &src, 0).compile(rt).is_ok())) {
                        Ok(_) => Seen::No,
                        Err(_) => Seen::Panic,
                    }
                }
                Err(_) => Seen::Panic,
            });
        }
    }
    seen.into_iter().map(|s| s.unwrap()).collect()
}

/// what the model's resolution string says a script sees at that path: the
/// probe expression is written for `pr.info`; if the path resolves to another
/// item, the expression compiles only if that item has the same shape
fn model_seen(res: &str, pr: &Probe, by_tag: &BTreeMap<u64, ItemInfo>) -> Seen {
    let mut parts = res.splitn(3, ':');
    let kind = parts.next().unwrap_or("");
    let tag = parts.next().and_then(|t| t.parse::<u64>().ok());
    match (pr.info.kind, kind) {
        ("fn", "fn") | ("fn", "meth") | ("method", "meth") | ("method", "fn") => {
            let t = tag.unwrap_or(0);
            match by_tag.get(&t) {
                Some(i) if i.shape == pr.info.shape => Seen::Tag(t),
                // an item of a rejected library that the oracle's table does not list (second of two of one name)
                None if pr.what == "failed-add" => Seen::Tag(t),
                _ => Seen::No,
            }
        }
        ("const", "const") => {
            let t = tag.unwrap_or(0);
            match by_tag.get(&t) {
                Some(i) if i.ty == pr.info.ty => Seen::Tag(t),
                _ => Seen::No,
            }
        }
        ("type", "type") => {
            if tag == Some(pr.info.marker as u64) { Seen::TypeOk } else { Seen::No }
        }
        _ => Seen::No,
    }
}

// ------------------------------------------------------------------ model

struct Names {
    ids: BTreeMap<String, usize>,
    list: Vec<String>,
}
impl Names {
    fn new() -> Names {
        Names { ids: BTreeMap::new(), list: vec![] }
    }
    fn id(&mut self, s: &str) -> usize {
        if let Some(i) = self.ids.get(s) {
            return *i;
        }
        let i = self.list.len();
        self.ids.insert(s.to_string(), i);
        self.list.push(s.to_string());
        i
    }
}

fn ty_lean(t: TyRef) -> String {
    match t {
        None => format!("r {TY_U64}"),
        Some(i) => format!("r {i}"),
    }
}

fn items_lean(items: &[It], names: &mut Names, out: &mut String) {
    out.push_str(&format!("{} ", items.len()));
    for it in items {
        match it {
            It::Module { name, ch } => {
                out.push_str(&format!("M {} ", names.id(name)));
                items_lean(ch, names, out);
            }
            It::Type { name, m } => out.push_str(&format!("T {} {m} ", names.id(name))),
            It::Fn { name, shape, tag } => out.push_str(&format!("F {} {} {tag} ", names.id(name), shape.lean())),
            It::Const { name, ty, tag } => out.push_str(&format!("C {} {} {tag} ", names.id(name), ty_lean(*ty))),
            It::Impl { ty, ch } => {
                out.push_str(&format!("I {} ", ty.unwrap_or(TY_U64)));
                items_lean(ch, names, out);
            }
            It::Use { paths } => {
                out.push_str(&format!("U {} ", paths.len()));
                for p in paths {
                    out.push_str(&format!("{} ", p.len()));
                    for s in p {
                        out.push_str(&format!("{} ", names.id(s)));
                    }
                }
            }
        }
    }
}

/// (outcomes, resolutions) of the model for the session (`cfg` = four bits)
fn run_model(drv: &mut Driver, cfg: &str, libs: &[Vec<It>], queries: &[Vec<String>]) -> (Vec<Outcome>, Vec<String>) {
    let mut names = Names::new();
    let prims: Vec<(usize, usize)> = ROOT_PRIMS.iter().map(|(n, t)| (names.id(n), *t)).collect();
    let others: Vec<usize> = ROOT_OTHERS.iter().map(|n| names.id(n)).collect();
    let mut body = String::new();
    body.push_str(&format!("A {} ", libs.len()));
    for l in libs {
        items_lean(l, &mut names, &mut body);
    }
    body.push_str(&format!("Q {} ", queries.len()));
    for q in queries {
        body.push_str(&format!("{} ", q.len()));
        for s in q {
            body.push_str(&format!("{} ", names.id(s)));
        }
    }
    let mut req = format!("c18 session {cfg} L {} ", names.list.len());
    for n in &names.list {
        req.push_str(&format!("{} ", lex_code(n)));
    }
    req.push_str(&format!("P {} ", prims.len()));
    for (a, b) in &prims {
        req.push_str(&format!("{a} {b} "));
    }
    req.push_str(&format!("O {} ", others.len()));
    for a in &others {
        req.push_str(&format!("{a} "));
    }
    req.push_str(&body);
    let ans = drv.ask(req.trim_end());
    let (o, r) = ans.split_once(" |").unwrap_or_else(|| panic!("driver answered {ans:?} to {req:?}"));
    let outs = o.split_whitespace().map(|t| {
        if t == "ok" {
            Outcome::Ok
        } else if let Some(k) = t.strip_prefix("err:") {
            Outcome::Err(k.to_string())
        } else {
            Outcome::Panic(t.trim_start_matches("panic:").to_string())
        }
    }).collect();
    (outs, r.split_whitespace().map(|s| s.to_string()).collect())
}

// ------------------------------------------------------------------ generator

struct Gen<'a> {
    rng: &'a mut Prng,
    tag: u64,
    /// names used per scope path in the whole session (declared or bound by a use)
    used: BTreeMap<Vec<String>, BTreeSet<String>>,
    /// markers registered so far (with their declared path)
    types: BTreeMap<usize, Vec<String>>,
    /// declared function / const / module / type paths so far (targets for uses)
    targets: Vec<Vec<String>>,
    /// method / const names per type
    members: BTreeMap<TyRef, BTreeSet<String>>,
}

impl<'a> Gen<'a> {
    fn fresh(&mut self, scope: &[String]) -> String {
        let used = self.used.entry(scope.to_vec()).or_default();
        for _ in 0..50 {
            let n = VALID_NAMES[self.rng.below(VALID_NAMES.len() as u64) as usize];
            if !used.contains(n) && !(scope.is_empty() && (ROOT_PRIMS.iter().any(|p| p.0 == n) || ROOT_OTHERS.contains(&n))) {
                used.insert(n.to_string());
                return n.to_string();
            }
        }
        let n = format!("nn{}", used.len());
        used.insert(n.clone());
        n
    }
    fn next_tag(&mut self) -> u64 {
        self.tag += 1;
        1000 + self.tag
    }
    fn shape(&mut self, avail: &[usize]) -> Shape {
        if avail.is_empty() || self.rng.chance(1, 3) {
            return if self.rng.chance(1, 2) { Shape::S0 } else { Shape::S5 };
        }
        let i = *self.rng.pick(avail);
        match self.rng.below(7) {
            0 => Shape::S1(i),
            1 => Shape::S2(i),
            2 => Shape::S3(i),
            3 => Shape::S4(i),
            4 => Shape::S6(i),
            5 => Shape::S7(i),
            _ => Shape::S8(i),
        }
    }

    /// a well-formed library (relative to the session so far)
    fn library(&mut self, size: usize, allow_nested_use: bool) -> Vec<It> {
        // decide the types of this library first so that every item may mention them
        let mut new_types: Vec<usize> = vec![];
        let n_types = self.rng.below(3) as usize;
        for _ in 0..n_types {
            let free: Vec<usize> = (0..NM).filter(|i| !self.types.contains_key(i) && !new_types.contains(i)).collect();
            if free.is_empty() {
                break;
            }
            new_types.push(*self.rng.pick(&free));
        }
        let mut avail: Vec<usize> = self.types.keys().cloned().collect();
        avail.extend(new_types.iter().cloned());
        let mut pending_types = new_types.clone();
        let mut budget = size;
        let mut items = self.level(&mut vec![], &mut budget, &avail, &mut pending_types, 0);
        // types not placed yet go to the root
        for m in pending_types.clone() {
            let name = self.fresh(&[]);
            self.types.insert(m, vec![name.clone()]);
            self.targets.push(vec![name.clone()]);
            items.push(It::Type { name, m });
        }
        // impl blocks
        let n_impl = self.rng.below(3);
        for _ in 0..n_impl {
            let ty: TyRef = if avail.is_empty() || self.rng.chance(1, 5) { None } else { Some(*self.rng.pick(&avail)) };
            let mut ch = vec![];
            for _ in 0..self.rng.range(0, 3) {
                let taken = self.members.entry(ty).or_default().clone();
                let mut name = None;
                for _ in 0..20 {
                    let n = VALID_NAMES[self.rng.below(VALID_NAMES.len() as u64) as usize];
                    if !taken.contains(n) {
                        name = Some(n.to_string());
                        break;
                    }
                }
                let Some(name) = name else { continue };
                self.members.entry(ty).or_default().insert(name.clone());
                let tag = self.next_tag();
                if self.rng.chance(1, 4) {
                    let cty = if avail.is_empty() || self.rng.chance(1, 2) { None } else { Some(*self.rng.pick(&avail)) };
                    ch.push(It::Const { name, ty: cty, tag });
                } else {
                    // method with the receiver first, or a static method
                    let shape = match ty {
                        Some(i) if self.rng.chance(2, 3) => if self.rng.chance(1, 2) { Shape::S1(i) } else { Shape::S4(i) },
                        None if self.rng.chance(1, 2) => Shape::S5,
                        _ => self.shape(&avail),
                    };
                    ch.push(It::Fn { name, shape, tag });
                }
            }
            // an impl block may sit at the root or inside a module
            let block = It::Impl { ty, ch };
            let mods: Vec<usize> = items.iter().enumerate().filter(|(_, i)| matches!(i, It::Module { .. })).map(|(k, _)| k).collect();
            if !mods.is_empty() && self.rng.chance(1, 3) {
                let k = *self.rng.pick(&mods);
                if let It::Module { ch, .. } = &mut items[k] {
                    ch.push(block);
                }
            } else {
                items.push(block);
            }
        }
        // uses
        let n_use = self.rng.below(3);
        for _ in 0..n_use {
            let mut paths = vec![];
            for _ in 0..self.rng.range(1, 2) {
                let cands: Vec<Vec<String>> = self.targets.iter().filter(|t| t.len() >= 2).cloned().collect();
                if cands.is_empty() {
                    break;
                }
                let t = self.rng.pick(&cands).clone();
                let last = t.last().unwrap().clone();
                let nested = allow_nested_use && self.rng.chance(1, 2);
                let scope: Vec<String> = if nested {
                    // the scope of some root module of this library
                    match items.iter().find_map(|i| if let It::Module { name, .. } = i { Some(name.clone()) } else { None }) {
                        Some(m) => vec![m],
                        None => vec![],
                    }
                } else {
                    vec![]
                };
                // the bound name must be free at the root as well: on this tree a nested use lands there
                let root_used = self.used.entry(vec![]).or_default().contains(&last);
                let used = self.used.entry(scope.clone()).or_default();
                if used.contains(&last) || root_used {
                    continue;
                }
                used.insert(last.clone());
                self.used.entry(vec![]).or_default().insert(last.clone());
                if scope.is_empty() {
                    paths.push(t);
                } else {
                    let u = It::Use { paths: vec![t] };
                    for i in items.iter_mut() {
                        if let It::Module { name, ch } = i {
                            if *name == scope[0] {
                                ch.push(u);
                                break;
                            }
                        }
                    }
                }
            }
            if !paths.is_empty() {
                items.push(It::Use { paths });
            }
        }
        shuffle_all(&mut items, self.rng);
        items
    }

    fn level(&mut self, path: &mut Vec<String>, budget: &mut usize, avail: &[usize], pending: &mut Vec<usize>, depth: usize) -> Vec<It> {
        let mut out = vec![];
        let n = self.rng.range(1, 4) as usize;
        for _ in 0..n {
            if *budget == 0 {
                break;
            }
            *budget -= 1;
            let k = self.rng.below(10);
            if k < 3 && depth < 4 {
                let name = self.fresh(path);
                let mut p = path.clone();
                p.push(name.clone());
                self.targets.push(p.clone());
                path.push(name.clone());
                let ch = self.level(path, budget, avail, pending, depth + 1);
                path.pop();
                out.push(It::Module { name, ch });
            } else if k < 5 && !pending.is_empty() {
                let m = pending.remove(0);
                let name = self.fresh(path);
                let mut p = path.clone();
                p.push(name.clone());
                self.types.insert(m, p.clone());
                self.targets.push(p);
                out.push(It::Type { name, m });
            } else if k < 8 {
                let name = self.fresh(path);
                let mut p = path.clone();
                p.push(name.clone());
                self.targets.push(p);
                let shape = self.shape(avail);
                let tag = self.next_tag();
                out.push(It::Fn { name, shape, tag });
            } else {
                let name = self.fresh(path);
                let mut p = path.clone();
                p.push(name.clone());
                self.targets.push(p);
                let ty = if avail.is_empty() || self.rng.chance(1, 2) { None } else { Some(*self.rng.pick(avail)) };
                let tag = self.next_tag();
                out.push(It::Const { name, ty, tag });
            }
        }
        out
    }
}

fn shuffle<T>(v: &mut [T], rng: &mut Prng) {
    for i in (1..v.len()).rev() {
        let j = rng.below(i as u64 + 1) as usize;
        v.swap(i, j);
    }
}
fn shuffle_all(items: &mut Vec<It>, rng: &mut Prng) {
    shuffle(items, rng);
    for it in items.iter_mut() {
        match it {
            It::Module { ch, .. } | It::Impl { ch, .. } => shuffle_all(ch, rng),
            It::Use { paths } => shuffle(paths, rng),
            _ => {}
        }
    }
}

/// all positions (paths of indices) of items in a tree
fn positions(items: &[It], prefix: &mut Vec<usize>, out: &mut Vec<Vec<usize>>) {
    for (k, it) in items.iter().enumerate() {
        prefix.push(k);
        out.push(prefix.clone());
        if let It::Module { ch, .. } | It::Impl { ch, .. } = it {
            positions(ch, prefix, out);
        }
        prefix.pop();
    }
}
fn at_mut<'a>(items: &'a mut Vec<It>, pos: &[usize]) -> (&'a mut Vec<It>, usize) {
    if pos.len() == 1 {
        return (items, pos[0]);
    }
    match &mut items[pos[0]] {
        It::Module { ch, .. } | It::Impl { ch, .. } => at_mut(ch, &pos[1..]),
        _ => unreachable!(),
    }
}

/// Inject one defect of `kind` at position `pos` of `lib` (if it applies
/// there). `spec` is the state before this library. Returns a description.
fn inject(lib: &mut Vec<It>, pos: &[usize], kind: &Defect, spec: &Spec, rng: &mut Prng, tag: u64) -> Option<String> {
    let lib_paths: BTreeMap<usize, Vec<String>> = spec.check(lib).1.types;
    let lib_markers = lib_paths.keys().cloned().collect::<BTreeSet<_>>();
    let in_impl = {
        // is the parent of pos an impl?
        let mut cur: &Vec<It> = lib;
        let mut imp = false;
        for &k in &pos[..pos.len() - 1] {
            match &cur[k] {
                It::Impl { ch, .. } => { imp = true; cur = ch; }
                It::Module { ch, .. } => { imp = false; cur = ch; }
                _ => unreachable!(),
            }
        }
        imp
    };
    let (sibs, k) = at_mut(lib, pos);
    match kind {
        Defect::InvalidName => {
            let bad = if rng.chance(1, 3) {
                KEYWORDS[rng.below(KEYWORDS.len() as u64) as usize].to_string()
            } else {
                INVALID_NAMES[rng.below(INVALID_NAMES.len() as u64) as usize].0.to_string()
            };
            match &mut sibs[k] {
                It::Module { name, .. } | It::Type { name, .. } | It::Fn { name, .. } | It::Const { name, .. } => {
                    *name = bad.clone();
                    Some(format!("invalid-name {:?}", bad))
                }
                _ => None,
            }
        }
        Defect::NameTaken => {
            // a second item with the name of the item at pos, next to it
            let name = match &sibs[k] {
                It::Module { name, .. } | It::Type { name, .. } | It::Fn { name, .. } | It::Const { name, .. } => name.clone(),
                It::Use { paths } => {
                    if in_impl { return None; }
                    // a second use binding the same name
                    let p = paths.first()?.clone();
                    sibs.push(It::Use { paths: vec![p] });
                    return Some("taken use-twice".into());
                }
                It::Impl { .. } => return None,
            };
            let dup = match rng.below(if in_impl { 2 } else { 3 }) {
                0 => It::Fn { name, shape: Shape::S0, tag },
                1 => It::Const { name, ty: None, tag },
                _ => It::Module { name, ch: vec![] },
            };
            let what = format!("taken {}", match &dup { It::Fn { .. } => "fn", It::Const { .. } => "const", _ => "mod" });
            let at = rng.below(sibs.len() as u64 + 1) as usize;
            sibs.insert(at, dup);
            Some(what)
        }
        Defect::TypeTwice => {
            if in_impl { return None; }
            // register a marker that is already registered (earlier add or this library) again
            let all: Vec<usize> = lib_markers.iter().cloned().collect();
            if all.is_empty() { return None; }
            let m = *rng.pick(&all);
            let at = rng.below(sibs.len() as u64 + 1) as usize;
            // under a fresh identifier, or under the identifier the type already has (wherever `pos` is: mostly
            // another scope than the first registration; in the same scope the name is taken as well)
            let same = lib_paths.get(&m).and_then(|p| p.last().cloned()).filter(|_| rng.chance(1, 2));
            let what = if same.is_some() { "type-twice same-identifier" } else { "type-twice" };
            sibs.insert(at, It::Type { name: same.unwrap_or_else(|| format!("Dup{tag}")), m });
            Some(what.into())
        }
        Defect::EmptyUsePath => None,
        Defect::Unregistered => {
            let free: Vec<usize> = (0..NM).filter(|i| !lib_markers.contains(i)).collect();
            if free.is_empty() { return None; }
            let m = *rng.pick(&free);
            let name = format!("un{tag}");
            let (it, what) = match rng.below(if in_impl { 2 } else { 3 }) {
                0 => (It::Fn { name, shape: match rng.below(7) { 0 => Shape::S1(m), 1 => Shape::S2(m), 2 => Shape::S3(m), 3 => Shape::S4(m), 4 => Shape::S6(m), 5 => Shape::S7(m), _ => Shape::S8(m) }, tag }, "unregistered fn"),
                1 => (It::Const { name, ty: Some(m), tag }, "unregistered const"),
                _ => (It::Impl { ty: Some(m), ch: vec![] }, "unregistered impl"),
            };
            let at = rng.below(sibs.len() as u64 + 1) as usize;
            sibs.insert(at, it);
            Some(what.into())
        }
    }
}

// ------------------------------------------------------------------ one session

struct SessionResult {
    class: String,
    sample: J,
}

fn situation(libs: &[Vec<It>]) -> String {
    // the most specific situation only, so that a key names one call site
    if libs.iter().any(|l| has_empty_path(l)) {
        "empty-use-path".into()
    } else if libs.iter().any(|l| has_nested_use(l, 0)) {
        "use-in-module".into()
    } else if libs.iter().any(|l| max_use_len(l) >= 3) {
        "use-path-3plus".into()
    } else {
        String::new()
    }
}

/// Run one session on the implementation and the model, compare with the
/// oracle. `variants` are reorderings of the same libraries (index 0 = as given).
///
/// A session is a HISTORY on one runtime: a rejected add is an error the host
/// handles, the next library goes to the same runtime. The property's oracle
/// (and the model: `RotoV.Reg.session`) continue from the state before the
/// rejected add — it must be as if that library had never been offered.
fn check_session(rep: &mut Report, drv: &mut Driver, variants: &[Vec<Vec<It>>], note: &str, index: u64) -> SessionResult {
    let libs0 = &variants[0];
    let input = |v: &Vec<Vec<It>>| json!({"libs": libs_json(v), "note": note, "index": index});
    // oracle
    let mut spec = Spec::new();
    let mut expect: Vec<(&'static str, BTreeSet<Defect>)> = vec![];
    let mut defects_seen: BTreeSet<Defect> = BTreeSet::new();
    // what the rejected libraries would have declared (path -> item)
    let mut offered_in_vain: Vec<(Vec<String>, ItemInfo)> = vec![];
    for lib in libs0 {
        let (d, next) = spec.check(lib);
        if d.is_empty() {
            expect.push(("ok", d));
            spec = next;
        } else {
            defects_seen.extend(d.iter().cloned());
            expect.push(("err", d));
            for (p, info) in &next.items {
                if !spec.items.contains_key(p) {
                    offered_in_vain.push((p.clone(), info.clone()));
                }
            }
        }
    }
    let sit = situation(libs0);
    let suffix = if sit.is_empty() { String::new() } else { format!(" {sit}") };
    // " after-failed-add": an earlier add of this session was (to be) rejected
    let hist = |k: usize| if expect[..k.min(expect.len())].iter().any(|e| e.0 == "err") { " after-failed-add" } else { "" };

    // probes from the oracle's view: everything that was accepted, at every path the property names
    let mut probes: Vec<Probe> = vec![];
    let reach = spec.reachable();
    let mut expected_paths: BTreeMap<Vec<String>, Vec<String>> = BTreeMap::new();
    for (q, target, _) in &reach {
        expected_paths.insert(q.clone(), target.clone());
    }
    for (q, target, nested) in &reach {
        let info = spec.items[target].clone();
        if !matches!(info.kind, "fn" | "method" | "const" | "type") {
            continue;
        }
        // shadowing: a path whose first segment is declared at the root is the declared item
        probes.push(Probe { path: q.clone(), info: info.clone(), expect: Some(info.tag), nested_use: *nested, what: if q == target { "declared" } else { "use" } });
    }
    // not reachable at undeclared paths: bare name at the root, and under a sibling module
    let mut negs = 0;
    for (p, info) in &spec.items {
        if negs >= 4 || !matches!(info.kind, "fn" | "const") || p.len() < 2 {
            continue;
        }
        let bare = vec![p.last().unwrap().clone()];
        if !expected_paths.contains_key(&bare) && !spec.items.contains_key(&bare) {
            // on this tree a use inside a module puts the name at the root (known finding)
            let nested = spec.uses.iter().any(|((s, b), (_, n))| *n && !s.is_empty() && b == &bare[0]);
            probes.push(Probe { path: bare, info: info.clone(), expect: None, nested_use: nested, what: "bare-at-root" });
            negs += 1;
        }
        let mut wrong = p.clone();
        wrong.remove(p.len() - 2);
        if !expected_paths.contains_key(&wrong) && !wrong.is_empty() && !spec.items.contains_key(&wrong) {
            let nested = wrong.len() == 1 && spec.uses.iter().any(|((s, b), (_, n))| *n && !s.is_empty() && b == &wrong[0]);
            probes.push(Probe { path: wrong, info: info.clone(), expect: None, nested_use: nested, what: "skipped-module" });
            negs += 1;
        }
    }
    // a use inside a module must not make the name visible at the root
    for ((scope, bound), (target, nested)) in &spec.uses {
        if *nested && !scope.is_empty() {
            if let Some(info) = spec.items.get(target) {
                let bare = vec![bound.clone()];
                if matches!(info.kind, "fn" | "const") && !expected_paths.contains_key(&bare) {
                    probes.push(Probe { path: bare, info: info.clone(), expect: None, nested_use: true, what: "nested-use-at-root" });
                }
            }
        }
    }
    // nothing a rejected library offered is there (unless a later add declared that very path)
    let mut vain = 0;
    for (p, info) in &offered_in_vain {
        if vain >= 8 || !matches!(info.kind, "fn" | "method" | "const" | "type") {
            continue;
        }
        if expected_paths.contains_key(p) || spec.items.contains_key(p) || probes.iter().any(|q| &q.path == p) {
            continue;
        }
        // a name that is not an identifier cannot be written in a script (`u64. f` parses as `u64.f`)
        if p.iter().any(|seg| lex_code(seg) != 18) {
            continue;
        }
        // a path below something a use inside a module put at the root (known finding) is not probed
        if spec.uses.iter().any(|((s, b), (_, n))| *n && !s.is_empty() && b == &p[0]) {
            continue;
        }
        // the probe expression needs the helpers of the markers it mentions
        let needs: Option<usize> = match info.kind {
            "const" => info.ty,
            "type" => None,
            _ => info.shape.marker(),
        };
        if let Some(m) = needs {
            if !spec.types.contains_key(&m) {
                continue;
            }
        }
        probes.push(Probe { path: p.clone(), info: info.clone(), expect: None, nested_use: false, what: "failed-add" });
        vain += 1;
    }
    let queries: Vec<Vec<String>> = probes.iter().map(|p| p.path.clone()).collect();
    let mut by_tag: BTreeMap<u64, ItemInfo> = spec.items.values().filter(|i| i.tag != 0).map(|i| (i.tag, i.clone())).collect();
    for (_, i) in &offered_in_vain {
        if i.tag != 0 {
            by_tag.entry(i.tag).or_insert_with(|| i.clone());
        }
    }
    let markers: BTreeSet<usize> = spec.types.keys().cloned().collect();

    let mut first: Option<(Vec<&'static str>, Vec<Seen>)> = None;
    let mut class = String::new();
    let mut sample = J::Null;
    for (vi, libs) in variants.iter().enumerate() {
        rep.evaluations += 1;
        let ImplRun { outs, rt, leftovers } = run_impl(libs);
        let (mouts, mres) = run_model(drv, &model_cfg(), libs, &queries);
        // --- implementation vs model: outcomes (kind of error included)
        let show = |o: &[Outcome]| o.iter().map(|x| match x { Outcome::Panic(_) => "panic".to_string(), y => y.show() }).collect::<Vec<_>>().join(" ");
        if show(&outs) != show(&mouts) {
            rep.mismatch(&format!("outcome: implementation [{}] model [{}]", outs.iter().map(|o| o.show()).collect::<Vec<_>>().join(" "), mouts.iter().map(|o| o.show()).collect::<Vec<_>>().join(" ")), input(libs));
        }
        // --- implementation vs oracle: outcomes
        let classes: Vec<&'static str> = outs.iter().map(|o| o.class()).collect();
        for (k, o) in outs.iter().enumerate() {
            let (want, defects) = expect.get(k).cloned().unwrap_or(("ok", BTreeSet::new()));
            match (o, want) {
                (Outcome::Panic(m), _) => {
                    let key = format!("panic add{}{}", if suffix.is_empty() { format!(" {}", m.split(':').next().unwrap_or("")) } else { suffix.clone() }, hist(k));
                    viol(rep, &format!("Runtime::add panicked (add {k}): {m}"), &key, input(libs));
                }
                (Outcome::Ok, "err") => {
                    let d = defects.iter().next().cloned();
                    let key = match d {
                        Some(Defect::InvalidName) => "accepted-invalid-name",
                        Some(Defect::NameTaken) => "accepted-taken-name",
                        Some(Defect::TypeTwice) => "accepted-type-twice",
                        Some(Defect::EmptyUsePath) => "accepted-empty-use-path",
                        _ => "accepted-unregistered-type",
                    };
                    viol(rep, &format!("add {k}: library with defect {:?} was accepted ({note})", defects), &format!("{key}{suffix}{}", hist(k)), input(libs));
                }
                (Outcome::Err(kind), "ok") => {
                    viol(rep, &format!("add {k}: library without any of the four defects was rejected: {kind}"), &format!("rejected-valid {kind}{suffix}{}", hist(k)), input(libs));
                }
                _ => {}
            }
        }
        // --- a rejected add leaves the runtime as it was (what the public getters show)
        for (k, what) in &leftovers {
            viol(rep, &format!("add {k} was rejected ({}) but changed the runtime: {what}", outs[*k].show()), &format!("state-after-failed-add getters {}", outs[*k].show()), input(libs));
        }
        // --- reachability
        let mut seen: Vec<Seen> = vec![];
        if let Some(mut rt) = rt {
            let h = catch_unwind(AssertUnwindSafe(|| rt.add(helpers(&markers))));
            if !matches!(h, Ok(Ok(()))) {
                // the helpers mention registered types only and use reserved names
                viol(rep, "the helper functions over the registered types were rejected", &format!("rejected-valid helpers{}", hist(libs.len())), input(libs));
            } else {
                seen = run_probes(&rt, &probes);
                for ((pr, s), m) in probes.iter().zip(&seen).zip(&mres) {
                    let ms = model_seen(m, pr, &by_tag);
                    if *s != ms {
                        rep.mismatch(&format!("path {} ({}): implementation {:?}, model {:?} ({m})", pr.path.join("."), pr.what, s, ms), input(libs));
                    }
                    let nest = if pr.nested_use { " use-in-module" } else { "" };
                    // (the open finding about a use inside a module keeps its keys whatever the history)
                    let hist = |k: usize| if pr.nested_use { "" } else { hist(k) };
                    match (pr.expect, s) {
                        (_, Seen::Panic) => viol(rep, &format!("compiler panicked on a script using {}", pr.path.join(".")), &format!("panic compile{nest}{}", hist(libs.len())), input(libs)),
                        (Some(t), Seen::Tag(x)) if *x == t => {}
                        (Some(_), Seen::TypeOk) => {}
                        (Some(t), other) => viol(rep, 
                            &format!("item with tag {t} ({}) not usable at its {} path {}: {:?}", pr.info.kind, pr.what, pr.path.join("."), other),
                            &format!("unreachable-at-declared-path {}{nest}{}{}", pr.what, if nest.is_empty() && pr.what == "use" && sit == "use-path-3plus" { " use-path-3plus" } else { "" }, hist(libs.len())), input(libs)),
                        (None, Seen::No) => {}
                        (None, other) if pr.what == "failed-add" => viol(rep, 
                            &format!("{} of a REJECTED library is usable from a script at {}: {:?}", pr.info.kind, pr.path.join("."), other),
                            &format!("state-after-failed-add reachable {}", pr.info.kind), input(libs)),
                        (None, other) => viol(rep, 
                            &format!("item is usable at the undeclared path {} ({}): {:?}", pr.path.join("."), pr.what, other),
                            &format!("reachable-at-wrong-path {}{nest}{}", pr.what, hist(libs.len())), input(libs)),
                    }
                }
            }
        }
        // --- order independence
        match &first {
            None => first = Some((classes.clone(), seen.clone())),
            Some((c0, s0)) => {
                if *c0 != classes || (*s0 != seen && !s0.is_empty() && !seen.is_empty()) {
                    viol(rep, 
                        &format!("reordering the items changes the result: {:?} vs {:?}", c0, classes),
                        &format!("order-dependent{suffix}{}", hist(libs.len())),
                        json!({"libs": libs_json(libs), "first_order": libs_json(&variants[0]), "note": note, "index": index}),
                    );
                }
            }
        }
        if vi == 0 {
            let d: Vec<String> = defects_seen.iter().map(|d| format!("{d:?}")).collect();
            // the history shape: what came after a rejected add (r = rejected, a = accepted; runs collapsed)
            let mut shape = String::new();
            for c in &classes {
                let ch = match *c { "ok" => 'a', "err" => 'r', _ => 'p' };
                if !shape.ends_with(ch) {
                    shape.push(ch);
                }
            }
            class = format!(
                "adds={} depth={} defect={} out={} uses={} probes={}",
                libs.len().min(4), libs.iter().map(|l| depth_of(l)).max().unwrap_or(0),
                if d.is_empty() { "none".to_string() } else { d.join("+") },
                shape, libs.iter().map(|l| max_use_len(l)).max().unwrap_or(0),
                probes.len().min(9),
            );
            sample = json!({"libs": libs_json(libs), "outcomes": outs.iter().map(|o| o.show()).collect::<Vec<_>>(),
                "model": mouts.iter().map(|o| o.show()).collect::<Vec<_>>(), "probes": probes.iter().zip(&seen).map(|(p, s)| format!("{} -> {:?}", p.path.join("."), s)).collect::<Vec<_>>(), "note": note});
            rep.hist("outcome", classes.last().copied().unwrap_or("ok"));
            rep.hist("history", shape);
            rep.hist("adds", libs.len().to_string());
            rep.hist("items", (libs.iter().map(|l| count_items(l)).sum::<usize>().min(30) / 3 * 3).to_string());
            rep.hist("depth", libs.iter().map(|l| depth_of(l)).max().unwrap_or(0).to_string());
            rep.hist("probes", probes.len().min(40).to_string());
            rep.hist("probes of rejected items", probes.iter().filter(|p| p.what == "failed-add").count().to_string());
        }
    }
    SessionResult { class, sample }
}

/// the model's configuration: `Cfg.fixed`; a sixth bit `1` = the passes run in
/// place on the runtime (`C18_INPLACE=1`: the tree before the repair that made
/// `Rt::add` all-or-nothing — for checking the in-place model against that tree)
fn model_cfg() -> String {
    if std::env::var("C18_INPLACE").map(|v| v == "1").unwrap_or(false) { "000001".into() } else { "0000".into() }
}

/// `use` of an item that does not exist is outside the statement. A history in which an add is rejected may
/// leave a later library with a `use` of something only the rejected library offered: those paths are dropped
/// (from the libraries as generated, before any reordering), judged by the runtime the ORACLE says there is.
fn sanitize(libs: &mut Vec<Vec<It>>) {
    fn fix(items: &mut Vec<It>, next: &Spec) {
        for it in items.iter_mut() {
            match it {
                It::Module { ch, .. } => fix(ch, next),
                It::Use { paths } => paths.retain(|p| p.is_empty() || next.items.contains_key(p)),
                _ => {}
            }
        }
    }
    let mut spec = Spec::new();
    for lib in libs.iter_mut() {
        let (_, next) = spec.check(lib);
        fix(lib, &next);
        let (d, next) = spec.check(lib);
        if d.is_empty() {
            spec = next;
        }
    }
}

fn permutations<T: Clone>(v: &[T]) -> Vec<Vec<T>> {
    if v.len() <= 1 {
        return vec![v.to_vec()];
    }
    let mut out = vec![];
    for i in 0..v.len() {
        let mut rest = v.to_vec();
        let x = rest.remove(i);
        for mut p in permutations(&rest) {
            p.insert(0, x.clone());
            out.push(p);
        }
    }
    out
}

/// one generated case: a session, possibly with one injected defect, and its reorderings
fn gen_case(seed: u64, index: u64) -> (Vec<Vec<Vec<It>>>, String) {
    let mut rng = Prng::for_case(seed, index);
    let n_adds = 1 + rng.below(4) as usize;
    let small = index % 3 == 0;
    let nested_use = index % 11 == 5;
    let mut g = Gen { rng: &mut rng, tag: 0, used: BTreeMap::new(), types: BTreeMap::new(), targets: vec![], members: BTreeMap::new() };
    let mut libs = vec![];
    for _ in 0..n_adds {
        let size = if small { 3 } else { 4 + g.rng.below(10) as usize };
        libs.push(g.library(size, nested_use));
    }
    let mut tag = 5000 + g.tag;
    drop(g);
    let mut note = "well-formed".to_string();
    // one injected defect of each kind in turn, at every position in turn (mode 5: two defects, in two libraries);
    // the history goes on after the rejected add, and the library is offered again without the defect
    let mode = index % 9;
    if mode > 0 && mode < 6 {
        let clean = libs.clone();
        let n_inj = if mode == 5 { 2 } else { 1 };
        let mut injected: Vec<usize> = vec![];
        for round in 0..n_inj {
            let kind = if mode == 5 {
                [Defect::InvalidName, Defect::NameTaken, Defect::TypeTwice, Defect::Unregistered][rng.below(4) as usize].clone()
            } else {
                [Defect::InvalidName, Defect::NameTaken, Defect::TypeTwice, Defect::Unregistered][(mode - 1) as usize].clone()
            };
            let li = rng.below(clean.len() as u64) as usize;
            if injected.contains(&li) {
                continue;
            }
            // the state the oracle says this library is added to (rejected libraries leave nothing)
            let mut spec = Spec::new();
            for l in &libs[..li] {
                let (d, next) = spec.check(l);
                if d.is_empty() {
                    spec = next;
                }
            }
            let mut pos = vec![];
            positions(&libs[li], &mut vec![], &mut pos);
            if !pos.is_empty() {
                // "every position": the position is index-driven, so successive cases sweep the tree
                let start = (index / 9) as usize % pos.len();
                for k in 0..pos.len() {
                    let p = &pos[(start + k) % pos.len()];
                    tag += 1;
                    let mut l = libs[li].clone();
                    if let Some(what) = inject(&mut l, p, &kind, &spec, &mut rng, tag) {
                        libs[li] = l;
                        let n = format!("injected {what} in add {li} at {:?}", p);
                        note = if round == 0 { n } else { format!("{note}; {n}") };
                        injected.push(li);
                        break;
                    }
                }
            }
        }
        // the rejected library again, as it was meant: straight after it, or at the end of the history
        injected.sort();
        let mut shift = 0;
        for li in injected {
            match rng.below(3) {
                0 => {}
                1 => {
                    libs.insert(li + shift + 1, clean[li].clone());
                    shift += 1;
                    note = format!("{note}; add {li} again without the defect, straight away");
                }
                _ => {
                    libs.push(clean[li].clone());
                    note = format!("{note}; add {li} again without the defect, at the end");
                }
            }
        }
    }
    sanitize(&mut libs);
    // reorderings
    let mut variants = vec![libs.clone()];
    let total: usize = libs.iter().map(|l| count_items(l)).sum();
    if libs.len() == 1 && libs[0].len() <= 4 && total <= 7 {
        for p in permutations(&libs[0]).into_iter().skip(1) {
            let mut q = p;
            for it in q.iter_mut() {
                if let It::Module { ch, .. } | It::Impl { ch, .. } = it {
                    shuffle_all(ch, &mut rng);
                }
            }
            variants.push(vec![q]);
        }
    } else {
        for _ in 0..2 {
            let mut v = libs.clone();
            for l in v.iter_mut() {
                shuffle_all(l, &mut rng);
            }
            variants.push(v);
        }
    }
    (variants, note)
}

// ------------------------------------------------------------------ fixed cases

fn s(x: &str) -> String {
    x.to_string()
}
fn f(name: &str, tag: u64) -> It {
    It::Fn { name: s(name), shape: Shape::S0, tag }
}
fn module(name: &str, ch: Vec<It>) -> It {
    It::Module { name: s(name), ch }
}
fn usei(p: &[&[&str]]) -> It {
    It::Use { paths: p.iter().map(|x| x.iter().map(|y| s(y)).collect()).collect() }
}

/// boundary table: the witnesses of the known defects and a few hand-made shapes
fn fixed_cases() -> Vec<(Vec<Vec<It>>, String)> {
    let mut v: Vec<(Vec<Vec<It>>, String)> = boundary_cases().into_iter().map(|(l, n)| (l, n.to_string())).collect();
    v.extend(type_twice_cases());
    v.extend(history_cases());
    v
}

/// Class representatives of "a Rust type is registered twice": the decision of `Rt::declare_type` has three
/// inputs per registered entry — same Rust type?, same identifier?, same scope? — and the property names only
/// the first.  One history per (identifier of the second registration: the SAME as the first / another) x
/// (where the two registrations stand: the same scope, root and a module, two sibling modules, a module and a
/// module nested in it, two levels apart) x (one add / the second in a LATER add, either direction), each with
/// a function over the type next to the second registration (whose signature would silently name the first),
/// followed by the same library with the second registration given its own Rust type (must be accepted: the
/// rejected add left nothing) and, as a control, the same NAME in the other scope for another Rust type.
fn type_twice_cases() -> Vec<(Vec<Vec<It>>, String)> {
    let t = |n: &str, m: usize| It::Type { name: s(n), m };
    let fs = |n: &str, shape: Shape, tag: u64| It::Fn { name: s(n), shape, tag };
    // `second(name, m)`: the second registration with a function over its type next to it
    let second = |n: &str, m: usize, tag: u64| vec![t(n, m), fs("mk", Shape::S3(m), tag), fs("get", Shape::S1(m), tag + 1)];
    let mut out = vec![];
    for (idn, n2) in [("same identifier", "Meters"), ("another identifier", "Metres")] {
        // ---- both registrations in ONE library
        let one_add: Vec<(&str, Box<dyn Fn(usize) -> Vec<It>>)> = vec![
            ("the same scope (root)", Box::new(move |m| { let mut v = vec![t("Meters", 0)]; v.extend(second(n2, m, 700)); v })),
            ("the same scope (a module)", Box::new(move |m| vec![module("si", { let mut v = vec![t("Meters", 0)]; v.extend(second(n2, m, 700)); v })])),
            ("root and a module", Box::new(move |m| vec![t("Meters", 0), module("geo", second(n2, m, 700))])),
            ("two sibling modules", Box::new(move |m| vec![module("si", vec![t("Meters", 0), fs("one", Shape::S3(0), 710)]), module("imperial", second(n2, m, 700))])),
            ("a module and a module nested in it", Box::new(move |m| vec![module("si", vec![t("Meters", 0), module("inner", second(n2, m, 700))])])),
            ("two levels apart", Box::new(move |m| vec![module("a", vec![module("b", vec![t("Meters", 0)])]), module("c", vec![module("d", second(n2, m, 700))])])),
        ];
        for (place, lib) in &one_add {
            // rejected as a whole; the same library with the second registration over its own Rust type
            // (same identifier in the same scope stays a name clash: then the control is rejected too)
            out.push((vec![lib(0), lib(1)], format!("type twice: {idn}, {place}, one add; then over another Rust type")));
        }
        // ---- the second registration in a LATER add
        let later: Vec<(&str, Vec<It>, Box<dyn Fn(usize) -> Vec<It>>)> = vec![
            ("root, then the root", vec![t("Meters", 0), fs("one", Shape::S3(0), 710)], Box::new(move |m| second(n2, m, 700))),
            ("root, then a module", vec![t("Meters", 0), fs("one", Shape::S3(0), 710)], Box::new(move |m| vec![module("geo", second(n2, m, 700))])),
            ("a module, then the root", vec![module("si", vec![t("Meters", 0), fs("one", Shape::S3(0), 710)])], Box::new(move |m| second(n2, m, 700))),
            ("a module, then a sibling module", vec![module("si", vec![t("Meters", 0)])], Box::new(move |m| vec![module("imperial", second(n2, m, 700))])),
            ("a module, then a nested module of another", vec![module("si", vec![t("Meters", 0)])], Box::new(move |m| vec![module("x", vec![module("y", second(n2, m, 700))])])),
        ];
        for (place, first, lib) in &later {
            out.push((vec![first.clone(), lib(0), lib(1), vec![fs("after", Shape::S4(0), 720)]], format!("type twice: {idn}, {place}, later add; then over another Rust type")));
        }
    }
    // three registrations of one Rust type under one identifier, three scopes, three adds
    out.push((vec![vec![t("Meters", 2)], vec![module("p", vec![t("Meters", 2)])], vec![module("q", vec![module("r", vec![t("Meters", 2)])])], vec![module("p", vec![t("Meters", 3)])]],
        s("type twice: same identifier, three scopes, three adds")));
    // an impl block next to the second registration (its members would land on the first type)
    out.push((vec![vec![module("si", vec![t("Meters", 0)]), module("imperial", vec![t("Meters", 0), It::Impl { ty: Some(0), ch: vec![f("zero", 730)] }])],
        vec![module("si", vec![t("Meters", 0)]), module("imperial", vec![t("Meters", 1), It::Impl { ty: Some(1), ch: vec![f("zero", 730)] }])]],
        s("type twice: same identifier, sibling modules, impl block next to the second")));
    out
}

fn boundary_cases() -> Vec<(Vec<Vec<It>>, &'static str)> {
    let t = |n: &str, m: usize| It::Type { name: s(n), m };
    vec![
        (vec![vec![module("a", vec![module("b", vec![f("c", 7)])]), usei(&[&["a", "b", "c"]])]], "witness: use a::b::c"),
        (vec![vec![module("a", vec![module("b", vec![module("c", vec![f("d", 8)])])]), usei(&[&["a", "b", "c", "d"]]), usei(&[&["a", "b", "c"]])]], "deep use paths"),
        (vec![vec![usei(&[&[]])]], "witness: empty use path"),
        (vec![vec![f("g", 1), usei(&[&["a", "f"], &[]]), module("a", vec![f("f", 2)])]], "empty use path among others"),
        (vec![vec![usei(&[])]], "use without paths"),
        (vec![vec![]], "empty library"),
        (vec![vec![], vec![f("g", 1)], vec![]], "empty libraries in a sequence"),
        (vec![vec![module("a", vec![f("f", 7)]), module("m", vec![usei(&[&["a", "f"]])])]], "witness: use inside a module"),
        (vec![vec![t("u64", 0), It::Fn { name: s("g"), shape: Shape::S1(0), tag: 3 }]], "witness: type named like a primitive at the root"),
        (vec![vec![module("m", vec![t("u32", 0)]), It::Impl { ty: Some(0), ch: vec![f("sm", 4)] }]], "witness: type named like a primitive in a module, with impl"),
        (vec![vec![module("m", vec![t("String", 1)]), It::Const { name: s("K"), ty: Some(1), tag: 5 }]], "type named like a primitive in a module"),
        (vec![vec![t("Option", 0)]], "type named like a built-in enum"),
        (vec![vec![f(" f", 1)]], "witness: name with leading space"),
        (vec![vec![module("m", vec![It::Const { name: s("f // c"), ty: None, tag: 2 }])]], "name with trailing comment"),
        (vec![vec![t("T", 0)], vec![t("U", 0)]], "type registered twice across adds"),
        (vec![vec![t("T", 0), module("m", vec![t("T", 1)])], vec![module("n", vec![t("T", 2)])]], "same type name in different scopes"),
        (vec![vec![f("f", 1)], vec![module("f", vec![])]], "name taken across adds"),
        (vec![vec![module("m", vec![f("f", 1)])], vec![module("m", vec![f("g", 2)])]], "module declared again in a later add"),
        (vec![vec![It::Impl { ty: Some(3), ch: vec![] }]], "impl for an unregistered type, no children"),
        (vec![vec![It::Impl { ty: None, ch: vec![It::Fn { name: s("zzm"), shape: Shape::S5, tag: 9 }, It::Const { name: s("ZK"), ty: None, tag: 10 }] }]], "impl on u64"),
        (vec![vec![t("T", 0), It::Impl { ty: Some(0), ch: vec![f("sm", 1)] }, module("m", vec![It::Impl { ty: Some(0), ch: vec![f("sm", 2)] }])]], "method declared twice through two impl blocks"),
        (vec![vec![module("a", vec![module("a", vec![module("a", vec![module("a", vec![module("a", vec![f("z", 1)])])])])]), usei(&[&["a", "a", "a", "a", "a", "z"]])]], "deep nesting, one name"),
        (vec![vec![module("a", vec![f("f", 1)]), module("b", vec![f("f", 2)]), usei(&[&["a", "f"]]), usei(&[&["b", "f"]])]], "two uses bind the same name"),
        (vec![vec![module("a", vec![t("T", 0), It::Impl { ty: Some(0), ch: vec![f("sm", 11), It::Const { name: s("K"), ty: None, tag: 12 }] }]), usei(&[&["a", "T"]])]], "use of a type: members through the bound name"),
        (vec![vec![module("a", vec![module("b", vec![f("f", 1)])]), usei(&[&["a", "b"]])]], "use of a module"),
        // class representatives of the composite signature shapes (one per TypeDescription constructor with components),
        // as functions and as methods of a type declared in another module than the impl block
        (vec![vec![t("T", 0), It::Fn { name: s("fv"), shape: Shape::S6(0), tag: 21 }, It::Fn { name: s("fr"), shape: Shape::S7(0), tag: 22 },
            It::Fn { name: s("fl"), shape: Shape::S8(0), tag: 23 }, It::Fn { name: s("fo"), shape: Shape::S2(0), tag: 24 }]], "composite signatures: Verdict, Result, List, Option"),
        (vec![vec![module("m", vec![t("T", 1)]), It::Impl { ty: Some(1), ch: vec![It::Fn { name: s("mv"), shape: Shape::S6(1), tag: 25 },
            It::Fn { name: s("mr"), shape: Shape::S7(1), tag: 26 }, It::Fn { name: s("ml"), shape: Shape::S8(1), tag: 27 }] }]], "composite signatures on methods of a type in a module, impl at the root"),
        (vec![vec![It::Fn { name: s("fv"), shape: Shape::S6(2), tag: 28 }]], "composite signature mentioning an unregistered type"),
    ]
}


// ------------------------------------------------------------------ histories with rejected adds

/// Class representatives of HISTORIES on one runtime in which an add is
/// rejected and the host goes on: failure kind x kind of the failing item x
/// what is added next, then the rejected library again with the one defect
/// repaired, then a library that uses everything. The rejected library carries
/// bystanders of every item kind (a module with members, a type, a function and
/// a constant over that type, an impl block, a use), none of them defective, so
/// that whatever an add inserts before it gives up is visible afterwards: the
/// retry names them all again.
fn history_cases() -> Vec<(Vec<Vec<It>>, String)> {
    let t = |n: &str, m: usize| It::Type { name: s(n), m };
    let k = |n: &str, ty: TyRef, tag: u64| It::Const { name: s(n), ty, tag };
    let fs = |n: &str, shape: Shape, tag: u64| It::Fn { name: s(n), shape, tag };
    // what exists before: names to clash with, a registered type (M7) with members
    let pre = vec![
        f("pre_f", 201),
        module("pre_m", vec![f("x", 202)]),
        t("PT", 7),
        It::Impl { ty: Some(7), ch: vec![f("pre_sm", 203), k("PIK", None, 204)] },
        k("PRE_K", None, 205),
        module("pre_u", vec![f("pu", 206)]),
        usei(&[&["pre_u", "pu"]]),
    ];
    let bystanders = || vec![
        module("bm", vec![f("bmf", 301), k("BMK", None, 302), module("bmm", vec![f("deep", 307)])]),
        t("BT", 4),
        fs("bf", Shape::S1(4), 303),
        k("BK", Some(4), 304),
        It::Impl { ty: Some(4), ch: vec![f("bsm", 305), k("BIK", None, 306)] },
        usei(&[&["bm", "bmf"]]),
    ];
    // (what fails, the defective items, the same items with the defect repaired)
    let m7 = |ch: Vec<It>| It::Impl { ty: Some(7), ch };
    let subjects: Vec<(&str, Vec<It>, Vec<It>)> = vec![
        // ---- a name already taken
        ("taken: type named like a primitive (String)", vec![t("String", 0)], vec![t("Subj", 0)]),
        ("taken: type named like a primitive (bool)", vec![t("bool", 0)], vec![t("Subj", 0)]),
        ("taken: type named like a function of an earlier add", vec![t("pre_f", 0)], vec![t("Subj", 0)]),
        ("taken: type named like a module of an earlier add", vec![t("pre_m", 0)], vec![t("Subj", 0)]),
        ("taken: type named like a type of an earlier add", vec![t("PT", 0)], vec![t("Subj", 0)]),
        ("taken: type in a module named like a primitive of the root", vec![module("sm", vec![t("u32", 0), t("u32", 1)])], vec![module("sm", vec![t("u32", 0), t("Other", 1)])]),
        ("taken: function named like a function of an earlier add", vec![f("pre_f", 401)], vec![f("subj_f", 401)]),
        ("taken: function named like a type of an earlier add", vec![f("PT", 401)], vec![f("subj_f", 401)]),
        ("taken: two functions of one name", vec![f("twice", 401), f("twice", 402)], vec![f("twice", 401), f("twice2", 402)]),
        ("taken: constant named like a constant of an earlier add", vec![k("PRE_K", None, 401)], vec![k("SUBJ_K", None, 401)]),
        ("taken: constant named like a function of the same library", vec![k("bf", None, 401)], vec![k("SUBJ_K", None, 401)]),
        ("taken: module named like a function of an earlier add", vec![module("pre_f", vec![f("y", 401)])], vec![module("subj_m", vec![f("y", 401)])]),
        ("taken: module declared again", vec![module("pre_m", vec![f("y", 401)])], vec![module("subj_m", vec![f("y", 401)])]),
        ("taken: nested module next to a function of its name", vec![module("o", vec![f("i", 401), module("i", vec![f("y", 402)])])], vec![module("o", vec![f("i", 401), module("i2", vec![f("y", 402)])])]),
        ("taken: method named like a method of an earlier add", vec![m7(vec![f("pre_sm", 401)])], vec![m7(vec![f("subj_sm", 401)])]),
        ("taken: constant of an impl block named like a method of an earlier add", vec![m7(vec![k("pre_sm", None, 401)])], vec![m7(vec![k("SUBJ_IK", None, 401)])]),
        ("taken: use binds a name a use of an earlier add bound", vec![module("su", vec![f("pu", 401)]), usei(&[&["su", "pu"]])], vec![module("su", vec![f("pu2", 401)]), usei(&[&["su", "pu2"]])]),
        ("taken: one use binds a name twice", vec![module("su", vec![f("bmf", 401)]), usei(&[&["su", "bmf"]])], vec![module("su", vec![f("bmf2", 401)]), usei(&[&["su", "bmf2"]])]),
        // ---- a Rust type registered twice
        ("type twice: the type of an earlier add", vec![t("Again", 7)], vec![t("Subj", 0)]),
        ("type twice: within the library", vec![t("One", 0), module("sm", vec![t("Two", 0)])], vec![t("One", 0), module("sm", vec![t("Two", 1)])]),
        ("type twice: a bystander's type", vec![module("sm", vec![t("Again", 4)])], vec![module("sm", vec![t("Subj", 0)])]),
        // ---- an unregistered type mentioned
        ("unregistered: function parameter", vec![fs("subj_f", Shape::S1(1), 401)], vec![t("S1T", 1), fs("subj_f", Shape::S1(1), 401)]),
        ("unregistered: function result", vec![fs("subj_f", Shape::S3(1), 401)], vec![t("S1T", 1), fs("subj_f", Shape::S3(1), 401)]),
        ("unregistered: inside Option / Verdict / List", vec![fs("so", Shape::S2(1), 401), fs("sv", Shape::S6(1), 402), fs("sl", Shape::S8(1), 403)], vec![t("S1T", 1), fs("so", Shape::S2(1), 401), fs("sv", Shape::S6(1), 402), fs("sl", Shape::S8(1), 403)]),
        ("unregistered: function in a nested module", vec![module("o", vec![module("i", vec![fs("subj_f", Shape::S4(1), 401)])])], vec![t("S1T", 1), module("o", vec![module("i", vec![fs("subj_f", Shape::S4(1), 401)])])]),
        ("unregistered: constant", vec![k("SUBJ_K", Some(1), 401)], vec![t("S1T", 1), k("SUBJ_K", Some(1), 401)]),
        ("unregistered: impl block", vec![It::Impl { ty: Some(1), ch: vec![f("subj_sm", 401)] }], vec![t("S1T", 1), It::Impl { ty: Some(1), ch: vec![f("subj_sm", 401)] }]),
        ("unregistered: method signature", vec![m7(vec![fs("subj_sm", Shape::S1(1), 401)])], vec![t("S1T", 1), m7(vec![fs("subj_sm", Shape::S1(1), 401)])]),
        ("unregistered: constant of an impl block", vec![m7(vec![k("SUBJ_IK", Some(1), 401)])], vec![t("S1T", 1), m7(vec![k("SUBJ_IK", Some(1), 401)])]),
        // ---- a name that is not an identifier (the item constructor rejects it: the library never reaches the runtime)
        ("invalid name: function", vec![f("a b", 401)], vec![f("a_b", 401)]),
        ("invalid name: keyword as a module name", vec![module("filter", vec![f("y", 401)])], vec![module("filter_", vec![f("y", 401)])]),
        ("invalid name: type", vec![t("1x", 0)], vec![t("x1", 0)]),
        ("invalid name: constant of an impl block", vec![m7(vec![k("true", None, 401)])], vec![m7(vec![k("true_", None, 401)])]),
        // ---- not one of the four, an error all the same
        ("empty use path", vec![usei(&[&[]])], vec![]),
    ];
    // what is added between the rejected add and the retry
    //  A: another type with items over it (takes the place the rejected type would have had)
    let next_a = vec![t("NT", 6), fs("nf", Shape::S1(6), 501), k("NK", Some(6), 502), It::Impl { ty: Some(6), ch: vec![f("nsm", 503), fs("nme", Shape::S4(6), 504)] }, fs("nmk", Shape::S3(6), 505)];
    //  B: one library each that mentions a type only the rejected library offered (bystander M4, subject M0): a
    //     signature, a constant, an impl block — every one must be rejected in turn
    let next_b: Vec<Vec<It>> = vec![
        vec![fs("mb", Shape::S1(4), 511)],
        vec![fs("ms", Shape::S2(0), 512)],
        vec![k("MK", Some(0), 513)],
        vec![It::Impl { ty: Some(0), ch: vec![f("msm", 514)] }],
        vec![module("mm", vec![k("MMK", Some(4), 515)])],
    ];
    // afterwards: a library that uses what the retry registered
    let last = vec![fs("lf", Shape::S4(4), 521), It::Impl { ty: Some(4), ch: vec![fs("lme", Shape::S1(4), 522)] }, usei(&[&["bm", "bmm", "deep"]]), fs("l6", Shape::S2(6), 523), t("LT", 6)];
    let mut out = vec![];
    // the rejected library alone (no bystanders): the shape of a host that registers one item at a time
    out.push((vec![vec![t("String", 0)], vec![t("Seconds", 1), fs("seconds", Shape::S3(1), 601)], vec![fs("to_u64", Shape::S1(0), 602)]], s("history: one type rejected for its name, another registered, the first mentioned")));
    out.push((vec![vec![t("bool", 0)], vec![t("Seconds", 1)], vec![t("Meters", 0), fs("meters", Shape::S3(0), 603), fs("value", Shape::S1(0), 604)]], s("history: one type rejected for its name, another registered, the first again under a free name")));
    out.push((vec![vec![fs("g", Shape::S1(2), 605)], vec![t("G", 2)], vec![fs("g", Shape::S1(2), 605)]], s("history: a function rejected for its type, the type registered, the function again")));
    out.push((vec![vec![f("u64", 606)], vec![f("u64_", 606)], vec![f("u64", 607)]], s("history: a function named like a primitive, twice")));
    out.push((vec![vec![t("A", 0), t("B", 0)], vec![t("A", 0)], vec![t("B", 1), fs("ab", Shape::S4(0), 608)]], s("history: type twice within a library, then one by one")));
    for (what, bad, good) in subjects {
        let mut failing = bystanders();
        failing.extend(bad.clone());
        let mut retry = bystanders();
        retry.extend(good.clone());
        // M6 is registered by `next_a` or, where that is not part of the history, by `last` (its type item LT)
        let last_without_lt: Vec<It> = last.iter().filter(|i| !matches!(i, It::Type { .. })).cloned().collect();
        // 1: rejected, straight away again
        out.push((vec![pre.clone(), failing.clone(), retry.clone(), last.clone()], format!("history: {what}; retry")));
        // 2: rejected, another type is registered, again
        out.push((vec![pre.clone(), failing.clone(), next_a.clone(), retry.clone(), last_without_lt.clone()], format!("history: {what}; another type; retry")));
        // 3: rejected, another type, libraries that mention what the rejected one offered, again
        let mut h = vec![pre.clone(), failing.clone(), next_a.clone()];
        h.extend(next_b.iter().cloned());
        h.push(retry.clone());
        h.push(last_without_lt.clone());
        out.push((h, format!("history: {what}; another type; its types mentioned; retry")));
    }
    out
}

// ------------------------------------------------------------------ use trees (`library!`)

/// `syn::UseTree` as the harness reads it from the text of a `use` declaration
#[derive(Clone, Debug, PartialEq)]
enum UseTree {
    Path(String, Box<UseTree>),
    Name(String),
    Rename(String, String),
    Glob,
    Group(Vec<UseTree>),
}

fn use_tokens(src: &str) -> Vec<String> {
    let cs: Vec<char> = src.chars().collect();
    let mut out = vec![];
    let mut i = 0;
    while i < cs.len() {
        let c = cs[i];
        if c.is_whitespace() {
            i += 1;
        } else if c.is_alphanumeric() || c == '_' {
            let st = i;
            while i < cs.len() && (cs[i].is_alphanumeric() || cs[i] == '_') {
                i += 1;
            }
            out.push(cs[st..i].iter().collect());
        } else if c == ':' && cs.get(i + 1) == Some(&':') {
            out.push("::".into());
            i += 2;
        } else {
            out.push(c.to_string());
            i += 1;
        }
    }
    out
}

/// `use <tree>;`* — the text is `stringify!` of the very tokens handed to `library!`
fn parse_use_decls(src: &str) -> Vec<UseTree> {
    fn tree(t: &[String], i: &mut usize) -> UseTree {
        let tok = t[*i].clone();
        *i += 1;
        match tok.as_str() {
            "{" => {
                let mut items = vec![];
                while t[*i] != "}" {
                    items.push(tree(t, i));
                    if t[*i] == "," {
                        *i += 1;
                    }
                }
                *i += 1;
                UseTree::Group(items)
            }
            "*" => UseTree::Glob,
            id => {
                if t.get(*i).map(|s| s.as_str()) == Some("::") {
                    *i += 1;
                    UseTree::Path(id.to_string(), Box::new(tree(t, i)))
                } else if t.get(*i).map(|s| s.as_str()) == Some("as") {
                    *i += 1;
                    let r = t[*i].clone();
                    *i += 1;
                    UseTree::Rename(id.to_string(), r)
                } else {
                    UseTree::Name(id.to_string())
                }
            }
        }
    }
    let t = use_tokens(src);
    let mut i = 0;
    let mut out = vec![];
    while i < t.len() {
        assert_eq!(t[i], "use", "use declaration expected in {src:?}");
        i += 1;
        out.push(tree(&t, &mut i));
        assert_eq!(t[i], ";", "`;` expected in {src:?}");
        i += 1;
    }
    out
}

/// the property's reading of a `use` declaration: every walk from the root to
/// a name, left to right; `None` = not expressible as a `roto::Use` (`as`, `*`)
fn use_leaf_paths(t: &UseTree) -> Option<Vec<Vec<String>>> {
    fn go(t: &UseTree, prefix: &[String], out: &mut Vec<Vec<String>>) -> bool {
        match t {
            UseTree::Name(n) => {
                let mut p = prefix.to_vec();
                // `a::b::{self}` names `a::b` itself
                if n != "self" {
                    p.push(n.clone());
                }
                out.push(p);
                true
            }
            UseTree::Path(n, sub) => {
                let mut p = prefix.to_vec();
                p.push(n.clone());
                go(sub, &p, out)
            }
            UseTree::Group(items) => items.iter().map(|i| go(i, prefix, out)).fold(true, |a, b| a && b),
            UseTree::Rename(..) | UseTree::Glob => false,
        }
    }
    let mut out = vec![];
    if go(t, &[], &mut out) { Some(out) } else { None }
}

fn use_tree_lean(t: &UseTree, names: &mut Names, out: &mut String) {
    match t {
        UseTree::Path(n, sub) => {
            out.push_str(&format!("P {} ", names.id(n)));
            use_tree_lean(sub, names, out);
        }
        UseTree::Name(n) => out.push_str(&format!("N {} ", names.id(n))),
        UseTree::Rename(a, b) => out.push_str(&format!("R {} {} ", names.id(a), names.id(b))),
        UseTree::Glob => out.push_str("S "),
        UseTree::Group(items) => {
            out.push_str(&format!("G {} ", items.len()));
            for i in items {
                use_tree_lean(i, names, out);
            }
        }
    }
}

fn use_shape(t: &UseTree) -> String {
    // shape signature: nesting of groups and lengths of member paths, names dropped
    match t {
        UseTree::Path(_, sub) => format!("p{}", use_shape(sub)),
        UseTree::Name(n) => if n == "self" { "s".into() } else { "n".into() },
        UseTree::Rename(..) => "r".into(),
        UseTree::Glob => "*".into(),
        UseTree::Group(items) => format!("{{{}}}", items.iter().map(use_shape).collect::<Vec<_>>().join(",")),
    }
}

/// the model's answer (`RotoV.Use.flattenSpec`) for the tree
fn model_use_paths(drv: &mut Driver, t: &UseTree) -> Result<Option<Vec<Vec<String>>>, String> {
    let mut names = Names::new();
    names.id("self"); // RotoV.Use.selfIdent = 0
    let mut req = String::from("c18 flatten ");
    use_tree_lean(t, &mut names, &mut req);
    let ans = drv.ask(req.trim_end());
    if ans == "none" {
        return Ok(None);
    }
    let Some(rest) = ans.strip_prefix("some") else { return Err(format!("driver answered {ans:?} to {req:?}")) };
    let mut out = vec![];
    for p in rest.split_whitespace() {
        let mut path = vec![];
        for seg in p.split('.') {
            let i: usize = seg.parse().map_err(|_| format!("driver answered {ans:?}"))?;
            path.push(names.list.get(i).cloned().ok_or_else(|| format!("driver answered {ans:?}"))?);
        }
        out.push(path);
    }
    Ok(Some(out))
}

// ------------------------------------------------------------------ `library!` fixtures

struct MacroCase {
    mk: Box<dyn Fn() -> roto::Library>,
    /// the same library as an item tree (its `Use` items carry what the
    /// property says the `use` declarations name)
    tree: Vec<It>,
    note: String,
    /// text of the `use` declarations handed to the macro, in order (for the fixtures built around them)
    uses: Option<&'static str>,
    /// text of the whole library as handed to the macro (`stringify!` of the very tokens): the names it
    /// declares, in order, are read from it and must be the names of `tree` (name fixtures)
    text: Option<&'static str>,
    /// the library declares an item with a RAW identifier (`r#loop`): either building it fails (the name as
    /// written, `r#loop`, is not a Roto identifier) or the item is registered under the identifier without
    /// the prefix (`tree` carries that name) — nothing else
    raw: bool,
}

/// a library written with unusual but valid identifiers, and its text
macro_rules! name_fixture {
    ($($t:tt)*) => {
        (Box::new(|| library! { $($t)* }) as Box<dyn Fn() -> roto::Library>, stringify!($($t)*))
    };
}

/// the names a library text declares, in order: the identifier after `mod` / `fn` / `const` / `type` / `let`
/// (a raw identifier is read with its `r#`)
fn declared_names(text: &str) -> Vec<String> {
    let t = use_tokens(text);
    let mut out = vec![];
    let mut i = 0;
    while i < t.len() {
        if matches!(t[i].as_str(), "mod" | "fn" | "const" | "type" | "let") && i + 1 < t.len() {
            if t[i + 1] == "r" && t.get(i + 2).map(|x| x == "#").unwrap_or(false) && i + 3 < t.len() {
                out.push(format!("r#{}", t[i + 3]));
                i += 4;
                continue;
            }
            out.push(t[i + 1].clone());
            i += 2;
            continue;
        }
        i += 1;
    }
    out
}
/// shape of a name: where its underscores are, whether it has digits / non-ASCII letters / a raw prefix
fn name_shape(n: &str) -> String {
    let (raw, n) = match n.strip_prefix("r#") { Some(x) => (true, x), None => (false, n) };
    let lead = n.chars().take_while(|c| *c == '_').count();
    let trail = n.chars().rev().take_while(|c| *c == '_').count();
    format!(
        "{}lead{} trail{}{}{}{}",
        if raw { "raw " } else { "" }, lead.min(2), trail.min(2),
        if n.trim_matches('_').contains("__") { " double" } else { "" },
        if n.chars().any(|c| c.is_ascii_digit()) { " digit" } else { "" },
        if !n.is_ascii() { " non-ascii" } else { "" },
    )
}
/// the names of an item tree in document order
fn tree_names(items: &[It], out: &mut Vec<String>) {
    for it in items {
        match it {
            It::Module { name, ch } => {
                out.push(name.clone());
                tree_names(ch, out);
            }
            It::Type { name, .. } | It::Fn { name, .. } | It::Const { name, .. } => out.push(name.clone()),
            It::Impl { ch, .. } => tree_names(ch, out),
            It::Use { .. } => {}
        }
    }
}

/// `library!`-built libraries whose items have unusual but valid names: trailing underscores (one, two),
/// a leading underscore, double underscores inside, digits, non-ASCII letters, the same spelling with and
/// without a trailing underscore side by side in one scope (`step` / `step_` / `step__`, `units` / `units_`,
/// `K` / `K_`, `me` / `me_`, `closure` / `closure_`) for every item kind (module, function, `let` closure,
/// constant, type, method, constant of an impl block), and `use` paths through and to such names; then raw
/// identifiers (a Rust keyword that is a fine Roto name, a plain identifier written raw).
fn name_fixtures() -> Vec<MacroCase> {
    let k = |n: &str, tag: u64| It::Const { name: s(n), ty: None, tag };
    let mut v = vec![];
    let (mk, text) = name_fixture! {
        mod units_ {
            const LIMIT_: u64 = 931;
            fn clamp_() -> u64 { 932 }
            fn clamp() -> u64 { 933 }
            mod _inner {
                fn __x__() -> u64 { 934 }
                fn x() -> u64 { 947 }
            }
            mod _inner_ {
                fn __x__() -> u64 { 948 }
            }
        }
        mod units {
            fn clamp_() -> u64 { 949 }
        }
        fn step() -> u64 { 935 }
        fn step_() -> u64 { 936 }
        fn step__() -> u64 { 937 }
        fn _lead() -> u64 { 938 }
        fn a__b() -> u64 { 939 }
        fn x1_2() -> u64 { 940 }
        fn été() -> u64 { 941 }
        fn été_() -> u64 { 950 }
        const K_: u64 = 942;
        const K: u64 = 951;
        #[clone] type T_ = Val<M<3>>;
        impl Val<M<3>> {
            fn me_(_v: Val<M<3>>) -> u64 { 943 }
            fn me(_v: Val<M<3>>) -> u64 { 944 }
            const IK_: u64 = 945;
        }
        let closure_ = || -> u64 { 946 };
        let closure = || -> u64 { 952 };
        use units_::clamp_;
        use units_::{_inner::__x__, LIMIT_};
    };
    let tree = vec![
        module("units_", vec![
            k("LIMIT_", 931), f("clamp_", 932), f("clamp", 933),
            module("_inner", vec![f("__x__", 934), f("x", 947)]),
            module("_inner_", vec![f("__x__", 948)]),
        ]),
        module("units", vec![f("clamp_", 949)]),
        f("step", 935), f("step_", 936), f("step__", 937), f("_lead", 938), f("a__b", 939), f("x1_2", 940),
        f("\u{e9}t\u{e9}", 941), f("\u{e9}t\u{e9}_", 950),
        k("K_", 942), k("K", 951),
        It::Type { name: s("T_"), m: 3 },
        It::Impl { ty: Some(3), ch: vec![It::Fn { name: s("me_"), shape: Shape::S1(3), tag: 943 }, It::Fn { name: s("me"), shape: Shape::S1(3), tag: 944 }, k("IK_", 945)] },
        f("closure_", 946), f("closure", 952),
        usei(&[&["units_", "clamp_"]]),
        usei(&[&["units_", "_inner", "__x__"], &["units_", "LIMIT_"]]),
    ];
    v.push(MacroCase { mk, tree, note: s("library! names: underscores, digits, non-ASCII, side by side"), uses: None, text: Some(text), raw: false });
    // a type and a module whose names differ in a trailing underscore only, the type's members through an impl block
    let (mk, text) = name_fixture! {
        mod shape_ {
            #[clone] type Shape_ = Val<M<4>>;
            fn new_() -> Val<M<4>> { Val(M::<4>(953)) }
        }
        mod shape {
            fn area_(_s: Val<M<4>>) -> u64 { 954 }
        }
        impl Val<M<4>> {
            fn area__(_s: Val<M<4>>) -> u64 { 955 }
            fn area_(_s: Val<M<4>>) -> u64 { 956 }
        }
        use shape_::Shape_;
    };
    let tree = vec![
        module("shape_", vec![It::Type { name: s("Shape_"), m: 4 }, It::Fn { name: s("new_"), shape: Shape::S3(4), tag: 953 }]),
        module("shape", vec![It::Fn { name: s("area_"), shape: Shape::S1(4), tag: 954 }]),
        It::Impl { ty: Some(4), ch: vec![It::Fn { name: s("area__"), shape: Shape::S1(4), tag: 955 }, It::Fn { name: s("area_"), shape: Shape::S1(4), tag: 956 }] },
        usei(&[&["shape_", "Shape_"]]),
    ];
    v.push(MacroCase { mk, tree, note: s("library! names: type and modules with trailing underscores"), uses: None, text: Some(text), raw: false });
    // raw identifiers, one library each
    let (mk, text) = name_fixture! { fn r#loop() -> u64 { 961 } };
    v.push(MacroCase { mk, tree: vec![f("loop", 961)], note: s("library! names: raw identifier of a Rust keyword (fn r#loop)"), uses: None, text: Some(text), raw: true });
    let (mk, text) = name_fixture! { fn r#plain() -> u64 { 962 } fn plain_() -> u64 { 964 } };
    v.push(MacroCase { mk, tree: vec![f("plain", 962), f("plain_", 964)], note: s("library! names: raw identifier of a plain name (fn r#plain)"), uses: None, text: Some(text), raw: true });
    let (mk, text) = name_fixture! { mod r#type { fn get() -> u64 { 963 } } };
    v.push(MacroCase { mk, tree: vec![module("type", vec![f("get", 963)])], note: s("library! names: raw identifier as a module name (mod r#type)"), uses: None, text: Some(text), raw: true });
    v
}

/// The module tree every use-tree fixture imports from. The same name `x`
/// exists at every level so that a path with a wrong prefix still names
/// *something* — the silent case.
macro_rules! use_fixture {
    ($($u:tt)*) => {
        (
            Box::new(|| library! {
                mod a {
                    fn one() -> u64 { 1 }
                    fn x() -> u64 { 10 }
                    const KA: u64 = 11;
                    mod b {
                        fn two() -> u64 { 2 }
                        fn x() -> u64 { 20 }
                        mod c {
                            fn three() -> u64 { 3 }
                            fn four() -> u64 { 4 }
                            fn x() -> u64 { 30 }
                            mod d {
                                fn five() -> u64 { 5 }
                                fn x() -> u64 { 40 }
                            }
                        }
                        mod e {
                            fn six() -> u64 { 6 }
                            fn x() -> u64 { 60 }
                        }
                    }
                    mod f {
                        fn seven() -> u64 { 7 }
                        const K: u64 = 70;
                        fn x() -> u64 { 71 }
                        #[clone] type T = Val<M<2>>;
                    }
                }
                mod g {
                    fn eight() -> u64 { 8 }
                    mod h {
                        fn nine() -> u64 { 9 }
                        fn x() -> u64 { 90 }
                    }
                }
                impl Val<M<2>> {
                    fn me(_v: Val<M<2>>) -> u64 { 73 }
                    fn sm() -> u64 { 74 }
                }
                $($u)*
            }) as Box<dyn Fn() -> roto::Library>,
            stringify!($($u)*),
        )
    };
}

/// all six orders of a three-member group under a prefix
macro_rules! use_perms3 {
    ($v:ident; $($pre:ident)::+; [$($a:tt)*] [$($b:tt)*] [$($c:tt)*]) => {
        $v.push(use_fixture!(use $($pre)::+::{$($a)*, $($b)*, $($c)*};));
        $v.push(use_fixture!(use $($pre)::+::{$($a)*, $($c)*, $($b)*};));
        $v.push(use_fixture!(use $($pre)::+::{$($b)*, $($a)*, $($c)*};));
        $v.push(use_fixture!(use $($pre)::+::{$($b)*, $($c)*, $($a)*};));
        $v.push(use_fixture!(use $($pre)::+::{$($c)*, $($a)*, $($b)*};));
        $v.push(use_fixture!(use $($pre)::+::{$($c)*, $($b)*, $($a)*};));
    };
}

fn use_fixture_tree() -> Vec<It> {
    let k = |n: &str, tag: u64| It::Const { name: s(n), ty: None, tag };
    vec![
        module("a", vec![
            f("one", 1), f("x", 10), k("KA", 11),
            module("b", vec![
                f("two", 2), f("x", 20),
                module("c", vec![f("three", 3), f("four", 4), f("x", 30), module("d", vec![f("five", 5), f("x", 40)])]),
                module("e", vec![f("six", 6), f("x", 60)]),
            ]),
            module("f", vec![f("seven", 7), k("K", 70), f("x", 71), It::Type { name: s("T"), m: 2 }]),
        ]),
        module("g", vec![f("eight", 8), module("h", vec![f("nine", 9), f("x", 90)])]),
        It::Impl { ty: Some(2), ch: vec![It::Fn { name: s("me"), shape: Shape::S1(2), tag: 73 }, f("sm", 74)] },
    ]
}

/// `use` declarations of every shape over the fixture tree: single paths,
/// flat groups, a multi-segment member before / after / between single-segment
/// members, groups nested two and three deep in every order, groups directly
/// in groups, one-member and empty groups, top-level groups, trailing commas,
/// several declarations, modules / constants / types as targets, `self`.
fn use_fixtures() -> Vec<(Box<dyn Fn() -> roto::Library>, &'static str)> {
    let mut v = use_fixtures_listed();
    // every order of: a nested group with a multi-segment member, a multi-segment member, a single name
    use_perms3!(v; a; [b::c::{three, d::five}] [b::two] [x]);
    // … and one level down, with a group of depth two, a name of the same spelling as an inner one, `self`
    use_perms3!(v; a::b; [c::{d::{five}, four}] [x] [self]);
    v
}

fn use_fixtures_listed() -> Vec<(Box<dyn Fn() -> roto::Library>, &'static str)> {
    vec![
        use_fixture!(use a::one;),
        use_fixture!(use a::b::c::d::five;),
        use_fixture!(use a::{one, x};),
        use_fixture!(use a::{b::two, one};),
        use_fixture!(use a::{one, b::two};),
        use_fixture!(use a::{one, b::two, KA};),
        use_fixture!(use a::{b::c::d::five, x};),
        use_fixture!(use a::{x, b::c::d::five};),
        use_fixture!(use a::b::{c::d::x, two};),
        use_fixture!(use a::{b::{c::{three, four}, two}, one};),
        use_fixture!(use a::{one, b::{two, c::{three, four}}};),
        use_fixture!(use a::{b::{two, c::{three, four}}, one};),
        use_fixture!(use a::{b::{c::{three, four}, x}, one};),
        use_fixture!(use a::{b::{c::{d::five, x}, two}, KA};),
        use_fixture!(use a::{b::{c::three}, one};),
        use_fixture!(use a::{{b::two}, one};),
        use_fixture!(use a::{{b::{c::{d::five}}}, {x}};),
        use_fixture!(use {a::one, g::eight};),
        use_fixture!(use {a::{b::two, one}, g::{h::nine, eight}};),
        use_fixture!(use {g::{h::x, eight}, a::{b::c::three, one}};),
        use_fixture!(use a::{f::{seven, K}, b::e::six, one};),
        use_fixture!(use a::b::c::{d::five, three, d::x};),
        use_fixture!(use a::{b::two, f::seven, b::c::three, one};),
        use_fixture!(use a::{b::c, f};),
        use_fixture!(use a::{b::c::d, KA, f::T};),
        use_fixture!(use a::{b::two, one,};),
        use_fixture!(use a::{b::{two,}, one,};),
        use_fixture!(use a::{};),
        use_fixture!(use a::{b::{}, one};),
        use_fixture!(use a::{b::two, one}; use g::{h::nine, eight};),
        use_fixture!(use a::b::{two}; use a::{b::c::x, KA};),
        use_fixture!(use a::b::{self, two};),
        use_fixture!(use a::{b::{self}, one};),
        use_fixture!(use a::{b::c::{d::five, self}, f::{self}, KA};),
    ]
}

fn macro_case_list() -> Vec<MacroCase> {
    // 1: nested modules, a three-segment use, a type with methods, constants
    let lib1 = || {
        library! {
            mod a {
                mod b {
                    fn c() -> u64 { 901 }
                }
                const K: u64 = 902;
            }
            use a::b::c;
            #[clone] type T = Val<M<0>>;
            impl Val<M<0>> {
                fn me(_x: Val<M<0>>) -> u64 { 903 }
                fn sm() -> u64 { 904 }
            }
            fn mk() -> Val<M<0>> { Val(M::<0>(905)) }
        }
    };
    let tree1 = vec![
        module("a", vec![module("b", vec![f("c", 901)]), It::Const { name: s("K"), ty: None, tag: 902 }]),
        usei(&[&["a", "b", "c"]]),
        It::Type { name: s("T"), m: 0 },
        It::Impl { ty: Some(0), ch: vec![It::Fn { name: s("me"), shape: Shape::S1(0), tag: 903 }, f("sm", 904)] },
        It::Fn { name: s("mk"), shape: Shape::S3(0), tag: 905 },
    ];
    // 2: a use group and a duplicate across the group
    let lib2 = || {
        library! {
            mod m {
                fn f() -> u64 { 911 }
                fn g() -> u64 { 912 }
            }
            use m::{f, g};
        }
    };
    let tree2 = vec![module("m", vec![f("f", 911), f("g", 912)]), usei(&[&["m", "f"], &["m", "g"]])];
    // 3: a constant of a type registered in the same library, declared before the type
    let lib3 = || {
        library! {
            const V: Val<M<1>> = Val(M::<1>(921));
            mod n {
                #[clone] type U = Val<M<1>>;
            }
        }
    };
    let tree3 = vec![It::Const { name: s("V"), ty: Some(1), tag: 921 }, module("n", vec![It::Type { name: s("U"), m: 1 }])];
    let mut cases = vec![
        MacroCase { mk: Box::new(lib1), tree: tree1, note: s("library! shape 1"), uses: None, text: None, raw: false },
        MacroCase { mk: Box::new(lib2), tree: tree2, note: s("library! shape 2"), uses: None, text: None, raw: false },
        MacroCase { mk: Box::new(lib3), tree: tree3, note: s("library! shape 3"), uses: None, text: None, raw: false },
    ];
    for (mk, text) in use_fixtures() {
        let mut tree = use_fixture_tree();
        for d in parse_use_decls(text) {
            let paths = use_leaf_paths(&d).expect("fixtures have no `as` / `*`");
            tree.push(It::Use { paths });
        }
        let text1 = use_tokens(text).join(" ").replace(" :: ", "::").replace(" ,", ",").replace(" ;", ";");
        cases.push(MacroCase { mk, tree, note: format!("library! {text1}"), uses: Some(text), text: None, raw: false });
    }
    cases.extend(name_fixtures());
    cases
}

/// an item tree in one line (names, nesting, order, number of parameters,
/// type labels, import paths) — from the harness's tree and from the hook's dump
fn join_items(mut v: Vec<String>, sorted: bool) -> String {
    if sorted {
        v.sort();
    }
    v.join(" ")
}
fn use_line(paths: &[Vec<String>], sorted: bool) -> String {
    format!("use {}", join_items(paths.iter().map(|p| p.join("::")).collect(), sorted).replace(' ', "+"))
}
fn tree_line(items: &[It], sorted: bool) -> String {
    let ty = |t: &TyRef| t.map(|i| format!("M{i}")).unwrap_or_else(|| "u64".into());
    join_items(items.iter().map(|it| match it {
        It::Module { name, ch } => format!("mod {name}[{}]", tree_line(ch, sorted)),
        It::Type { name, m } => format!("type {name}:M{m}"),
        It::Fn { name, shape, .. } => format!("fn {name}/{}", match shape { Shape::S0 | Shape::S3(_) => 0, Shape::S4(_) => 2, _ => 1 }),
        It::Const { name, ty: t, .. } => format!("const {name}:{}", ty(t)),
        It::Impl { ty: t, ch } => format!("impl {}[{}]", ty(t), tree_line(ch, sorted)),
        It::Use { paths } => use_line(paths, sorted),
    }).collect(), sorted)
}
fn dump_line(v: &J, sorted: bool) -> String {
    let kids = |v: &J| v["ch"].as_array().map(|a| dump_line(&J::Array(a.clone()), sorted)).unwrap_or_default();
    v.as_array().map(|a| join_items(a.iter().map(|it| {
        if let Some(n) = it["mod"].as_str() {
            format!("mod {n}[{}]", kids(it))
        } else if let Some(n) = it["type"].as_str() {
            format!("type {n}:{}", it["ty"].as_str().unwrap_or("?"))
        } else if let Some(n) = it["fn"].as_str() {
            format!("fn {n}/{}", it["params"].as_array().map(|p| p.len()).unwrap_or(0))
        } else if let Some(n) = it["const"].as_str() {
            format!("const {n}:{}", it["ty"].as_str().unwrap_or("?"))
        } else if let Some(t) = it["impl"].as_str() {
            format!("impl {t}[{}]", kids(it))
        } else {
            use_line(&dump_use_paths(it), sorted)
        }
    }).collect(), sorted)).unwrap_or_default()
}
fn dump_use_paths(it: &J) -> Vec<Vec<String>> {
    it["use"].as_array().map(|a| a.iter().map(|p| p.as_array().map(|q| q.iter().map(|x| x.as_str().unwrap_or("?").to_string()).collect()).unwrap_or_default()).collect()).unwrap_or_default()
}
fn type_labels() -> Vec<(std::any::TypeId, String)> {
    let mut out = vec![(std::any::TypeId::of::<u64>(), "u64".to_string())];
    for i in 0..NM {
        with_m!(i, T => out.push((std::any::TypeId::of::<Val<T>>(), format!("M{i}"))));
    }
    out
}

/// `library!`-built libraries: the macro's expansion must be the item tree
/// that was written (names, nesting, order, import paths of every `use`), the
/// paths of each `use` must be what the model (`flattenSpec`) and the property
/// say the declaration names, and registering the expansion must make every
/// item usable from a script at every path (declared and imported).
fn macro_cases(rep: &mut Report, drv: &mut Driver, only: Option<&str>) {
    for MacroCase { mk, tree, note, uses, text, raw } in macro_case_list() {
        if let Some(o) = only {
            if o != note {
                continue;
            }
        }
        let note = note.as_str();
        let input = json!({"macro": note, "libs": libs_json(&[tree.clone()])});
        // the tree through the item API (compared with model and oracle) …
        let r = check_session(rep, drv, &[vec![tree.clone()]], note, 0);
        rep.class(format!("macro {}", r.class));
        // … the macro's expansion must be that tree …
        rep.evaluations += 1;
        let built = catch_unwind(AssertUnwindSafe(|| {
            let lib = mk();
            let dump = roto::verif_hooks::c18::dump_library(&lib, &type_labels());
            (lib, dump)
        }));
        // the names the text declares are the names of the tree (the oracle reads the declaration, not a copy of it)
        if let Some(text) = text {
            let written = declared_names(text);
            let mut want = vec![];
            tree_names(&tree, &mut want);
            let unraw: Vec<String> = written.iter().map(|n| n.strip_prefix("r#").unwrap_or(n).to_string()).collect();
            if unraw != want {
                rep.mismatch(&format!("{note}: the text declares {:?}, the harness's tree {:?}", written, want), input.clone());
            }
            for n in &written {
                rep.class(format!("macro name shape {}", name_shape(n)));
            }
        }
        let Ok((lib, dump)) = built else {
            if raw {
                // the name as written (`r#…`) is not a Roto identifier: the item constructor rejected it
                rep.class("macro raw identifier: rejected when the library is built");
                continue;
            }
            viol(rep, &format!("{note}: building the library panicked: {}", PANIC_MSG.lock().map(|g| g.clone()).unwrap_or_default()), "panic build macro", input.clone());
            continue;
        };
        if raw {
            rep.class("macro raw identifier: registered without the prefix");
        }
        let dumped: J = serde_json::from_str(&dump).unwrap_or(J::Null);
        if let Some(text) = uses {
            let decls = parse_use_decls(text);
            let emitted: Vec<Vec<Vec<String>>> = dumped.as_array().map(|a| a.iter().filter(|i| !i["use"].is_null()).map(dump_use_paths).collect()).unwrap_or_default();
            for (k, d) in decls.iter().enumerate() {
                let want = use_leaf_paths(d);
                rep.class(format!("use-tree {}", use_shape(d)));
                rep.hist("use-tree leaves", want.as_ref().map(|w| w.len()).unwrap_or(0).to_string());
                // model vs the property's reading
                match model_use_paths(drv, d) {
                    Ok(m) if m == want => {}
                    Ok(m) => rep.mismatch(&format!("{note}: use declaration {k}: model (flattenSpec) {:?}, oracle {:?}", m, want), input.clone()),
                    Err(e) => rep.mismatch(&format!("{note}: {e}"), input.clone()),
                }
                // the macro's expansion vs the property's reading
                let got = emitted.get(k).cloned();
                let sorted = |x: &Option<Vec<Vec<String>>>| x.clone().map(|mut v| { v.sort(); v });
                if got != want && sorted(&got) == sorted(&want) {
                    // the same paths in another order: registration does not depend on it (the property
                    // holds), but the source no longer does what the model says
                    rep.mismatch(&format!("{note}: the `use` item built by library! lists {:?}; the declaration lists {:?} (order)", got, want), input.clone());
                } else if got != want {
                    viol(rep, 
                        &format!("{note}: the `use` item built by library! names {:?}; the declaration names {:?}", got, want),
                        "macro-use-paths",
                        json!({"macro": note, "libs": libs_json(&[tree.clone()]), "use": text, "declaration": k, "emitted": got, "named": want}),
                    );
                }
            }
            if emitted.len() != decls.len() {
                viol(rep, &format!("{note}: {} use declarations, {} Use items", decls.len(), emitted.len()), "macro-use-paths", input.clone());
            }
        }
        // (a wrong `use` path is reported above; here the tree apart from what the uses say)
        let strip = |x: String| if uses.is_some() { x.split(' ').filter(|w| !w.starts_with("use") && !w.contains("::")).collect::<Vec<_>>().join(" ") } else { x };
        let (a, b) = (strip(dump_line(&dumped, true)), strip(tree_line(&tree, true)));
        if a != b {
            viol(rep, &format!("{note}: library! built [{a}], written [{b}]"), "macro-item-tree", input.clone());
        } else {
            let (a, b) = (strip(dump_line(&dumped, false)), strip(tree_line(&tree, false)));
            if a != b {
                rep.mismatch(&format!("{note}: library! built [{a}], written [{b}] (order of items)"), input.clone());
            }
        }
        // … and behave the same
        let spec = Spec::new().check(&tree).1;
        let mut probes = vec![];
        for (q, target, nested) in spec.reachable() {
            let info = spec.items[&target].clone();
            if matches!(info.kind, "fn" | "method" | "const" | "type") {
                probes.push(Probe { path: q.clone(), info: info.clone(), expect: Some(info.tag), nested_use: nested, what: "macro" });
            }
        }
        rep.evaluations += 1;
        rep.hist("macro probes", (probes.len() / 10 * 10).to_string());
        let out = catch_unwind(AssertUnwindSafe(|| {
            let mut rt = Runtime::from_lib(lib)?;
            rt.add(helpers(&spec.types.keys().cloned().collect()))?;
            Ok::<_, RegistrationError>(rt)
        }));
        match out {
            Ok(Ok(rt)) => {
                for (p, sn) in probes.iter().zip(run_probes(&rt, &probes)) {
                    let ok = match (&sn, p.expect) {
                        (Seen::Tag(x), Some(t)) => *x == t,
                        (Seen::TypeOk, _) => true,
                        _ => false,
                    };
                    if !ok {
                        let key = if sn == Seen::Panic { "panic compile macro" } else { "unreachable-at-declared-path macro" };
                        viol(rep, &format!("{note}: item with tag {:?} not usable at {}: {:?}", p.expect, p.path.join("."), sn), key, input.clone());
                    }
                }
            }
            Ok(Err(e)) => viol(rep, &format!("{note}: rejected: {}", err_kind(&e)), &format!("rejected-valid {} macro", err_kind(&e)), input.clone()),
            Err(_) => viol(rep, &format!("{note}: panicked"), "panic add macro", input.clone()),
        }
    }
}

// ------------------------------------------------------------------ reporting

static PER_KEY: Mutex<BTreeMap<String, u32>> = Mutex::new(BTreeMap::new());
/// at most this many violations per key are kept (per worker, and again when the workers' reports are merged):
/// the open finding's keys fire on every session with a `use` inside a module and must not crowd out a rare key
const KEEP_PER_KEY: u32 = 4;

fn viol(rep: &mut Report, what: &str, key: &str, input: J) {
    let mut g = PER_KEY.lock().unwrap();
    let c = g.entry(key.to_string()).or_insert(0);
    if *c < KEEP_PER_KEY {
        *c += 1;
        rep.violation(what, key, input);
    }
}

/// `worker::run_batches` with the violations merged per key (see `KEEP_PER_KEY`) instead of first come first kept
fn run_batches_per_key(prefix: &[&str], total: u64, batch: u64, timeout: Duration, rep: &mut Report, mut on_crash: impl FnMut(&mut Report, u64, &Ended)) {
    let mut per_key: BTreeMap<String, u32> = BTreeMap::new();
    let mut from = 0u64;
    while from < total {
        let n = batch.min(total - from);
        let (f, c) = (from.to_string(), n.to_string());
        let mut args: Vec<&str> = prefix.to_vec();
        args.push(&f);
        args.push(&c);
        let (ended, out) = worker::run_worker_keep_stdout(&args, timeout);
        let crashed = !matches!(ended, Ended::Exit(0, _));
        if let Some(mut v) = Report::parse_stdout(&out) {
            if let Some(a) = v["impl_violations"].as_array().cloned() {
                for x in a {
                    let k = x["key"].as_str().unwrap_or("").to_string();
                    let c = per_key.entry(k).or_insert(0);
                    if *c < KEEP_PER_KEY && rep.impl_violations.len() < 2000 {
                        *c += 1;
                        rep.impl_violations.push(x);
                    }
                }
            }
            v["impl_violations"] = json!([]);
            rep.merge_json(&v);
        }
        if crashed {
            let last = out.lines().rev().find_map(|l| l.strip_prefix("START ")).and_then(|s| s.trim().parse::<u64>().ok()).unwrap_or(from);
            on_crash(rep, last, &ended);
            from = last + 1;
        } else {
            from += n;
        }
    }
}

// ------------------------------------------------------------------ entry points

/// the built-in library is itself registered through `library!` / `Rt::add`: if that fails nothing else can run
fn runtime_constructible(rep: &mut Report) -> bool {
    if catch_unwind(|| { let _ = Runtime::new(); }).is_ok() {
        return true;
    }
    let m = PANIC_MSG.lock().map(|g| g.clone()).unwrap_or_default();
    rep.evaluations += 1;
    viol(rep, &format!("Runtime::new() panicked (registration of the built-in library): {m}"), "panic runtime-new", json!({"libs": [[]], "note": "Runtime::new()", "index": 0}));
    false
}

fn run_range(seed: u64, from: u64, n: u64, rep: &mut Report) {
    if !runtime_constructible(rep) {
        return;
    }
    let mut drv = Driver::spawn().expect("lean driver");
    let fixed = fixed_cases();
    for index in from..from + n {
        println!("START {index}");
        use std::io::Write;
        let _ = std::io::stdout().flush();
        let r = if (index as usize) < fixed.len() {
            let (libs, note) = &fixed[index as usize];
            // the case as given, and with everything reversed
            let mut rev = libs.clone();
            for l in rev.iter_mut() {
                l.reverse();
            }
            check_session(rep, &mut drv, &[libs.clone(), rev], note, index)
        } else if index as usize == fixed.len() {
            macro_cases(rep, &mut drv, None);
            continue;
        } else {
            let (variants, note) = gen_case(seed, index);
            check_session(rep, &mut drv, &variants, &note, index)
        };
        rep.class(r.class.clone());
        if index % 37 == 1 || (index as usize) < 3 {
            rep.sample(r.sample);
        }
    }
}

fn main() {
    let args: Vec<String> = std::env::args().collect();
    install_hook();
    match args.get(1).map(|s| s.as_str()) {
        Some("run") => {
            let seed: u64 = args[2].parse().expect("seed");
            let tier = args.get(3).map(|s| s.as_str()).unwrap_or("quick");
            let total: u64 = if tier == "thorough" { 20000 } else { 600 };
            let mut rep = Report::default();
            let seed_s = seed.to_string();
            run_batches_per_key(&[&seed_s, tier], total, 250, Duration::from_secs(900), &mut rep, |rep, last, ended| {
                let (variants, note) = if (last as usize) < fixed_cases().len() {
                    let (l, n) = fixed_cases()[last as usize].clone();
                    (vec![l], n.to_string())
                } else if last as usize == fixed_cases().len() {
                    (vec![vec![]], "library! fixtures".to_string())
                } else {
                    gen_case(seed, last)
                };
                let how = match ended {
                    Ended::Signal(s, _) => format!("signal {s}"),
                    Ended::Timeout => "timeout".into(),
                    Ended::Exit(c, _) => format!("exit {c}"),
                };
                viol(rep, 
                    &format!("worker died ({how}) while registering / probing a library ({note})"),
                    &format!("crash {how}"),
                    json!({"libs": libs_json(&variants[0]), "note": note, "index": last}),
                );
            });
            rep.notes.push(format!("sessions {total}; every session runs on 2-24 item orders; fixed boundary table {} cases + {} library!-built libraries ({} use-tree fixtures: every one's Use items compared with the property's reading and with the model's flattenSpec, item tree compared with what was written, every imported name resolved from a script)", fixed_cases().len(), macro_case_list().len(), use_fixtures().len()));
            rep.emit();
        }
        Some("worker") => {
            let seed: u64 = args[2].parse().expect("seed");
            let from: u64 = args[4].parse().expect("from");
            let n: u64 = args[5].parse().expect("n");
            let mut rep = Report::default();
            run_range(seed, from, n, &mut rep);
            rep.emit();
        }
        Some("replay") => {
            let v: J = serde_json::from_str(&args[2]).expect("json");
            let mut rep = Report::default();
            if !runtime_constructible(&mut rep) {
                rep.emit();
                return;
            }
            let mut drv = Driver::spawn().expect("lean driver");
            let libs = libs_from_json(&v["libs"]);
            let mut variants = vec![];
            if !v["first_order"].is_null() {
                variants.push(libs_from_json(&v["first_order"]));
            }
            variants.push(libs.clone());
            let mut rev = libs.clone();
            for l in rev.iter_mut() {
                l.reverse();
            }
            variants.push(rev);
            if !v["macro"].is_null() {
                macro_cases(&mut rep, &mut drv, v["macro"].as_str());
                rep.emit();
                return;
            }
            let r = check_session(&mut rep, &mut drv, &variants, v["note"].as_str().unwrap_or("replay"), 0);
            rep.sample(r.sample);
            rep.emit();
        }
        _ => {
            eprintln!("usage: c18 run <seed> <quick|thorough> | replay <json>");
            std::process::exit(64);
        }
    }
}
