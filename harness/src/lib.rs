//! Shared pieces of the correspondence harness: one PRNG, the Lean driver
//! pipe, crash-isolating workers, result records.

pub mod driver;
pub mod prng;
pub mod report;
pub mod scalar;
pub mod worker;

pub use prng::Prng;
pub use report::Report;
