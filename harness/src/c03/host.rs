//! Host side of the C03 oracle: a drop-tracked clone-able type `Tk` (unique id
//! per live instance, poisoned after drop), counters, a counting allocator
//! probe for strings/lists, and the runtime that registers it all.

use roto::{List, NoCtx, RotoString, Runtime, Val, Verdict, library};
use std::collections::HashSet;
use std::sync::Mutex;
use std::sync::atomic::{AtomicI64, AtomicU64, Ordering::SeqCst};

pub static NEXT_ID: AtomicU64 = AtomicU64::new(1);
pub static CREATED: AtomicU64 = AtomicU64::new(0);
pub static CLONED: AtomicU64 = AtomicU64::new(0);
pub static DROPPED: AtomicU64 = AtomicU64::new(0);
pub static DOUBLE_DROP: AtomicU64 = AtomicU64::new(0);
pub static USE_AFTER_DROP: AtomicU64 = AtomicU64::new(0);
pub static LIVE: Mutex<Option<HashSet<u64>>> = Mutex::new(None);

/// live heap allocations (count), maintained by the counting allocator
pub static ALLOCS: AtomicI64 = AtomicI64::new(0);

pub struct Counting;
unsafe impl std::alloc::GlobalAlloc for Counting {
    unsafe fn alloc(&self, l: std::alloc::Layout) -> *mut u8 {
        ALLOCS.fetch_add(1, SeqCst);
        unsafe { std::alloc::System.alloc(l) }
    }
    unsafe fn dealloc(&self, p: *mut u8, l: std::alloc::Layout) {
        ALLOCS.fetch_sub(1, SeqCst);
        unsafe { std::alloc::System.dealloc(p, l) }
    }
    unsafe fn realloc(&self, p: *mut u8, l: std::alloc::Layout, n: usize) -> *mut u8 {
        unsafe { std::alloc::System.realloc(p, l, n) }
    }
}

fn with_live<R>(f: impl FnOnce(&mut HashSet<u64>) -> R) -> R {
    let mut g = LIVE.lock().unwrap_or_else(|e| e.into_inner());
    f(g.get_or_insert_with(HashSet::new))
}

#[derive(Debug)]
pub struct Tk {
    pub id: u64,
    pub tag: u32,
}

impl Tk {
    pub fn new(tag: u32) -> Tk {
        let id = NEXT_ID.fetch_add(1, SeqCst);
        with_live(|l| l.insert(id));
        CREATED.fetch_add(1, SeqCst);
        Tk { id, tag }
    }
    /// every read of a token goes through here: a dead id is a use after drop
    pub fn touch(&self) -> u32 {
        if !with_live(|l| l.contains(&self.id)) {
            USE_AFTER_DROP.fetch_add(1, SeqCst);
        }
        self.tag
    }
}

impl Clone for Tk {
    fn clone(&self) -> Tk {
        let tag = self.touch();
        let id = NEXT_ID.fetch_add(1, SeqCst);
        with_live(|l| l.insert(id));
        CLONED.fetch_add(1, SeqCst);
        Tk { id, tag }
    }
}

impl Drop for Tk {
    fn drop(&mut self) {
        if with_live(|l| l.remove(&self.id)) {
            DROPPED.fetch_add(1, SeqCst);
        } else {
            DOUBLE_DROP.fetch_add(1, SeqCst);
        }
    }
}

impl PartialEq for Tk {
    fn eq(&self, o: &Tk) -> bool {
        self.touch() == o.touch()
    }
}

/// live instances of the zero-sized token
pub static LIVE_Z: AtomicI64 = AtomicI64::new(0);

/// The zero-sized twin of `Tk`: a registered `#[clone]` type without a single byte of state.
/// Its `Clone` and `Drop` still have effects (the instance counters), so a compiler that
/// treats "no storage" as "nothing to clone" or "nothing to drop" is seen. A release that finds
/// no live instance is a double drop (it released something that was never created).
#[derive(Debug)]
pub struct Tz;

impl Tz {
    pub fn new() -> Tz {
        LIVE_Z.fetch_add(1, SeqCst);
        CREATED.fetch_add(1, SeqCst);
        Tz
    }
}

impl Clone for Tz {
    fn clone(&self) -> Tz {
        LIVE_Z.fetch_add(1, SeqCst);
        CLONED.fetch_add(1, SeqCst);
        Tz
    }
}

impl Drop for Tz {
    fn drop(&mut self) {
        if LIVE_Z.fetch_sub(1, SeqCst) > 0 {
            DROPPED.fetch_add(1, SeqCst);
        } else {
            LIVE_Z.fetch_add(1, SeqCst);
            DOUBLE_DROP.fetch_add(1, SeqCst);
        }
    }
}

impl PartialEq for Tz {
    fn eq(&self, _: &Tz) -> bool {
        true
    }
}

/// the token type `main` receives: the sized `Tk` or the zero-sized `Tz`
pub trait Token: Sized {
    fn fresh() -> Self;
}
impl Token for Tk {
    fn fresh() -> Tk {
        Tk::new(1000)
    }
}
impl Token for Tz {
    fn fresh() -> Tz {
        Tz::new()
    }
}

#[derive(Clone, Copy, Debug, Default, PartialEq)]
pub struct Counters {
    pub live: i64,
    pub created: u64,
    pub cloned: u64,
    pub dropped: u64,
    pub double_drop: u64,
    pub use_after_drop: u64,
    pub allocs: i64,
}

pub fn counters() -> Counters {
    Counters {
        live: with_live(|l| l.len() as i64) + LIVE_Z.load(SeqCst),
        created: CREATED.load(SeqCst),
        cloned: CLONED.load(SeqCst),
        dropped: DROPPED.load(SeqCst),
        double_drop: DOUBLE_DROP.load(SeqCst),
        use_after_drop: USE_AFTER_DROP.load(SeqCst),
        allocs: ALLOCS.load(SeqCst),
    }
}

pub type VTk = Val<Tk>;

pub fn runtime() -> Runtime<NoCtx> {
    Runtime::from_lib(library! {
        /// drop-tracked token
        #[clone] type Tk = Val<Tk>;

        /// create a token
        fn mk(i: u32) -> Val<Tk> { Val(Tk::new(i)) }

        /// consume a token, return its tag
        fn id(t: Val<Tk>) -> u32 { t.0.touch() }

        /// consume two tokens, compare tags
        fn same(a: Val<Tk>, b: Val<Tk>) -> bool { a.0.touch() == b.0.touch() }

        /// pass a token through the host
        fn thru(t: Val<Tk>) -> Val<Tk> { t.0.touch(); t }

        /// consume a token, make a string
        fn name(t: Val<Tk>) -> RotoString { RotoString::from(format!("tk{}", t.0.touch())) }

        /// Some(token) when c, None otherwise
        fn maybe(c: bool, i: u32) -> Option<Val<Tk>> { if c { Some(Val(Tk::new(i))) } else { None } }

        /// a list of k fresh tokens
        fn many(k: u32) -> List<Val<Tk>> {
            let l = List::new();
            for i in 0..k { l.push(Val(Tk::new(i))); }
            l
        }

        /// consume a list, return its length
        fn count(l: List<Val<Tk>>) -> u32 { l.len() as u32 }

        /// consume a string, return its length
        fn slen(s: RotoString) -> u32 { s.to_string().len() as u32 }

        /// zero-sized drop-tracked token
        #[clone] type Tz = Val<Tz>;

        /// create a zero-sized token
        fn mkz(_i: u32) -> Val<Tz> { Val(Tz::new()) }

        /// consume a zero-sized token
        fn idz(_t: Val<Tz>) -> u32 { 0 }

        /// consume two zero-sized tokens
        fn samez(_a: Val<Tz>, _b: Val<Tz>) -> bool { true }

        /// pass a zero-sized token through the host
        fn thruz(t: Val<Tz>) -> Val<Tz> { t }

        /// consume a zero-sized token, make a string
        fn namez(_t: Val<Tz>) -> RotoString { RotoString::from("tz") }

        /// Some(token) when c, None otherwise
        fn maybez(c: bool, _i: u32) -> Option<Val<Tz>> { if c { Some(Val(Tz::new())) } else { None } }

        /// a list of k fresh zero-sized tokens
        fn manyz(k: u32) -> List<Val<Tz>> {
            let l = List::new();
            for _ in 0..k { l.push(Val(Tz::new())); }
            l
        }

        /// consume a list, return its length
        fn countz(l: List<Val<Tz>>) -> u32 { l.len() as u32 }
    })
    .expect("runtime")
}

#[allow(dead_code)]
pub type V = Verdict<Val<Tk>, RotoString>;
