//! Type-directed generator of Roto scripts that create, copy, store, pass,
//! return and discard drop-tracked values (`Tk`), strings and lists through
//! every control-flow construct. `main` always has the parameters
//! `(n: u32, m: u32, c: bool, t: Tk, s: String)`; the inputs steer the paths and
//! the loop trip counts.

use crate::Ret;
use rotov_harness::Prng;
use std::collections::BTreeMap;

#[derive(Clone, Copy, Debug, PartialEq, Eq)]
pub enum Ty {
    U32,
    Bool,
    Tk,
    Str,
    OptTk,
    ListTk,
    R,
    Q,
    E,
    /// a record with SIBLING fields of the same droppable type (x / y, l / r, l.v / r.v, p / q, u / w)
    W,
}

pub const PARAMS: &str = "n: u32, m: u32, c: bool, t: Tk, s: String";

pub const PRELUDE: &str = "\
record R { a: Tk, b: String, k: u32 }
record Q { r: R, o: Tk? }
record V { v: Tk, s: String }
record W { x: Tk, y: Tk, l: V, r: V, p: Tk?, q: Tk?, u: List[Tk], w: List[Tk] }
enum E { A(Tk), B(String, Tk), C }
const KS: String = \"konst\";
const KT: Tk = mk(77);
fn pass(x: Tk, k: u32) -> Tk { if k == 0 { return x; } thru(x) }
fn opt(x: Tk, b: bool) -> Tk? { if b { Some(x) } else { None } }
fn pick(e: E, d: Tk) -> Tk { match e { A(x) => x, B(q, x) if slen(q) > 1 => x, _ => d } }
";

/// (assigned path, read path) pairs inside a `W`: same type, different projection, same root
pub const SIBLINGS: [(&str, &str); 14] = [
    ("x", "y"), ("y", "x"), ("l.v", "r.v"), ("r.v", "l.v"), ("l.s", "r.s"), ("l", "r"), ("r", "l"),
    ("p", "q"), ("q", "p"), ("u", "w"), ("x", "l.v"), ("r.v", "y"), ("x", "x"), ("l.s", "l.s"),
];

/// host names that exist once per token type: `X` for the sized `Tk`, `Xz` for the zero-sized `Tz`
const TOKEN_NAMES: [(&str, &str); 9] = [
    ("Tk", "Tz"),
    ("mk", "mkz"),
    ("id", "idz"),
    ("same", "samez"),
    ("thru", "thruz"),
    ("name", "namez"),
    ("maybe", "maybez"),
    ("many", "manyz"),
    ("count", "countz"),
];

fn rename_words(src: &str, zero: bool) -> String {
    let mut out = String::with_capacity(src.len() + 64);
    let mut word = String::new();
    let flush = |word: &mut String, out: &mut String| {
        if !word.is_empty() {
            let hit = TOKEN_NAMES.iter().find(|p| if zero { p.0 == word.as_str() } else { p.1 == word.as_str() });
            match hit {
                Some(p) => out.push_str(if zero { p.1 } else { p.0 }),
                None => out.push_str(word),
            }
            word.clear();
        }
    };
    for c in src.chars() {
        if c.is_alphanumeric() || c == '_' {
            word.push(c);
        } else {
            flush(&mut word, &mut out);
            out.push(c);
        }
    }
    flush(&mut word, &mut out);
    out
}

/// The zero-sized twin of a script: every use of the sized token type `Tk` and of the host
/// functions that make / consume it becomes the zero-sized `Tz` and its functions. The two
/// scripts have the same shape (same lets, copies, fields, arguments, returns, bindings, lists).
pub fn zero_src(src: &str) -> String {
    rename_words(src, true)
}

/// inverse of `zero_src`
pub fn sized_src(src: &str) -> String {
    rename_words(src, false)
}

pub struct Gen {
    pub rng: Prng,
    ret: Ret,
    filtermap: bool,
    env: Vec<(String, Ty)>,
    fresh: u32,
    /// construct usage, reported as the generator's distribution
    pub used: BTreeMap<&'static str, u64>,
    budget: i32,
}

impl Gen {
    pub fn new(rng: Prng, ret: Ret) -> Gen {
        Gen {
            rng,
            ret,
            filtermap: ret == Ret::Verdict,
            env: vec![
                ("n".into(), Ty::U32),
                ("m".into(), Ty::U32),
                ("c".into(), Ty::Bool),
                ("t".into(), Ty::Tk),
                ("s".into(), Ty::Str),
            ],
            fresh: 0,
            used: BTreeMap::new(),
            budget: 60,
        }
    }

    fn mark(&mut self, k: &'static str) {
        *self.used.entry(k).or_insert(0) += 1;
    }

    fn name(&mut self, p: &str) -> String {
        self.fresh += 1;
        format!("{p}{}", self.fresh)
    }

    fn vars_of(&self, ty: Ty) -> Vec<String> {
        self.env.iter().filter(|v| v.1 == ty).map(|v| v.0.clone()).collect()
    }

    fn ret_ty(&self) -> Option<Ty> {
        match self.ret {
            Ret::U32 => Some(Ty::U32),
            Ret::Tk => Some(Ty::Tk),
            Ret::Str => Some(Ty::Str),
            Ret::OptTk => Some(Ty::OptTk),
            Ret::ListTk => Some(Ty::ListTk),
            Ret::Verdict | Ret::Unit => None,
        }
    }

    /// an expression that leaves the function: `return e` / `accept e` / `reject e`
    fn exit(&mut self, d: u32) -> String {
        self.mark("early-exit");
        if self.filtermap {
            if self.rng.chance(1, 2) {
                self.mark("accept");
                format!("accept ({})", self.expr(Ty::Tk, d))
            } else {
                self.mark("reject");
                format!("reject ({})", self.expr(Ty::Str, d))
            }
        } else {
            match self.ret_ty() {
                Some(t) => format!("return {}", self.expr(t, d)),
                None => "return".to_string(),
            }
        }
    }

    fn small(&mut self) -> String {
        (*self.rng.pick(&[0u32, 1, 2, 3, 5])).to_string()
    }

    pub fn expr(&mut self, ty: Ty, d: u32) -> String {
        self.budget -= 1;
        let leaf = d == 0 || self.budget <= 0;
        // productions shared by all types (only when not a leaf)
        if !leaf {
            let k = self.rng.below(100);
            if k < 8 {
                self.mark("if-else-expr");
                let c = self.expr(Ty::Bool, d - 1);
                let a = self.block_expr(ty, d - 1);
                let b = self.block_expr(ty, d - 1);
                return format!("if {c} {a} else {b}");
            }
            if k < 12 {
                self.mark("diverging-branch");
                let c = self.expr(Ty::Bool, d - 1);
                let x = self.exit(d - 1);
                let b = self.block_expr(ty, d - 1);
                return if self.rng.chance(1, 2) {
                    format!("if {c} {{ {x} }} else {b}")
                } else {
                    format!("if {c} {b} else {{ {x} }}")
                };
            }
            if k < 18 {
                return self.match_opt(ty, d - 1);
            }
            if k < 23 {
                return self.match_enum(ty, d - 1);
            }
            if k < 27 {
                self.mark("block-expr");
                return self.block_expr(ty, d - 1);
            }
            if k < 40 && self.ret == Ret::OptTk && ty == Ty::Tk {
                self.mark("question-mark");
                return format!("({})?", self.expr(Ty::OptTk, d - 1));
            }
            if k < 34 && self.ret == Ret::OptTk && ty == Ty::U32 {
                self.mark("question-mark");
                return format!("id(({})?)", self.expr(Ty::OptTk, d - 1));
            }
        }
        let vars = self.vars_of(ty);
        if !vars.is_empty() && self.rng.chance(if leaf { 3 } else { 1 }, 4) {
            self.mark("var-use");
            return self.rng.pick(&vars).clone();
        }
        // reads out of a record with sibling fields (what the sibling assignments left there)
        let ws = self.vars_of(Ty::W);
        if !ws.is_empty() && matches!(ty, Ty::Tk | Ty::Str | Ty::OptTk | Ty::ListTk) && self.rng.chance(1, 5) {
            self.mark("field-read");
            let w = self.rng.pick(&ws).clone();
            let f = match ty {
                Ty::Tk => *self.rng.pick(&["x", "y", "l.v", "r.v"]),
                Ty::Str => *self.rng.pick(&["l.s", "r.s"]),
                Ty::OptTk => *self.rng.pick(&["p", "q"]),
                _ => *self.rng.pick(&["u", "w"]),
            };
            return format!("{w}.{f}");
        }
        let dd = d.saturating_sub(1);
        match ty {
            Ty::U32 => match if leaf { self.rng.below(2) } else { self.rng.below(9) } {
                0 => self.small(),
                1 => self.rng.pick(&["n", "m"]).to_string(),
                2 => format!("id({})", self.expr(Ty::Tk, dd)),
                3 => format!("count({})", self.expr(Ty::ListTk, dd)),
                4 => format!("slen({})", self.expr(Ty::Str, dd)),
                5 => format!("({} + {})", self.expr(Ty::U32, dd), self.expr(Ty::U32, dd)),
                6 => {
                    self.mark("field-read");
                    format!("{}.k", self.place_expr(Ty::R, dd))
                }
                7 => {
                    self.mark("list-index");
                    format!("match {}.index({}) {{ Some(ix) => 1, None => 0 }}", self.list_recv(dd), self.expr(Ty::Tk, dd))
                }
                _ => format!("id({})", self.expr(Ty::Tk, dd)),
            },
            Ty::Bool => match if leaf { self.rng.below(2) } else { self.rng.below(11) } {
                0 => "c".to_string(),
                1 => self.rng.pick(&["true", "false"]).to_string(),
                2 => format!("({} == {})", self.expr(Ty::U32, dd), self.expr(Ty::U32, dd)),
                3 => format!("({} < {})", self.expr(Ty::U32, dd), self.expr(Ty::U32, dd)),
                4 => {
                    self.mark("tk-eq");
                    let op = *self.rng.pick(&["==", "!="]);
                    format!("({} {op} {})", self.expr(Ty::Tk, dd), self.expr(Ty::Tk, dd))
                }
                5 => {
                    self.mark("str-eq");
                    format!("({} == {})", self.expr(Ty::Str, dd), self.expr(Ty::Str, dd))
                }
                6 => format!("same({}, {})", self.expr(Ty::Tk, dd), self.expr(Ty::Tk, dd)),
                7 => {
                    self.mark("and");
                    format!("({} && {})", self.expr(Ty::Bool, dd), self.expr(Ty::Bool, dd))
                }
                8 => {
                    self.mark("or");
                    format!("({} || {})", self.expr(Ty::Bool, dd), self.expr(Ty::Bool, dd))
                }
                9 => {
                    self.mark("list-contains");
                    format!("{}.contains({})", self.list_recv(dd), self.expr(Ty::Tk, dd))
                }
                _ => format!("(!{})", self.expr(Ty::Bool, dd)),
            },
            Ty::Tk => match if leaf { self.rng.below(3) } else { self.rng.below(8) } {
                0 => format!("mk({})", self.small()),
                1 => "t".to_string(),
                2 => {
                    self.mark("constant");
                    "KT".to_string()
                }
                3 => format!("mk({})", self.expr(Ty::U32, dd)),
                4 => format!("thru({})", self.expr(Ty::Tk, dd)),
                5 => {
                    self.mark("script-call");
                    format!("pass({}, {})", self.expr(Ty::Tk, dd), self.expr(Ty::U32, dd))
                }
                6 => {
                    self.mark("field-read");
                    format!("{}.a", self.place_expr(Ty::R, dd))
                }
                _ => {
                    self.mark("script-call");
                    format!("pick({}, {})", self.expr(Ty::E, dd), self.expr(Ty::Tk, dd))
                }
            },
            Ty::Str => match if leaf { self.rng.below(3) } else { self.rng.below(7) } {
                0 => format!("\"lit{}\"", self.rng.below(3)),
                1 => "s".to_string(),
                2 => {
                    self.mark("constant");
                    "KS".to_string()
                }
                3 => format!("name({})", self.expr(Ty::Tk, dd)),
                4 => {
                    self.mark("f-string");
                    let mut a = self.expr(Ty::U32, dd);
                    let mut b = self.expr(Ty::Str, dd);
                    // an early exit taken from inside an interpolation (first or later part)
                    if self.rng.chance(1, 3) {
                        self.mark("f-string-exit");
                        let c = self.expr(Ty::Bool, 0);
                        let x = self.exit(0);
                        if self.rng.chance(1, 2) {
                            a = format!("if {c} {{ {x} }} else {{ {a} }}");
                        } else {
                            b = format!("if {c} {{ {b} }} else {{ {x} }}");
                        }
                    }
                    format!("f\"x{{{a}}}y{{{b}}}\"")
                }
                5 => {
                    self.mark("str-concat");
                    format!("({} + {})", self.expr(Ty::Str, dd), self.expr(Ty::Str, dd))
                }
                _ => {
                    self.mark("field-read");
                    format!("{}.b", self.place_expr(Ty::R, dd))
                }
            },
            Ty::OptTk => match if leaf { self.rng.below(2) } else { self.rng.below(6) } {
                0 => "None".to_string(),
                1 => format!("maybe(c, {})", self.small()),
                2 => format!("Some({})", self.expr(Ty::Tk, dd)),
                3 => format!("maybe({}, {})", self.expr(Ty::Bool, dd), self.expr(Ty::U32, dd)),
                4 => {
                    self.mark("script-call");
                    format!("opt({}, {})", self.expr(Ty::Tk, dd), self.expr(Ty::Bool, dd))
                }
                _ => {
                    self.mark("list-get");
                    format!("{}.get(0)", self.expr(Ty::ListTk, dd))
                }
            },
            Ty::ListTk => match if leaf { self.rng.below(2) } else { self.rng.below(6) } {
                0 => "many(n)".to_string(),
                1 => "[]".to_string() + "",
                2 => {
                    self.mark("list-literal");
                    let k = self.rng.below(3);
                    let items: Vec<String> = (0..=k).map(|_| self.expr(Ty::Tk, dd)).collect();
                    format!("[{}]", items.join(", "))
                }
                3 => format!("many({})", self.expr(Ty::U32, dd)),
                4 => {
                    self.mark("list-concat-method");
                    format!("{}.concat({})", self.list_recv(dd), self.expr(Ty::ListTk, dd))
                }
                _ => {
                    self.mark("list-concat");
                    format!("({} + {})", self.expr(Ty::ListTk, dd), self.expr(Ty::ListTk, dd))
                }
            },
            Ty::R => {
                self.mark("record-literal");
                format!(
                    "R {{ a: {}, b: {}, k: {} }}",
                    self.expr(Ty::Tk, dd),
                    self.expr(Ty::Str, dd),
                    self.expr(Ty::U32, dd)
                )
            }
            Ty::Q => {
                self.mark("record-literal");
                format!("Q {{ r: {}, o: {} }}", self.expr(Ty::R, dd), self.expr(Ty::OptTk, dd))
            }
            Ty::W => {
                self.mark("record-literal");
                format!(
                    "W {{ x: {}, y: {}, l: V {{ v: {}, s: {} }}, r: V {{ v: {}, s: {} }}, p: {}, q: {}, u: {}, w: {} }}",
                    self.expr(Ty::Tk, dd),
                    self.expr(Ty::Tk, 0),
                    self.expr(Ty::Tk, 0),
                    self.expr(Ty::Str, 0),
                    self.expr(Ty::Tk, 0),
                    self.expr(Ty::Str, dd),
                    self.expr(Ty::OptTk, 0),
                    self.expr(Ty::OptTk, 0),
                    self.expr(Ty::ListTk, 0),
                    self.expr(Ty::ListTk, 0)
                )
            }
            Ty::E => match self.rng.below(3) {
                0 => {
                    self.mark("enum-ctor");
                    format!("E.A({})", self.expr(Ty::Tk, dd))
                }
                1 => {
                    self.mark("enum-ctor");
                    format!("E.B({}, {})", self.expr(Ty::Str, dd), self.expr(Ty::Tk, dd))
                }
                _ => "E.C".to_string(),
            },
        }
    }

    /// the receiver of a list method: a list variable, an empty literal with its type known
    /// from a `let`, or a list of 0 / n / m elements
    fn list_recv(&mut self, d: u32) -> String {
        let vars = self.vars_of(Ty::ListTk);
        if !vars.is_empty() && self.rng.chance(1, 2) {
            return self.rng.pick(&vars).clone();
        }
        match self.rng.below(4) {
            0 => "many(0)".to_string(),
            1 => "many(n)".to_string(),
            2 => "many(m)".to_string(),
            _ => format!("({})", self.expr(Ty::ListTk, d)),
        }
    }

    /// the examinee of a match: an expression, or (one time in three) a local variable the
    /// guards can assign to — an existing one or a fresh `let` in a block around the match
    /// (third component: that `let`)
    fn examinee(&mut self, ty: Ty, d: u32) -> (String, Option<String>, Option<String>) {
        if self.rng.chance(1, 3) {
            let vars: Vec<String> = self.vars_of(ty).into_iter().filter(|v| v.starts_with('v')).collect();
            if !vars.is_empty() && self.rng.chance(1, 2) {
                let v = self.rng.pick(&vars).clone();
                return (v.clone(), Some(v), None);
            }
            let e = self.expr(ty, d.min(1));
            let v = self.name("v");
            return (v.clone(), Some(v.clone()), Some(format!("let {v}: {} = {e};", ty_name(ty))));
        }
        (self.expr(ty, d), None, None)
    }

    /// a guard; if the examinee is a variable, now and then one that assigns to it first
    fn guard(&mut self, var: &Option<String>, ty: Ty, d: u32) -> String {
        let g = self.expr(Ty::Bool, d);
        match var {
            Some(v) if self.rng.chance(1, 2) => {
                self.mark("guard-assigns-examinee");
                let e = self.expr(ty, d.min(1));
                format!("{{ {v} = {e}; {g} }}")
            }
            _ => g,
        }
    }

    /// an expression of record type that can be followed by `.field`
    fn place_expr(&mut self, ty: Ty, d: u32) -> String {
        let vars = self.vars_of(ty);
        if !vars.is_empty() {
            return self.rng.pick(&vars).clone();
        }
        if ty == Ty::R {
            let qs = self.vars_of(Ty::Q);
            if !qs.is_empty() {
                return format!("{}.r", self.rng.pick(&qs));
            }
        }
        format!("({})", self.expr(ty, d))
    }

    fn block_expr(&mut self, ty: Ty, d: u32) -> String {
        let mark = self.env.len();
        let mut out = String::from("{ ");
        let k = if d > 0 { self.rng.below(3) } else { 0 };
        for _ in 0..k {
            out.push_str(&self.stmt(d));
            out.push(' ');
        }
        out.push_str(&self.expr(ty, d));
        out.push_str(" }");
        self.env.truncate(mark);
        out
    }

    fn match_opt(&mut self, ty: Ty, d: u32) -> String {
        self.mark("match-option");
        let (scrut, svar, prefix) = self.examinee(Ty::OptTk, d);
        let mut arms = Vec::new();
        let guards = self.rng.below(3);
        for _ in 0..guards {
            self.mark("match-guard");
            let y = self.name("y");
            self.env.push((y.clone(), Ty::Tk));
            let g = self.guard(&svar, Ty::OptTk, d);
            let body = self.expr(ty, d);
            self.env.pop();
            arms.push(format!("Some({y}) if {g} => {body}"));
        }
        if self.rng.chance(1, 3) {
            self.mark("match-wildcard");
            if self.rng.chance(1, 2) {
                let y = self.name("y");
                self.env.push((y.clone(), Ty::Tk));
                let body = self.expr(ty, d);
                self.env.pop();
                arms.push(format!("Some({y}) => {body}"));
            } else {
                arms.push(format!("None => {}", self.expr(ty, d)));
            }
            if self.rng.chance(1, 3) {
                self.mark("match-guard");
                let g = self.expr(Ty::Bool, d);
                arms.push(format!("_ if {g} => {}", self.expr(ty, d)));
            }
            arms.push(format!("_ => {}", self.expr(ty, d)));
        } else {
            let y = self.name("y");
            self.env.push((y.clone(), Ty::Tk));
            let body = self.expr(ty, d);
            self.env.pop();
            let some = format!("Some({y}) => {body}");
            let none = format!("None => {}", self.expr(ty, d));
            if self.rng.chance(1, 2) {
                arms.push(some);
                arms.push(none);
            } else {
                arms.push(none);
                arms.push(some);
            }
        }
        match prefix {
            // in parentheses: a block that opens an f-string interpolation would read `{{`
            Some(p) => format!("({{ {p} match {scrut} {{ {} }} }})", arms.join(", ")),
            None => format!("match {scrut} {{ {} }}", arms.join(", ")),
        }
    }

    fn match_enum(&mut self, ty: Ty, d: u32) -> String {
        self.mark("match-enum");
        let (scrut, svar, prefix) = self.examinee(Ty::E, d);
        let mut arms = Vec::new();
        if self.rng.chance(1, 2) {
            self.mark("match-guard");
            let (q, x) = (self.name("q"), self.name("x"));
            self.env.push((q.clone(), Ty::Str));
            self.env.push((x.clone(), Ty::Tk));
            let g = self.guard(&svar, Ty::E, d);
            let body = self.expr(ty, d);
            self.env.pop();
            self.env.pop();
            arms.push(format!("B({q}, {x}) if {g} => {body}"));
        }
        let x = self.name("x");
        self.env.push((x.clone(), Ty::Tk));
        let body = self.expr(ty, d);
        self.env.pop();
        arms.push(format!("A({x}) => {body}"));
        if self.rng.chance(1, 2) {
            self.mark("match-wildcard");
            arms.push(format!("_ => {}", self.expr(ty, d)));
        } else {
            let (q, x) = (self.name("q"), self.name("x"));
            self.env.push((q.clone(), Ty::Str));
            self.env.push((x.clone(), Ty::Tk));
            let body = self.expr(ty, d);
            self.env.pop();
            self.env.pop();
            arms.push(format!("B({q}, {x}) => {body}"));
            arms.push(format!("C => {}", self.expr(ty, d)));
        }
        match prefix {
            // in parentheses: a block that opens an f-string interpolation would read `{{`
            Some(p) => format!("({{ {p} match {scrut} {{ {} }} }})", arms.join(", ")),
            None => format!("match {scrut} {{ {} }}", arms.join(", ")),
        }
    }

    fn any_ty(&mut self) -> Ty {
        *self.rng.pick(&[
            Ty::Tk,
            Ty::Tk,
            Ty::Str,
            Ty::OptTk,
            Ty::ListTk,
            Ty::R,
            Ty::Q,
            Ty::E,
            Ty::U32,
        ])
    }

    fn stmts(&mut self, d: u32, max: u64) -> String {
        let mark = self.env.len();
        let k = self.rng.below(max + 1);
        let mut out = String::new();
        for _ in 0..k {
            out.push_str(&self.stmt(d));
            out.push(' ');
        }
        self.env.truncate(mark);
        out
    }

    pub fn stmt(&mut self, d: u32) -> String {
        self.budget -= 1;
        let d1 = d.saturating_sub(1);
        // functions returning `Tk?`: `?` at statement level, so that several of them see
        // different sets of live values (what was created in between, inner scopes)
        if self.ret == Ret::OptTk && self.rng.chance(1, 4) {
            self.mark("question-mark");
            let e = self.expr(Ty::OptTk, d.min(1));
            let v = self.name("v");
            self.env.push((v.clone(), Ty::Tk));
            return format!("let {v}: Tk = ({e})?;");
        }
        // an f-string built at statement level (its parts may leave the function)
        if self.rng.chance(1, 14) {
            self.mark("f-string-stmt");
            let a = self.expr(Ty::U32, d.min(1));
            let (c, x) = (self.expr(Ty::Bool, 0), self.exit(0));
            let b = self.expr(Ty::Str, d.min(1));
            let v = self.name("v");
            self.env.push((v.clone(), Ty::Str));
            return if self.rng.chance(1, 2) {
                format!("let {v}: String = f\"p{{{a}}}q{{if {c} {{ {x} }} else {{ {b} }}}}r\";")
            } else {
                format!("let {v}: String = f\"p{{{a}}}q{{{b}}}\";")
            };
        }
        // assignment whose right-hand side is a plain place read rooted in the SAME variable as the
        // assigned place (a sibling field of the same droppable type, at either nesting level, a
        // field of a sibling record, the place itself): the clone of the right-hand side and the
        // drop of the old left-hand side then stand next to each other in the MIR, rooted in one
        // variable, with one type — two places that only their projection paths tell apart
        if self.rng.chance(1, 9) {
            let ws = self.vars_of(Ty::W);
            if ws.is_empty() || self.rng.chance(1, 5) {
                self.mark("let");
                let e = self.expr(Ty::W, d.min(1));
                let v = self.name("w");
                self.env.push((v.clone(), Ty::W));
                return format!("let {v}: W = {e};");
            }
            self.mark("assign-sibling");
            let w = self.rng.pick(&ws).clone();
            let (a, b) = *self.rng.pick(&SIBLINGS);
            return format!("{w}.{a} = {w}.{b};");
        }
        let k = if d == 0 || self.budget <= 0 { self.rng.below(45) } else { self.rng.below(100) };
        if k < 25 {
            self.mark("let");
            let ty = self.any_ty();
            let e = self.expr(ty, d);
            let v = self.name("v");
            self.env.push((v.clone(), ty));
            return format!("let {v}: {} = {e};", ty_name(ty));
        }
        if k < 35 {
            // assignment to a variable or a field of droppable type
            let cands: Vec<(String, Ty)> = self
                .env
                .iter()
                .filter(|v| v.0.starts_with('v'))
                .cloned()
                .collect();
            if let Some((v, ty)) = cands.get(self.rng.below(cands.len() as u64) as usize).cloned() {
                self.mark("assign");
                let (place, pty) = match ty {
                    Ty::R if self.rng.chance(2, 3) => {
                        self.mark("assign-field");
                        if self.rng.chance(1, 2) { (format!("{v}.a"), Ty::Tk) } else { (format!("{v}.b"), Ty::Str) }
                    }
                    Ty::Q if self.rng.chance(2, 3) => {
                        self.mark("assign-field");
                        match self.rng.below(3) {
                            0 => (format!("{v}.r.a"), Ty::Tk),
                            1 => (format!("{v}.o"), Ty::OptTk),
                            _ => (format!("{v}.r"), Ty::R),
                        }
                    }
                    _ => (v, ty),
                };
                let e = self.expr(pty, d);
                return format!("{place} = {e};");
            }
        }
        if k < 45 {
            self.mark("discard");
            let ty = self.any_ty();
            return format!("{};", self.expr(ty, d));
        }
        if k < 55 {
            self.mark("if-no-else");
            let c = self.expr(Ty::Bool, d1);
            let body = self.stmts(d1, 2);
            return format!("if {c} {{ {body}}}");
        }
        if k < 63 {
            let c = self.expr(Ty::Bool, d1);
            let x = self.exit(d1);
            return format!("if {c} {{ {x} }}");
        }
        if k < 78 {
            self.mark("while");
            let i = self.name("i");
            let bound = *self.rng.pick(&["n", "m", "2"]);
            let cond = match self.rng.below(4) {
                0 => format!("{i} < {bound}"),
                1 => {
                    self.mark("while-cond-temporaries");
                    // (`+ i`: terminates also when the token carries no tag — the zero-sized twin)
                    format!("(id(mk({i})) + {i} < {bound})")
                }
                2 => {
                    self.mark("while-cond-temporaries");
                    format!("(mk({i}) != mk({bound}))")
                }
                _ => {
                    self.mark("while-cond-temporaries");
                    let extra = self.expr(Ty::Bool, d1);
                    format!("(({i} < {bound}) && {extra})")
                }
            };
            self.env.push((i.clone(), Ty::U32));
            let body = self.stmts(d1, 2);
            self.env.pop();
            // the counter is not visible to the body's assignments (names with `i`)
            return format!("let {i} = 0; while {cond} {{ {body}{i} = {i} + 1; }}");
        }
        if k < 92 {
            self.mark("for");
            let l = self.expr(Ty::ListTk, d1);
            let e = self.name("e");
            self.env.push((e.clone(), Ty::Tk));
            let body = self.stmts(d1, 2);
            self.env.pop();
            return format!("for {e} in {l} {{ {body}}}");
        }
        let ls = self.vars_of(Ty::ListTk);
        if !ls.is_empty() && self.rng.chance(1, 4) {
            self.mark("list-swap");
            return format!("{}.swap(0, 1);", self.rng.pick(&ls));
        }
        self.mark("list-push");
        if let Some(l) = ls.first().cloned() {
            return format!("{l}.push({});", self.expr(Ty::Tk, d1));
        }
        format!("{};", self.expr(Ty::Tk, d1))
    }

    /// a whole program
    pub fn program(&mut self, depth: u32) -> String {
        let mut body = String::new();
        let k = 1 + self.rng.below(4);
        for _ in 0..k {
            body.push_str("    ");
            body.push_str(&self.stmt(depth));
            body.push('\n');
        }
        let last = if self.filtermap {
            // both verdict types must be determined by the body
            format!(
                "if {} {{ accept ({}) }} else {{ reject ({}) }}",
                self.expr(Ty::Bool, depth),
                self.expr(Ty::Tk, depth),
                self.expr(Ty::Str, depth)
            )
        } else {
            match self.ret_ty() {
                Some(t) => self.expr(t, depth),
                None => String::new(),
            }
        };
        let head = if self.filtermap {
            format!("filtermap main({PARAMS})")
        } else if self.ret == Ret::Unit {
            format!("fn main({PARAMS})")
        } else {
            format!("fn main({PARAMS}) -> {}", self.ret.roto())
        };
        format!("{PRELUDE}{head} {{\n{body}    {last}\n}}\n")
    }
}

pub fn ty_name(t: Ty) -> &'static str {
    match t {
        Ty::U32 => "u32",
        Ty::Bool => "bool",
        Ty::Tk => "Tk",
        Ty::Str => "String",
        Ty::OptTk => "Tk?",
        Ty::ListTk => "List[Tk]",
        Ty::R => "R",
        Ty::Q => "Q",
        Ty::E => "E",
        Ty::W => "W",
    }
}
