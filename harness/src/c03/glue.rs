//! Drop/clone glue stream: generated record and enum *type declarations* with
//! mixed droppable / non-droppable multi-field variants, a fixed-shape program
//! that creates, clones, stores (list), extracts (Option), matches and discards
//! one value of the last declared type on every path, and the type trees in the
//! form the Lean model (`RotoV.Model.Glue`) reads.
//!
//! `main` has the usual parameters; `n` selects the variant of every enum in
//! the value (n = 0,1,2 → variant n mod #variants, 5 → variant 3 mod #variants),
//! `c` / `m` select the exit path.

use rotov_harness::Prng;

#[derive(Clone, Copy, Debug, PartialEq, Eq)]
pub enum Leaf {
    U8,
    U16,
    U32,
    U64,
    /// 8 bytes, align 8, not an integer
    F64,
    /// `std::net::IpAddr`: 17 bytes, align 1 — a size that is not a power of two
    Ip,
    Bool,
    Tk,
    Str,
    ListTk,
    OptTk,
    /// the zero-sized registered `#[clone]` type: droppable, 0 bytes
    Tz,
    ListTz,
    OptTz,
}

#[derive(Clone, Copy, Debug, PartialEq, Eq)]
pub enum GT {
    Leaf(Leaf),
    /// index of an earlier declaration
    User(usize),
}

#[derive(Clone, Debug, PartialEq, Eq)]
pub enum Decl {
    Record(Vec<GT>),
    Enum(Vec<Vec<GT>>),
}

#[derive(Clone, Debug)]
pub struct Glue {
    pub decls: Vec<Decl>,
}

/// number of option declarations `nums()` puts in front of the declared types
pub const OPTS: usize = 2;

use Leaf::*;
fn l(x: Leaf) -> GT {
    GT::Leaf(x)
}

/// Class representatives, run first on every tier: every (non-droppable size
/// class) × (droppable leaf) order inside one variant / record, nested both ways.
pub fn table() -> Vec<(&'static str, Glue)> {
    vec![
        // a droppable field after a large non-droppable one (no padding to hide a wrong offset)
        ("enum-u64-then-tk", Glue { decls: vec![Decl::Enum(vec![vec![l(U64), l(Tk)], vec![l(U32), l(Tk)], vec![l(Tk), l(U64)], vec![]])] }),
        ("enum-mixed-4", Glue { decls: vec![Decl::Enum(vec![
            vec![l(U8), l(Str), l(U64), l(Tk)],
            vec![l(U64), l(U64), l(Str)],
            vec![l(U16), l(U8), l(ListTk), l(Bool), l(Tk)],
            vec![l(U64)],
            vec![],
        ])] }),
        ("enum-u64-then-list-opt", Glue { decls: vec![Decl::Enum(vec![vec![l(U64), l(ListTk)], vec![l(U64), l(OptTk)], vec![l(U64), l(U8), l(Tk)]])] }),
        ("record-mixed", Glue { decls: vec![Decl::Record(vec![l(U64), l(Tk), l(U8), l(Str), l(U16), l(ListTk)])] }),
        ("record-u8-then-tk", Glue { decls: vec![Decl::Record(vec![l(U8), l(Tk), l(U64), l(OptTk)])] }),
        // nesting: enum inside record after a scalar, record inside enum after a scalar
        ("record-of-enum", Glue { decls: vec![
            Decl::Enum(vec![vec![l(U64), l(Tk)], vec![l(U8), l(Str), l(U64), l(Tk)], vec![l(Tk), l(U64)], vec![]]),
            Decl::Record(vec![l(U8), GT::User(0), l(U64), l(Str)]),
        ] }),
        ("enum-of-record", Glue { decls: vec![
            Decl::Record(vec![l(U64), l(Tk), l(U8)]),
            Decl::Enum(vec![vec![l(U64), GT::User(0)], vec![l(U8), GT::User(0), l(Str)], vec![l(U64)]]),
        ] }),
        ("enum-of-enum", Glue { decls: vec![
            Decl::Enum(vec![vec![l(U64), l(Tk)], vec![l(Str)], vec![]]),
            Decl::Enum(vec![vec![l(U64), GT::User(0)], vec![l(U8), l(U64), GT::User(0), l(Tk)], vec![]]),
        ] }),
        // a non-droppable aggregate (record of scalars) in front of a droppable field
        ("enum-scalar-record-then-tk", Glue { decls: vec![
            Decl::Record(vec![l(U64), l(U8)]),
            Decl::Enum(vec![vec![GT::User(0), l(Tk)], vec![l(U8), GT::User(0), l(Str)]]),
        ] }),
        // needs_drop must look at every variant / every field, not the first
        ("enum-first-variant-plain", Glue { decls: vec![Decl::Enum(vec![vec![l(U64)], vec![], vec![l(U8), l(Tk)], vec![l(Str)]])] }),
        ("record-last-field-droppable", Glue { decls: vec![
            Decl::Enum(vec![vec![l(U64)], vec![l(U8), l(U64), l(ListTk)]]),
            Decl::Record(vec![l(U64), l(U8), l(U32), GT::User(0)]),
        ] }),
        // sizes that are not a power of two; floats
        ("enum-ip-then-tk", Glue { decls: vec![Decl::Enum(vec![vec![l(Ip), l(Tk)], vec![l(U8), l(Ip), l(Str)], vec![l(F64), l(Tk)], vec![l(Ip), l(U16), l(ListTk)]])] }),
        ("record-ip-then-tk", Glue { decls: vec![Decl::Record(vec![l(Ip), l(Tk), l(U8), l(Ip), l(Str)])] }),
        // zero-sized droppable leaves: alone, next to sized droppable leaves, behind every size
        // class, in nested declarations, behind `?`, in lists
        ("enum-u64-then-tz", Glue { decls: vec![Decl::Enum(vec![vec![l(U64), l(Tz)], vec![l(Tz)], vec![l(Tz), l(U64)], vec![]])] }),
        ("enum-tz-tk-mixed", Glue { decls: vec![Decl::Enum(vec![vec![l(Tz), l(Tk)], vec![l(Tk), l(Tz)], vec![l(U8), l(Tz), l(U64), l(Tk)], vec![l(Tz), l(Tz)]])] }),
        ("record-tz-between", Glue { decls: vec![Decl::Record(vec![l(U64), l(Tz), l(U8), l(Tz), l(Str), l(Tz)])] }),
        ("record-tz-and-scalar", Glue { decls: vec![Decl::Record(vec![l(Tz), l(U32)])] }),
        ("enum-only-tz", Glue { decls: vec![Decl::Enum(vec![vec![l(Tz)], vec![l(Tz), l(Tz), l(Tz)], vec![]])] }),
        ("record-of-tz-enum", Glue { decls: vec![
            Decl::Enum(vec![vec![l(Tz)], vec![l(U8), l(Tz)], vec![]]),
            Decl::Record(vec![l(U8), GT::User(0), l(Tz), GT::User(0)]),
        ] }),
        ("enum-of-tz-record", Glue { decls: vec![
            Decl::Record(vec![l(Tz), l(U8), l(Tz)]),
            Decl::Enum(vec![vec![GT::User(0), l(Tz)], vec![l(Tz), GT::User(0), l(Tk)], vec![l(U64)]]),
        ] }),
        ("enum-opt-list-tz", Glue { decls: vec![Decl::Enum(vec![vec![l(U64), l(OptTz)], vec![l(ListTz), l(Tz)], vec![l(OptTz), l(OptTk), l(Tz)]])] }),
        // nothing to drop at all
        ("enum-scalars-only", Glue { decls: vec![Decl::Enum(vec![vec![l(U64), l(U8)], vec![l(U32)], vec![]])] }),
    ]
}

impl Glue {
    pub fn random(rng: &mut Prng, depth: u32) -> Glue {
        let n = 1 + rng.below(depth.min(3) as u64 + 1) as usize;
        let mut decls: Vec<Decl> = vec![];
        for i in 0..n {
            let field = |rng: &mut Prng, decls: &Vec<Decl>| -> GT {
                if i > 0 && rng.chance(1, 4) {
                    return GT::User(rng.below(decls.len() as u64) as usize);
                }
                l(*rng.pick(&[U8, U16, U32, U64, U64, F64, Ip, Bool, Tk, Tk, Str, ListTk, OptTk, Tz, Tz, Tz, ListTz, OptTz]))
            };
            if rng.chance(1, 3) {
                let k = 1 + rng.below(6);
                let mut fs: Vec<GT> = (0..k).map(|_| field(rng, &decls)).collect();
                // A record of nothing but zero-sized registered values is a zero-sized aggregate:
                // building one stops the code generator (`did not find Var`, open finding
                // C02-zero-sized-aggregate-of-registered) — not this property's business, so such
                // a record gets a byte of payload.
                if fs.iter().all(|f| *f == l(Tz)) {
                    fs.push(l(U8));
                }
                decls.push(Decl::Record(fs));
            } else {
                let nv = 1 + rng.below(5);
                let mut vs = vec![];
                for _ in 0..nv {
                    let k = rng.below(6);
                    vs.push((0..k).map(|_| field(rng, &decls)).collect());
                }
                decls.push(Decl::Enum(vs));
            }
        }
        Glue { decls }
    }

    fn ty_name(&self, t: GT) -> String {
        match t {
            GT::Leaf(U8) => "u8".into(),
            GT::Leaf(U16) => "u16".into(),
            GT::Leaf(U32) => "u32".into(),
            GT::Leaf(U64) => "u64".into(),
            GT::Leaf(F64) => "f64".into(),
            GT::Leaf(Ip) => "IpAddr".into(),
            GT::Leaf(Bool) => "bool".into(),
            GT::Leaf(Tk) => "Tk".into(),
            GT::Leaf(Str) => "String".into(),
            GT::Leaf(ListTk) => "List[Tk]".into(),
            GT::Leaf(OptTk) => "Tk?".into(),
            GT::Leaf(Tz) => "Tz".into(),
            GT::Leaf(ListTz) => "List[Tz]".into(),
            GT::Leaf(OptTz) => "Tz?".into(),
            GT::User(i) => format!("T{i}"),
        }
    }

    /// a value of type `t`; every enum inside takes variant `sel mod #variants`
    fn value(&self, t: GT, sel: usize, k: &mut u32) -> String {
        *k += 1;
        match t {
            GT::Leaf(U8) | GT::Leaf(U16) | GT::Leaf(U32) | GT::Leaf(U64) => format!("{}", *k % 200),
            GT::Leaf(Bool) => "true".into(),
            GT::Leaf(F64) => format!("{}.5", *k % 100),
            GT::Leaf(Ip) => format!("10.0.0.{}", *k % 250),
            GT::Leaf(Tk) => format!("mk({k})"),
            GT::Leaf(Str) => format!("\"s{k}\""),
            GT::Leaf(ListTk) => format!("[mk({k}), mk({k})]"),
            GT::Leaf(OptTk) => {
                if sel % 2 == 0 {
                    format!("Some(mk({k}))")
                } else {
                    "None".into()
                }
            }
            GT::Leaf(Tz) => format!("mkz({k})"),
            GT::Leaf(ListTz) => format!("[mkz({k}), mkz({k})]"),
            GT::Leaf(OptTz) => {
                if sel % 2 == 0 {
                    format!("Some(mkz({k}))")
                } else {
                    "None".into()
                }
            }
            GT::User(i) => match &self.decls[i] {
                Decl::Record(fs) => {
                    let parts: Vec<String> =
                        fs.iter().enumerate().map(|(j, f)| format!("f{j}: {}", self.value(*f, sel, k))).collect();
                    format!("T{i} {{ {} }}", parts.join(", "))
                }
                Decl::Enum(vs) => {
                    let j = sel % vs.len();
                    if vs[j].is_empty() {
                        format!("T{i}.V{j}")
                    } else {
                        let parts: Vec<String> = vs[j].iter().map(|f| self.value(*f, sel, k)).collect();
                        format!("T{i}.V{j}({})", parts.join(", "))
                    }
                }
            },
        }
    }

    pub fn script(&self) -> String {
        let mut out = String::new();
        for (i, d) in self.decls.iter().enumerate() {
            match d {
                Decl::Record(fs) => {
                    let parts: Vec<String> = fs.iter().enumerate().map(|(j, f)| format!("f{j}: {}", self.ty_name(*f))).collect();
                    out.push_str(&format!("record T{i} {{ {} }}\n", parts.join(", ")));
                }
                Decl::Enum(vs) => {
                    let parts: Vec<String> = vs
                        .iter()
                        .enumerate()
                        .map(|(j, fs)| {
                            if fs.is_empty() {
                                format!("V{j}")
                            } else {
                                format!("V{j}({})", fs.iter().map(|f| self.ty_name(*f)).collect::<Vec<_>>().join(", "))
                            }
                        })
                        .collect();
                    out.push_str(&format!("enum T{i} {{ {} }}\n", parts.join(", ")));
                }
            }
        }
        let top = GT::User(self.decls.len() - 1);
        let tn = self.ty_name(top);
        let mut k = 0u32;
        let v: Vec<String> = (0..4).map(|sel| self.value(top, sel, &mut k)).collect();
        // take the value apart: every field of the top type is copied out of its place
        // (a record's fields by name, a variant's fields by a binding) and released again
        let apart = match &self.decls[self.decls.len() - 1] {
            Decl::Record(fs) => (0..fs.len()).map(|j| format!("let p{j} = w.f{j}; ")).collect::<String>(),
            Decl::Enum(vs) => {
                let arms: Vec<String> = vs
                    .iter()
                    .enumerate()
                    .map(|(j, fs)| {
                        if fs.is_empty() {
                            format!("V{j} => {j}")
                        } else {
                            format!("V{j}({}) => {j}", (0..fs.len()).map(|i| format!("b{j}x{i}")).collect::<Vec<_>>().join(", "))
                        }
                    })
                    .collect();
                format!("let k = match w {{ {} }}; ", arms.join(", "))
            }
        };
        out.push_str(&format!(
            "fn main({}) -> u32 {{\n  let v: {tn} = if n == 0 {{ {} }} else if n == 1 {{ {} }} else if n == 2 {{ {} }} else {{ {} }};\n  let w = v;\n  {apart}\n  if c {{ return 1; }}\n  let l = [v, w];\n  if m == 1 {{ return 2; }}\n  let u = l.get(0);\n  if m == 2 {{ return 3; }}\n  match u {{ Some(x) => 4, None => 5 }}\n}}\n",
            crate::progen::PARAMS, v[0], v[1], v[2], v[3]
        ));
        out
    }

    /// The type trees as the numeric request the Lean driver reads
    /// (`c03 glue <nums…>`): `nDecls decl*`, `decl := 0 nFields ty* | 1 nVariants (nFields ty*)*`,
    /// `ty := 0 size align droppable | 1 declIndex`; `Tk?` and `Tz?` are sent as the enums they are.
    pub fn nums(&self) -> Vec<u64> {
        // `Tk?` and `Tz?` become two extra declarations in front: enum { Some(T), None }
        let mut out = vec![self.decls.len() as u64 + OPTS as u64, 1, 2, 1];
        out.extend(leaf_nums(Tk));
        out.push(0);
        out.extend([1, 2, 1]);
        out.extend(leaf_nums(Tz));
        out.push(0);
        let ty = |t: &GT, out: &mut Vec<u64>| match t {
            GT::Leaf(OptTk) => out.extend([1, 0]),
            GT::Leaf(OptTz) => out.extend([1, 1]),
            GT::Leaf(x) => out.extend(leaf_nums(*x)),
            GT::User(i) => out.extend([1, (*i + OPTS) as u64]),
        };
        for d in &self.decls {
            match d {
                Decl::Record(fs) => {
                    out.extend([0, fs.len() as u64]);
                    for f in fs {
                        ty(f, &mut out);
                    }
                }
                Decl::Enum(vs) => {
                    out.extend([1, vs.len() as u64]);
                    for fs in vs {
                        out.push(fs.len() as u64);
                        for f in fs {
                            ty(f, &mut out);
                        }
                    }
                }
            }
        }
        out
    }

    /// which entries of `nums()` (0 = `Tk?`, 1 = `Tz?`, i + 2 = declaration i) the value of the
    /// last declared type contains
    pub fn reachable(&self) -> Vec<bool> {
        let mut r = vec![false; self.decls.len() + OPTS];
        let mut work = vec![self.decls.len() - 1];
        while let Some(i) = work.pop() {
            if r[i + OPTS] {
                continue;
            }
            r[i + OPTS] = true;
            let fields: Vec<GT> = match &self.decls[i] {
                Decl::Record(fs) => fs.clone(),
                Decl::Enum(vs) => vs.iter().flatten().copied().collect(),
            };
            for f in fields {
                match f {
                    GT::Leaf(OptTk) => r[0] = true,
                    GT::Leaf(OptTz) => r[1] = true,
                    GT::Leaf(_) => {}
                    GT::User(j) => work.push(j),
                }
            }
        }
        r
    }

    pub fn describe(&self) -> String {
        self.script().lines().filter(|l| l.starts_with("record") || l.starts_with("enum")).collect::<Vec<_>>().join("; ")
    }

    /// class signature: for every variant / record the pattern of (non-droppable
    /// size class, droppable) fields, order kept, capped
    pub fn class_sig(&self) -> String {
        let f = |t: &GT| -> char {
            match t {
                GT::Leaf(U8) | GT::Leaf(Bool) => '1',
                GT::Leaf(U16) => '2',
                GT::Leaf(U32) => '4',
                GT::Leaf(U64) | GT::Leaf(F64) => '8',
                GT::Leaf(Ip) => 'i',
                GT::Leaf(Tk) | GT::Leaf(Str) | GT::Leaf(ListTk) | GT::Leaf(ListTz) => 'D',
                GT::Leaf(OptTk) => 'O',
                // a droppable leaf of size 0, and `Tz?`
                GT::Leaf(Tz) => 'Z',
                GT::Leaf(OptTz) => 'o',
                GT::User(i) => match self.decls[*i] {
                    Decl::Record(_) => 'R',
                    Decl::Enum(_) => 'E',
                },
            }
        };
        let mut parts = vec![];
        for d in &self.decls {
            match d {
                Decl::Record(fs) => parts.push(format!("r{}", fs.iter().map(f).collect::<String>())),
                Decl::Enum(vs) => {
                    let mut v: Vec<String> = vs.iter().map(|fs| fs.iter().map(f).collect::<String>()).collect();
                    v.sort();
                    v.dedup();
                    parts.push(format!("e{}", v.join("/")));
                }
            }
        }
        parts.join(";")
    }
}

/// `0 size align droppable` of a leaf, measured on the host types themselves
pub fn leaf_nums(x: Leaf) -> [u64; 4] {
    use std::mem::{align_of, size_of};
    let (s, a, d) = match x {
        U8 => (1, 1, 0),
        Bool => (1, 1, 0),
        U16 => (2, 2, 0),
        U32 => (4, 4, 0),
        U64 => (8, 8, 0),
        F64 => (8, 8, 0),
        Ip => (size_of::<std::net::IpAddr>(), align_of::<std::net::IpAddr>(), 0),
        Tk => (size_of::<roto::Val<crate::host::Tk>>(), align_of::<roto::Val<crate::host::Tk>>(), 1),
        Str => (size_of::<roto::RotoString>(), align_of::<roto::RotoString>(), 1),
        ListTk => (
            size_of::<roto::List<roto::Val<crate::host::Tk>>>(),
            align_of::<roto::List<roto::Val<crate::host::Tk>>>(),
            1,
        ),
        Tz => (size_of::<roto::Val<crate::host::Tz>>(), align_of::<roto::Val<crate::host::Tz>>(), 1),
        ListTz => (
            size_of::<roto::List<roto::Val<crate::host::Tz>>>(),
            align_of::<roto::List<roto::Val<crate::host::Tz>>>(),
            1,
        ),
        OptTk | OptTz => unreachable!("Tk? / Tz? are enums"),
    };
    [0, s as u64, a as u64, d]
}
