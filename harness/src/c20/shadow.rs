//! C20, classes `shadow` and `match1` of the flow run: the evaluator's register
//! file and single-entry branch tables.
//!
//!  * `shadow`: a variable of the lowered IR is a (scope, name) pair. A nested
//!    block (`if`/`else` arm, plain block, `match` arm and its pattern
//!    bindings, loop body) may declare a name that is still live in an
//!    enclosing block; a callee may use the names of its caller. The compiled
//!    code keeps all of them apart (one Cranelift variable per `Var`), so the
//!    evaluator has to: the outer variable is read again AFTER the inner
//!    block ran, and the result mixes both values with different weights so
//!    that a clobbered register shows in the value. Scalars (registers) and
//!    records (stack slots). Class representatives first ([`rep`]), then a
//!    stream of random block-structured programs whose names come from a
//!    pool of four (so most inner `let`s shadow) plus unique names.
//!  * `match1`: a `match` with ONE explicit arm and `_` lowers to a branch
//!    table with a single entry `[(k, arm)]` — for k = 1 the same shape as
//!    the table of `if`/`while`/`&&`/`||`, but the examinee is a discriminant
//!    that takes values >= 2. Every (number of variants 3..=5, k) with and
//!    without payload, evaluated for every variant.

use super::FlowCase;
use rotov_harness::Prng;
use rotov_harness::scalar::STy;

const INPUTS3: [[u64; 3]; 6] = [[1, 2, 3], [0, 0, 0], [5, 1, 0], [2, 7, 1], [9, 9, 9], [3, 0, 2]];

fn case3(kind: &'static str, src: String, ty: STy) -> FlowCase {
    FlowCase { kind, src, ty, arity: 3, ret: ty, inputs: INPUTS3.iter().map(|i| i.to_vec()).collect() }
}

const ENUM3: &str = "enum E {\n    V0,\n    V1(u32),\n    V2(u32, u32),\n}\n\n\
fn mk(x: u32, y: u32) -> E {\n    if x == 0 { E.V0 } else if x == 1 { E.V1(y + 100) } else { E.V2(y + 200, x) }\n}\n\n";

const PAIR: &str = "record Pair { a: u32, b: u32 }\n\nfn sum(p: Pair) -> u32 {\n    p.a + p.b\n}\n\n";

/// The class representatives of `shadow`: (what, helper items, body of
/// `fn main(a: u32, b: u32, c: u32) -> u32`).
const SHADOW_REPS: [(&str, &str, &str); 20] = [
    (
        "if-arm, value passed to a callee whose parameter has the caller's name",
        "fn double(a: u32) -> u32 {\n    a + a\n}\n\n",
        "let x = a + 10;\n    let y = if c > 0 {\n        let x = b + 20;\n        double(x)\n    } else {\n        0\n    };\n    x * 1000 + y + a",
    ),
    ("plain nested block", "", "let x = a + 1;\n    let y = {\n        let x = b + 50;\n        x * 2\n    };\n    x * 1000 + y"),
    (
        "two levels",
        "",
        "let x = a + 1;\n    let y = {\n        let x = b + 20;\n        let z = {\n            let x = c + 300;\n            x + 1\n        };\n        x * 3 + z\n    };\n    x * 100000 + y",
    ),
    (
        "else-arm",
        "",
        "let x = a + 1;\n    let y = if c > 0 {\n        7\n    } else {\n        let x = b + 40;\n        x + x\n    };\n    x * 1000 + y",
    ),
    (
        "both arms, different values",
        "",
        "let x = a + 1;\n    let y = if b > c {\n        let x = b + 40;\n        x + 1\n    } else {\n        let x = c + 70;\n        x + 2\n    };\n    x * 1000 + y",
    ),
    (
        "inner initialiser reads the outer variable of the same name",
        "",
        "let x = a + 1;\n    let y = {\n        let x = x + b + 10;\n        x * 2\n    };\n    x * 1000 + y",
    ),
    (
        "assignment to the inner binding, then to the outer one",
        "",
        "let x = a + 1;\n    let y = {\n        let x = b + 30;\n        x = x + 5;\n        x\n    };\n    x = x + 2;\n    x * 1000 + y",
    ),
    (
        "assignment to the OUTER variable from an inner block that shadows another name",
        "",
        "let x = a + 1;\n    let z = b + 2;\n    let y = {\n        let z = c + 60;\n        x = x + z;\n        z\n    };\n    x * 10000 + z * 100 + y",
    ),
    (
        "record in an if-arm, passed to a callee (stack slots)",
        PAIR,
        "let p = Pair { a: a + 1, b: b + 2 };\n    let y = if c > 0 {\n        let p = Pair { a: 30, b: c + 40 };\n        sum(p)\n    } else {\n        0\n    };\n    sum(p) * 1000 + y",
    ),
    (
        "record in a plain block, fields read directly",
        PAIR,
        "let p = Pair { a: a + 1, b: b + 2 };\n    let y = {\n        let p = Pair { a: c + 30, b: 40 };\n        p.a * 2 + p.b\n    };\n    p.a * 100000 + p.b * 1000 + y",
    ),
    (
        "record shadowed by a scalar",
        PAIR,
        "let p = Pair { a: a + 1, b: b + 2 };\n    let y = {\n        let p = c + 9;\n        p * 2\n    };\n    p.a * 10000 + p.b * 100 + y",
    ),
    (
        "pattern binding of a match arm",
        ENUM3,
        "let v = a + 7;\n    let w = b + 9;\n    let y = match mk(c, b) {\n        V1(v) => v + 1,\n        V2(v, w) => v * 2 + w,\n        _ => 5,\n    };\n    v * 100000 + w * 1000 + y",
    ),
    (
        "let inside a match arm",
        ENUM3,
        "let v = a + 7;\n    let y = match mk(c, b) {\n        V0 => {\n            let v = 11;\n            v + 1\n        }\n        V1(q) => {\n            let v = q * 2;\n            v + 1\n        }\n        V2(q, r) => {\n            let v = q + r;\n            v + 2\n        }\n    };\n    v * 100000 + y",
    ),
    (
        "loop body",
        "",
        "let x = a + 1;\n    let i = 0;\n    let s = 0;\n    while i < 3 {\n        let x = i * 2 + b;\n        s = s + x;\n        i = i + 1;\n    }\n    s * 1000 + x",
    ),
    (
        "nested loops with a shadowed counter name",
        "",
        "let i = a + 1;\n    let s = 0;\n    let k = 0;\n    while k < 2 {\n        let i = 0;\n        while i < 3 {\n            s = s + i + b;\n            i = i + 1;\n        }\n        k = k + 1;\n    }\n    s * 1000 + i + c",
    ),
    (
        "callee uses the caller's local names",
        "fn f(x: u32) -> u32 {\n    let t = x + 1;\n    let y = t * 2;\n    y\n}\n\n",
        "let x = a + 1;\n    let t = b + 5;\n    let y = f(c);\n    x * 1000000 + t * 1000 + y",
    ),
    (
        "callee called from inside a shadowing block, with shadowing blocks of its own",
        "fn f(x: u32) -> u32 {\n    let t = x + 1;\n    let y = {\n        let t = x * 3;\n        t + 1\n    };\n    t * 100 + y\n}\n\n",
        "let x = a + 1;\n    let t = b + 5;\n    let y = {\n        let t = f(c);\n        let x = f(t % 7);\n        t + x\n    };\n    x * 1000000 + t * 10000 + y",
    ),
    (
        "inner binding of another type",
        "",
        "let x = a + 1;\n    let y = {\n        let x = a > b;\n        if x { 10 } else { 20 }\n    };\n    x * 1000 + y",
    ),
    (
        "sibling blocks reusing a name (no shadowing: control)",
        "",
        "let y = {\n        let x = a + 1;\n        x * 2\n    };\n    let z = {\n        let x = b + 30;\n        x * 3\n    };\n    y * 1000 + z + c",
    ),
    (
        "shadowing inside both operands of a short-circuit condition",
        "",
        "let x = a + 1;\n    let y = if { let x = b; x > 1 } && { let x = c; x < 5 } {\n        let x = 77;\n        x\n    } else {\n        3\n    };\n    x * 1000 + y",
    ),
];

pub const REPS: u64 = SHADOW_REPS.len() as u64 + MATCH1 as u64;

/// (n, k, payload) of every single-arm match
fn match1_shapes() -> Vec<(usize, usize, bool)> {
    let mut v = vec![];
    for payload in [false, true] {
        for n in 3..=5 {
            for k in 0..n {
                v.push((n, k, payload));
            }
        }
    }
    v
}
const MATCH1: usize = 2 * (3 + 4 + 5);

/// `match mk(x) { Vk.. => A, _ => B }` over an enum of `n` variants.
fn match1_program(n: usize, k: usize, payload: bool) -> FlowCase {
    let arity: Vec<usize> = (0..n).map(|i| if payload { [1, 2, 0, 1, 2][(i + k) % 5] } else { 0 }).collect();
    let name = format!("S{n}x{k}");
    let mut src = format!("enum {name} {{\n");
    for (i, a) in arity.iter().enumerate() {
        src += &match a {
            0 => format!("    V{i},\n"),
            1 => format!("    V{i}(u32),\n"),
            _ => format!("    V{i}(u32, u32),\n"),
        };
    }
    src += "}\n\n";
    src += &format!("fn mk(x: u32) -> {name} {{\n    ");
    for (i, a) in arity.iter().enumerate() {
        let ctor = match a {
            0 => format!("{name}.V{i}"),
            1 => format!("{name}.V{i}(x + {})", 100 * (i + 1)),
            _ => format!("{name}.V{i}(x + {}, {})", 100 * (i + 1), 7 * (i + 1)),
        };
        if i + 1 < n {
            src += &format!("if x == {i} {{ {ctor} }} else ");
        } else {
            src += &format!("{{ {ctor} }}\n");
        }
    }
    src += "}\n\n";
    src += "fn main(x: u32) -> u32 {\n    match mk(x) {\n";
    src += &match arity[k] {
        0 => format!("        V{k} => {},\n", 10 + k),
        1 => format!("        V{k}(a) => a + {},\n", 1000 * (k + 1)),
        _ => format!("        V{k}(a, b) => a * 2 + b + {},\n", 1000 * (k + 1)),
    };
    src += "        _ => 999999,\n    }\n}\n";
    FlowCase { kind: "match1", src, ty: STy::U32, arity: 1, ret: STy::U32, inputs: (0..=n as u64).map(|x| vec![x]).collect() }
}

/// The `i`-th class representative (independent of the seed).
pub fn rep(i: u64) -> FlowCase {
    let i = i as usize;
    if i < MATCH1 {
        let (n, k, payload) = match1_shapes()[i];
        return match1_program(n, k, payload);
    }
    let (_, items, body) = SHADOW_REPS[i - MATCH1];
    let src = format!("{items}fn main(a: u32, b: u32, c: u32) -> u32 {{\n    {body}\n}}\n");
    case3("shadow", src, STy::U32)
}

pub fn rep_name(i: u64) -> String {
    let i = i as usize;
    if i < MATCH1 {
        let (n, k, payload) = match1_shapes()[i];
        format!("match1 n={n} k={k} payload={payload}")
    } else {
        format!("shadow: {}", SHADOW_REPS[i - MATCH1].0)
    }
}

// ------------------------------------------------------------------ random block-structured programs

const POOL: [&str; 4] = ["x", "y", "z", "t"];

struct Gen<'a> {
    p: &'a mut Prng,
    ty: STy,
    fresh: usize,
    shadows: usize,
    /// the deliberate stream: names almost always from the pool
    deliberate: bool,
}

impl Gen<'_> {
    fn lit(&mut self, max: u64) -> String {
        let v = self.p.below(max + 1);
        self.ty.literal(v)
    }

    fn var(&mut self, env: &[String]) -> String {
        env[self.p.below(env.len() as u64) as usize].clone()
    }

    fn expr(&mut self, env: &[String]) -> String {
        match self.p.below(7) {
            0 => self.var(env),
            1 => format!("{} + {}", self.var(env), self.lit(9)),
            2 => format!("{} + {}", self.var(env), self.var(env)),
            3 => format!("{} * {}", self.var(env), self.lit(3)),
            4 => format!("h({})", self.var(env)),
            5 => format!("h({}) + {}", self.var(env), self.var(env)),
            _ => self.lit(20),
        }
    }

    fn cond(&mut self, env: &[String]) -> String {
        match self.p.below(3) {
            0 => format!("{} < {}", self.var(env), self.var(env)),
            1 => format!("{} > {}", self.var(env), self.lit(4)),
            _ => format!("{} != {}", self.var(env), self.lit(2)),
        }
    }

    /// A name for a new binding of the block that has declared `here`: mostly a pool name that
    /// is visible from an enclosing block (a shadowing declaration), sometimes a unique one.
    fn name(&mut self, env: &[String], here: &[String], nested: bool) -> String {
        let pool_odds = if self.deliberate { 9 } else { 4 };
        if self.p.chance(pool_odds, 10) {
            // in a nested block the parameters of `main` can be shadowed as well
            let params: &[&str] = if nested { &["a", "b", "c"] } else { &[] };
            let cands: Vec<&str> =
                POOL.iter().chain(params.iter()).copied().filter(|n| !here.iter().any(|h| h == n)).collect();
            let shadowing: Vec<&str> = cands.iter().copied().filter(|n| env.iter().any(|e| e == n)).collect();
            let pick = if !shadowing.is_empty() && self.p.chance(3, 4) {
                Some(shadowing[self.p.below(shadowing.len() as u64) as usize])
            } else if !cands.is_empty() {
                Some(cands[self.p.below(cands.len() as u64) as usize])
            } else {
                None
            };
            if let Some(n) = pick {
                if env.iter().any(|e| e == n) {
                    self.shadows += 1;
                }
                return n.to_string();
            }
        }
        self.fresh += 1;
        format!("u{}", self.fresh)
    }

    /// The statements of a block and its tail expression. `env`: the names visible at its start.
    fn block(&mut self, env: &[String], depth: u32, ind: usize, tail: bool) -> String {
        let pad = " ".repeat(ind);
        let nested = ind > 4;
        let mut env: Vec<String> = env.to_vec();
        let mut here: Vec<String> = vec![];
        let mut out = String::new();
        if !nested && self.deliberate {
            // something to shadow
            for n in ["x", "y"] {
                let e = self.expr(&env);
                out += &format!("{pad}let {n} = {e};\n");
                here.push(n.to_string());
                env.push(n.to_string());
            }
        }
        let n = 1 + self.p.below(3);
        for _ in 0..n {
            let choice = self.p.below(if depth > 0 { 8 } else { 3 });
            match choice {
                0 | 1 => {
                    let e = self.expr(&env);
                    let name = self.name(&env, &here, nested);
                    out += &format!("{pad}let {name} = {e};\n");
                    here.push(name.clone());
                    if !env.contains(&name) {
                        env.push(name);
                    }
                }
                2 => {
                    let v = self.var(&env);
                    let e = self.expr(&env);
                    out += &format!("{pad}{v} = {e};\n");
                }
                3 | 4 => {
                    let c = self.cond(&env);
                    let a = self.block(&env, depth - 1, ind + 4, true);
                    let b = self.block(&env, depth - 1, ind + 4, true);
                    let name = self.name(&env, &here, nested);
                    out += &format!("{pad}let {name} = if {c} {{\n{a}{pad}}} else {{\n{b}{pad}}};\n");
                    here.push(name.clone());
                    if !env.contains(&name) {
                        env.push(name);
                    }
                }
                5 | 6 => {
                    let a = self.block(&env, depth - 1, ind + 4, true);
                    let name = self.name(&env, &here, nested);
                    out += &format!("{pad}let {name} = {{\n{a}{pad}}};\n");
                    here.push(name.clone());
                    if !env.contains(&name) {
                        env.push(name);
                    }
                }
                _ => {
                    self.fresh += 1;
                    let i = format!("i{}", self.fresh);
                    let body = self.block(&env, depth - 1, ind + 4, false);
                    let bound = 1 + self.p.below(3);
                    out += &format!(
                        "{pad}let {i} = {z};\n{pad}while {i} < {b} {{\n{body}{pad}    {i} = {i} + {one};\n{pad}}}\n",
                        z = self.ty.literal(0),
                        b = self.ty.literal(bound),
                        one = self.ty.literal(1),
                    );
                }
            }
        }
        if tail {
            // every visible variable is read again, with its own weight
            let terms: Vec<String> =
                env.iter().enumerate().map(|(i, v)| if i == 0 { v.clone() } else { format!("{v} * {}", self.ty.literal(i as u64 + 1)) }).collect();
            out += &format!("{pad}{}\n", terms.join(" + "));
        }
        out
    }
}

/// A random block-structured program; `deliberate`: the shadowing stream.
pub fn random(p: &mut Prng, deliberate: bool) -> FlowCase {
    let tys = [STy::U32, STy::I64, STy::U64, STy::I32, STy::U16, STy::U8];
    let ty = tys[p.below(tys.len() as u64) as usize];
    let depth = 1 + p.below(3) as u32;
    let mut g = Gen { p, ty, fresh: 0, shadows: 0, deliberate };
    let env: Vec<String> = ["a", "b", "c"].iter().map(|s| s.to_string()).collect();
    // the callee uses pool names for its parameter and locals
    let t = ty.name();
    let two = ty.literal(2);
    let one = ty.literal(1);
    // (the control stream's callee has no shadowing block of its own)
    let helper = if deliberate {
        format!(
            "fn h(x: {t}) -> {t} {{\n    let t = x + {one};\n    let y = {{\n        let t = x % {two};\n        t + {one}\n    }};\n    t + y\n}}\n\n"
        )
    } else {
        format!("fn h(x: {t}) -> {t} {{\n    let t = x + {one};\n    let y = x % {two} + {one};\n    t + y\n}}\n\n")
    };
    let body = g.block(&env, depth, 4, true);
    let src = format!("{helper}fn main(a: {t}, b: {t}, c: {t}) -> {t} {{\n{body}}}\n");
    let mut inputs: Vec<Vec<u64>> = INPUTS3.iter().map(|i| i.to_vec()).collect();
    for _ in 0..3 {
        inputs.push(vec![g.p.below(12), g.p.below(12), g.p.below(12)]);
    }
    let kind = if g.shadows > 0 || deliberate { "shadow-random" } else { "blocks-random" };
    FlowCase { kind, src, ty, arity: 3, ret: ty, inputs }
}
