//! C20, class `mem`: the evaluator's `Memory` (frames of byte allocations,
//! checked pointers) driven directly through the hook, three ways:
//!
//!  * the real `Memory` (`roto::verif_hooks::c20::mem_run`), every operation
//!    under `catch_unwind`;
//!  * a shadow oracle kept here (what the property demands: an access that
//!    COMPLETES is inside the bytes that were requested for a live
//!    allocation, naturally aligned for the scalar widths 2/4/8, and returns
//!    the bytes last written) -> `impl_violations`;
//!  * the Lean model generated from `src/lir/eval.rs` (`c20 mem …` request),
//!    which must give the same outcome for every operation, loud stops
//!    included -> `model_mismatches`.
//!
//! Operation text (one token per operation): `a<n>` allocate, `u` push frame,
//! `p` pop frame, `o<ptr>,<off>` offset, `r<ptr>,<n>` read, `w<ptr>,<hex>`
//! write, `c<to>,<from>,<n>` copy, `g<ptr>` get (the raw address handed to
//! clone / drop / eq and runtime functions: at least one byte must be there).

use roto::verif_hooks::c20::{MemOp, MemOut, mem_run};
use rotov_harness::driver::Driver;
use rotov_harness::{Prng, Report};
use serde_json::json;

pub fn show_ops(ops: &[MemOp]) -> String {
    ops.iter()
        .map(|o| match o {
            MemOp::Allocate(n) => format!("a{n}"),
            MemOp::PushFrame => "u".to_string(),
            MemOp::PopFrame => "p".to_string(),
            MemOp::OffsetBy(p, o) => format!("o{p},{o}"),
            MemOp::Read(p, n) => format!("r{p},{n}"),
            MemOp::Write(p, b) => format!("w{p},{}", hex(b)),
            MemOp::Copy(t, f, n) => format!("c{t},{f},{n}"),
            MemOp::Get(p) => format!("g{p}"),
        })
        .collect::<Vec<_>>()
        .join(" ")
}

pub fn parse_ops(s: &str) -> Vec<MemOp> {
    s.split_whitespace()
        .map(|t| {
            let (k, rest) = t.split_at(1);
            let nums = |s: &str| -> Vec<usize> { s.split(',').map(|x| x.parse().expect("number")).collect() };
            match k {
                "a" => MemOp::Allocate(rest.parse().expect("size")),
                "u" => MemOp::PushFrame,
                "p" => MemOp::PopFrame,
                "o" => {
                    let n = nums(rest);
                    MemOp::OffsetBy(n[0], n[1])
                }
                "r" => {
                    let n = nums(rest);
                    MemOp::Read(n[0], n[1])
                }
                "w" => {
                    let (p, h) = rest.split_once(',').expect("w<ptr>,<hex>");
                    MemOp::Write(p.parse().expect("ptr"), unhex(h))
                }
                "c" => {
                    let n = nums(rest);
                    MemOp::Copy(n[0], n[1], n[2])
                }
                "g" => MemOp::Get(rest.parse().expect("ptr")),
                _ => panic!("bad op {t}"),
            }
        })
        .collect()
}

fn hex(b: &[u8]) -> String {
    b.iter().map(|x| format!("{x:02x}")).collect()
}

fn unhex(s: &str) -> Vec<u8> {
    (0..s.len() / 2).map(|i| u8::from_str_radix(&s[2 * i..2 * i + 2], 16).expect("hex")).collect()
}

fn show_out(o: &MemOut) -> String {
    match o {
        MemOut::Ptr(p) => format!("ptr{p}"),
        MemOut::Bytes(b) => format!("b{}", hex(b)),
        MemOut::Unit => "unit".into(),
        MemOut::Popped(b) => format!("pop{}", *b as u8),
        MemOut::Panic(_) => "panic".into(),
    }
}

// ------------------------------------------------------------ shadow oracle

struct Frame {
    uid: u64,
    allocs: Vec<Vec<u8>>,
}

#[derive(Clone, Copy)]
struct Ptr {
    uid: u64,
    depth: usize,
    alloc: usize,
    off: usize,
}

pub struct Shadow {
    frames: Vec<Frame>,
    next_uid: u64,
    ptrs: Vec<Ptr>,
}

/// Why an access is not one the evaluator may complete.
fn defect(sh: &Shadow, p: usize, size: usize) -> Option<String> {
    let Some(ptr) = sh.ptrs.get(p) else {
        return Some(format!("invalid pointer: #{p} was never handed out"));
    };
    let live = sh.frames.get(ptr.depth).is_some_and(|f| f.uid == ptr.uid);
    if !live {
        return Some("dangling: the frame of the allocation was popped".into());
    }
    let len = sh.frames[ptr.depth].allocs[ptr.alloc].len();
    if ptr.off + size > len {
        return Some(format!(
            "out of bounds: bytes {}..{} of an allocation of {len} byte(s)",
            ptr.off,
            ptr.off + size
        ));
    }
    if matches!(size, 2 | 4 | 8) && ptr.off % size != 0 {
        return Some(format!("misaligned: {size}-byte access at offset {}", ptr.off));
    }
    None
}

impl Shadow {
    pub fn new() -> Self {
        Shadow { frames: vec![Frame { uid: 0, allocs: vec![] }], next_uid: 1, ptrs: vec![] }
    }

    /// Follow one operation of the real memory; `Some((key, what))` when the
    /// real outcome is one the property forbids.
    fn step(&mut self, op: &MemOp, real: &MemOut) -> Option<(String, String)> {
        let completed = !matches!(real, MemOut::Panic(_));
        match op {
            MemOp::Allocate(n) => {
                if let MemOut::Ptr(p) = real {
                    if *p != self.ptrs.len() {
                        return Some(("mem allocate".into(), format!("allocate returned pointer #{p}, expected #{}", self.ptrs.len())));
                    }
                    let depth = self.frames.len() - 1;
                    let f = self.frames.last_mut().unwrap();
                    f.allocs.push(vec![0; *n]);
                    self.ptrs.push(Ptr { uid: f.uid, depth, alloc: f.allocs.len() - 1, off: 0 });
                }
                None
            }
            MemOp::PushFrame => {
                if completed {
                    self.frames.push(Frame { uid: self.next_uid, allocs: vec![] });
                    self.next_uid += 1;
                }
                None
            }
            MemOp::PopFrame => {
                if let MemOut::Popped(b) = real {
                    let expect = self.frames.len() > 1;
                    if *b != expect {
                        return Some(("mem pop".into(), format!("pop_frame returned {b} with {} frame(s)", self.frames.len())));
                    }
                    if *b {
                        self.frames.pop();
                    }
                }
                None
            }
            MemOp::OffsetBy(p, o) => {
                if let MemOut::Ptr(q) = real {
                    let Some(base) = self.ptrs.get(*p).copied() else {
                        return Some(("mem offset".into(), format!("offset of pointer #{p}, which was never handed out, completed")));
                    };
                    if *q != self.ptrs.len() {
                        return Some(("mem offset".into(), format!("offset_by returned pointer #{q}, expected #{}", self.ptrs.len())));
                    }
                    self.ptrs.push(Ptr { off: base.off + o, ..base });
                }
                None
            }
            MemOp::Read(p, n) => {
                let MemOut::Bytes(b) = real else { return None };
                if let Some(d) = defect(self, *p, *n) {
                    let class = d.split(':').next().unwrap_or("").to_string();
                    return Some((format!("mem read {class}"), format!("a read completed (with {}) although it is {d}", hex(b))));
                }
                let ptr = self.ptrs[*p];
                let want = &self.frames[ptr.depth].allocs[ptr.alloc][ptr.off..ptr.off + n];
                if want != &b[..] {
                    return Some(("mem read value".into(), format!("an in-bounds read returned {} where {} was last written", hex(b), hex(want))));
                }
                None
            }
            MemOp::Write(p, b) => {
                if !completed {
                    return None;
                }
                if let Some(d) = defect(self, *p, b.len()) {
                    let class = d.split(':').next().unwrap_or("").to_string();
                    return Some((format!("mem write {class}"), format!("a write completed although it is {d}")));
                }
                let ptr = self.ptrs[*p];
                self.frames[ptr.depth].allocs[ptr.alloc][ptr.off..ptr.off + b.len()].copy_from_slice(b);
                None
            }
            MemOp::Get(p) => {
                if !completed {
                    return None;
                }
                // the address of a byte: that byte has to exist in a live allocation
                if let Some(d) = defect(self, *p, 1) {
                    let class = d.split(':').next().unwrap_or("").to_string();
                    return Some((format!("mem get {class}"), format!("a raw address was handed out although the access is {d}")));
                }
                None
            }
            MemOp::Copy(t, f, n) => {
                if !completed {
                    return None;
                }
                for (what, p) in [("source", f), ("destination", t)] {
                    if let Some(d) = defect(self, *p, *n) {
                        let class = d.split(':').next().unwrap_or("").to_string();
                        return Some((format!("mem copy {class}"), format!("a copy completed although its {what} is {d}")));
                    }
                }
                let from = self.ptrs[*f];
                let data = self.frames[from.depth].allocs[from.alloc][from.off..from.off + n].to_vec();
                let to = self.ptrs[*t];
                self.frames[to.depth].allocs[to.alloc][to.off..to.off + n].copy_from_slice(&data);
                None
            }
        }
    }
}

// --------------------------------------------------------------- sequences

/// Boundary table for one allocation size: fill it with a pattern, then read
/// and write every width at every offset up to 9 bytes past the end.
fn table_for_size(size: usize) -> Vec<MemOp> {
    let mut ops = vec![MemOp::Allocate(size)]; // ptr 0
    let mut next = 1usize;
    // pointers to every offset 0..=size+9 (ptr 1 + k)
    for k in 0..=size + 9 {
        ops.push(MemOp::OffsetBy(0, k));
    }
    let at = |k: usize| 1 + k;
    next += size + 10;
    let _ = next;
    for k in 0..size {
        ops.push(MemOp::Write(at(k), vec![0xA0 ^ (k as u8).wrapping_mul(7) | 1]));
    }
    let widths = [1usize, 2, 4, 8, 16, 3, 12];
    for &w in &widths {
        for k in 0..=size + 9 {
            ops.push(MemOp::Read(at(k), w));
        }
    }
    for k in 0..=size + 9 {
        ops.push(MemOp::Get(at(k)));
    }
    // whole-allocation and longer reads from the base pointer
    for n in [size, size + 1, size + 7, size.next_multiple_of(8), size.next_multiple_of(8) + 1, 0] {
        ops.push(MemOp::Read(0, n));
    }
    // writes that end past the end (and the last one that fits), then read back
    for &w in &[1usize, 2, 4, 8, 16] {
        for k in 0..=size + 9 {
            if k + w >= size {
                ops.push(MemOp::Write(at(k), (0..w).map(|i| 0x11u8.wrapping_mul(i as u8 + 1)).collect()));
            }
        }
    }
    ops.push(MemOp::Read(0, size));
    // copies between two allocations of this size, lengths around the size
    ops.push(MemOp::Allocate(size)); // ptr size+11
    let second = size + 11;
    for n in [size, size + 1, size.next_multiple_of(8), size.next_multiple_of(8) + 8] {
        ops.push(MemOp::Copy(second, 0, n));
        ops.push(MemOp::Copy(0, second, n));
    }
    ops.push(MemOp::Read(second, size));
    ops
}

/// Frame discipline: pointers into popped frames, frames re-pushed at the same
/// depth, the root frame that is never popped, offsets of dangling pointers.
fn frame_tables() -> Vec<Vec<MemOp>> {
    use MemOp::*;
    let w8 = || vec![1u8, 2, 3, 4, 5, 6, 7, 8];
    vec![
        // read/write after pop
        vec![PushFrame, Allocate(8), Write(0, w8()), Read(0, 8), PopFrame, Read(0, 8), Write(0, w8()), Read(0, 1)],
        // raw addresses of dangling pointers: frame gone, and frame re-pushed at the same depth
        vec![PushFrame, Allocate(8), Get(0), PopFrame, Get(0), PushFrame, Allocate(8), Get(1), Get(0)],
        vec![Allocate(4), PushFrame, Allocate(8), OffsetBy(1, 4), PushFrame, Allocate(8), PopFrame, PopFrame, Get(0), Get(1), Get(2), Get(3), PushFrame, Get(1), Allocate(2), Get(1), Get(2), Get(3)],
        // re-pushed frame at the same depth, same allocation index
        vec![PushFrame, Allocate(8), Write(0, w8()), PopFrame, PushFrame, Allocate(8), Read(1, 8), Read(0, 8), Write(0, w8()), Copy(1, 0, 8), Copy(0, 1, 8), Read(1, 8)],
        // offsets of a dangling pointer
        vec![PushFrame, Allocate(16), OffsetBy(0, 8), PopFrame, OffsetBy(0, 4), Read(1, 8), Read(2, 4), PushFrame, Allocate(16), Read(1, 8), Read(2, 4), OffsetBy(3, 8), Read(4, 8)],
        // the root frame stays
        vec![Allocate(4), PopFrame, Read(0, 4), PopFrame, Write(0, vec![9, 9, 9, 9]), Read(0, 4), PushFrame, PopFrame, PopFrame, Read(0, 4)],
        // nested frames, inner pointers die first
        vec![Allocate(8), PushFrame, Allocate(8), PushFrame, Allocate(8), Write(2, w8()), Copy(1, 2, 8), Copy(0, 1, 8), PopFrame, Read(2, 8), Read(1, 8), Copy(0, 2, 8), PopFrame, Read(1, 8), Read(0, 8), PushFrame, PushFrame, Allocate(8), Read(2, 8), Read(1, 8), Read(3, 8)],
        // many frames: ids never come back
        vec![PushFrame, Allocate(2), PopFrame, PushFrame, Allocate(2), PopFrame, PushFrame, Allocate(2), PopFrame, PushFrame, Allocate(2), Read(0, 2), Read(1, 2), Read(2, 2), Read(3, 2)],
        // pointers that were never handed out
        vec![Allocate(4), Read(1, 4), Write(7, vec![1]), OffsetBy(3, 0), Copy(0, 2, 4), Read(0, 4)],
        // zero-sized allocations and empty accesses
        vec![Allocate(0), Read(0, 0), Read(0, 1), Write(0, vec![]), Write(0, vec![1]), OffsetBy(0, 1), Read(1, 0), Read(1, 1), Allocate(3), Read(3, 0), Copy(3, 0, 0), Copy(3, 0, 1)],
    ]
}

fn random_seq(p: &mut Prng) -> Vec<MemOp> {
    let mut ops = vec![];
    let mut nptr = 0usize;
    let n = 20 + p.below(40);
    let sizes = [1usize, 2, 3, 4, 5, 6, 7, 8, 9, 12, 15, 16, 17, 20, 23, 24];
    for _ in 0..n {
        let any = |p: &mut Prng, nptr: usize| if nptr == 0 { 0 } else { p.below(nptr as u64) as usize };
        match p.below(12) {
            0 | 1 => {
                ops.push(MemOp::Allocate(*p.pick(&sizes)));
                nptr += 1;
            }
            2 => ops.push(MemOp::PushFrame),
            3 => ops.push(MemOp::PopFrame),
            4 | 5 if nptr > 0 => {
                ops.push(MemOp::OffsetBy(any(p, nptr), p.below(26) as usize));
                nptr += 1;
            }
            6 | 7 if nptr > 0 => {
                let w = *p.pick(&[1usize, 2, 4, 8, 8, 4]);
                ops.push(MemOp::Write(any(p, nptr), (0..w).map(|_| p.next() as u8).collect()));
            }
            9 if nptr > 0 => ops.push(MemOp::Get(any(p, nptr))),
            8 if nptr > 0 => {
                let n = *p.pick(&[1usize, 2, 4, 8, 12, 16, 3, 24]);
                ops.push(MemOp::Copy(any(p, nptr), any(p, nptr), n));
            }
            _ if nptr > 0 => {
                let w = *p.pick(&[1usize, 2, 4, 8, 16, 12, 3, 0]);
                ops.push(MemOp::Read(any(p, nptr), w));
            }
            _ => {}
        }
    }
    ops
}

/// What kind of access an operation is, for the class key.
fn classify(sh: &Shadow, op: &MemOp, real: &MemOut) -> Option<String> {
    let (kind, p, n) = match op {
        MemOp::Read(p, n) => ("read", *p, *n),
        MemOp::Write(p, b) => ("write", *p, b.len()),
        MemOp::Copy(_, f, n) => ("copy", *f, *n),
        MemOp::Get(p) => ("get", *p, 1),
        _ => return None,
    };
    let outcome = if matches!(real, MemOut::Panic(_)) { "stop" } else { "ok" };
    let d = defect(sh, p, n);
    let (cls, size) = match &d {
        None => ("valid".to_string(), sh.ptrs.get(p).map(|q| sh.frames[q.depth].allocs[q.alloc].len()).unwrap_or(0)),
        Some(d) => (
            d.split(':').next().unwrap_or("?").chars().take(24).collect(),
            sh.ptrs
                .get(p)
                .and_then(|q| sh.frames.get(q.depth).filter(|f| f.uid == q.uid).map(|f| f.allocs[q.alloc].len()))
                .unwrap_or(0),
        ),
    };
    // past-the-end accesses that end inside the next 8-byte boundary are their own class
    let pad = match (&d, sh.ptrs.get(p)) {
        (Some(d), Some(q)) if d.starts_with("out of bounds") && q.off + n <= size.next_multiple_of(8) && size % 8 != 0 => "/within-padding",
        _ => "",
    };
    Some(format!("mem|{kind}|w{n}|size{size}|{cls}{pad}|{outcome}"))
}

/// The operations the failing one depends on: the frame operations before it and the
/// creators of the pointers it uses (renumbered). `None` when the shorter history does
/// not fail in the same way.
fn minimise(ops: &[MemOp], real: &[MemOut], at: usize, key: &str) -> Option<Vec<MemOp>> {
    if key.contains("value") {
        return None;
    }
    // pointer id -> index of the operation that created it
    let mut creator: Vec<usize> = vec![];
    for (i, o) in real.iter().enumerate().take(at) {
        if let MemOut::Ptr(p) = o {
            if *p == creator.len() {
                creator.push(i);
            }
        }
    }
    let uses = |o: &MemOp| -> Vec<usize> {
        match o {
            MemOp::OffsetBy(p, _) | MemOp::Read(p, _) | MemOp::Write(p, _) | MemOp::Get(p) => vec![*p],
            MemOp::Copy(t, f, _) => vec![*t, *f],
            _ => vec![],
        }
    };
    let mut needed: Vec<usize> = vec![];
    let mut todo = uses(&ops[at]);
    while let Some(p) = todo.pop() {
        if p >= creator.len() || needed.contains(&p) {
            continue;
        }
        needed.push(p);
        todo.extend(uses(&ops[creator[p]]));
    }
    needed.sort();
    let renum = |p: usize| needed.iter().position(|q| *q == p).unwrap_or(p);
    let mut out = vec![];
    for (i, o) in ops.iter().enumerate().take(at + 1) {
        let keep = i == at
            || matches!(o, MemOp::PushFrame | MemOp::PopFrame)
            || needed.iter().any(|p| creator[*p] == i);
        if !keep {
            continue;
        }
        out.push(match o {
            MemOp::OffsetBy(p, k) => MemOp::OffsetBy(renum(*p), *k),
            MemOp::Read(p, n) => MemOp::Read(renum(*p), *n),
            MemOp::Write(p, b) => MemOp::Write(renum(*p), b.clone()),
            MemOp::Copy(t, f, n) => MemOp::Copy(renum(*t), renum(*f), *n),
            MemOp::Get(p) => MemOp::Get(renum(*p)),
            other => other.clone(),
        });
    }
    // does it still fail, in the same way, at its last operation?
    let real2 = mem_run(&out);
    let mut sh = Shadow::new();
    for (i, (op, o)) in out.iter().zip(&real2).enumerate() {
        if let Some((k, _)) = sh.step(op, o) {
            return (i + 1 == out.len() && k == key).then_some(out);
        }
    }
    None
}

/// Run one sequence three ways. Returns the index of the first violation.
pub fn check_seq(
    rep: &mut Report,
    drv: Option<&mut Driver>,
    ops: &[MemOp],
    origin: &str,
    reported: &mut std::collections::HashMap<String, usize>,
) -> Option<usize> {
    let real = mem_run(ops);
    let text = show_ops(ops);
    let mut sh = Shadow::new();
    let mut first = None;
    let mut keys_seen: Vec<String> = vec![];
    for (i, (op, out)) in ops.iter().zip(&real).enumerate() {
        rep.evaluations += 1;
        if let Some(c) = classify(&sh, op, out) {
            rep.hist("mem-outcome", c.rsplit('|').take(2).collect::<Vec<_>>().into_iter().rev().collect::<Vec<_>>().join("|"));
            rep.class(c);
        }
        if let Some((key, what)) = sh.step(op, out) {
            if first.is_none() {
                first = Some(i);
            }
            // a few instances per kind of violation are enough (the report is capped)
            let n = reported.entry(key.clone()).or_insert(0);
            if !keys_seen.contains(&key) && *n < 3 {
                *n += 1;
                keys_seen.push(key.clone());
                // a minimal history: what the failing operation depends on
                let upto = match minimise(ops, &real, i, &key) {
                    Some(m) => show_ops(&m),
                    None => show_ops(&ops[..=i]),
                };
                rep.violation(
                    &format!("evaluator memory: {what}"),
                    &key,
                    json!({"case": {"kind": "mem", "ops": upto}, "origin": origin, "at": i,
                           "operation": show_ops(&ops[i..=i]), "real": show_out(out)}),
                );
            }
            // a read leaves the state alone; after anything else the shadow cannot follow an
            // execution it forbids
            if !matches!(op, MemOp::Read(..)) {
                break;
            }
        }
    }
    if let Some(drv) = drv {
        let lean = drv.ask(&format!("c20 mem {text}"));
        let real_s = real.iter().map(show_out).collect::<Vec<_>>().join(" ");
        if lean != real_s {
            let (l, r): (Vec<&str>, Vec<&str>) = (lean.split(' ').collect(), real_s.split(' ').collect());
            let at = l.iter().zip(&r).position(|(a, b)| a != b).unwrap_or(l.len().min(r.len()));
            let n = reported.entry("model".into()).or_insert(0);
            *n += 1;
            if *n <= 5 {
            rep.mismatch(
                "Lean memory model (generated from eval.rs) differs from the real Memory",
                json!({"ops": show_ops(&ops[..ops.len().min(at + 1)]), "at": at,
                       "lean": l.get(at), "real": r.get(at), "origin": origin}),
            );
            }
        }
    }
    first
}

pub fn run(rep: &mut Report, drv: &mut Option<Driver>, seed: u64, thorough: bool) {
    let mut reported = std::collections::HashMap::new();
    let reported = &mut reported;
    for size in 0..=24usize {
        let ops = table_for_size(size);
        check_seq(rep, drv.as_mut(), &ops, &format!("boundary table, allocation of {size} byte(s)"), reported);
    }
    for (i, ops) in frame_tables().into_iter().enumerate() {
        check_seq(rep, drv.as_mut(), &ops, &format!("frame table #{i}"), reported);
    }
    let n = if thorough { 6000 } else { 1000 };
    for idx in 0..n {
        let mut p = Prng::for_case(seed, 2_000_000 + idx);
        let ops = random_seq(&mut p);
        check_seq(rep, drv.as_mut(), &ops, &format!("random sequence (seed {seed}, index {idx})"), reported);
    }
}

pub fn replay(rep: &mut Report, ops_text: &str) {
    let ops = parse_ops(ops_text);
    let real = mem_run(&ops);
    for (o, r) in ops.iter().zip(&real) {
        println!("{:<24} -> {}", show_ops(std::slice::from_ref(o)), show_out(r));
    }
    check_seq(rep, None, &ops, "replay", &mut std::collections::HashMap::new());
}
