//! C20, class `flow`: control flow and memory of whole programs.
//!
//!  * `match` over enums of 3..9 variants (payload-free and with payloads,
//!    exhaustive and with `_`), arms in a shuffled order, evaluated for EVERY
//!    variant: evaluator vs JIT on the same lowered IR. The branch table of a
//!    `match` comes out of a hash map, so every program is compiled several
//!    times, in several processes; and on top of that the evaluator is run on
//!    the same IR with the table of every `Switch` reordered through the hook
//!    (ascending, descending, rotated, swapped, interleaved) — the compiled
//!    code does not depend on the order, so neither may the evaluator.
//!  * calls: arguments passed in permuted positions, nested calls, calls in
//!    arms, results written to different places.
//!  * straight-line record programs whose lowered IR is perturbed through the
//!    hook so that ONE access ends past the end of its stack slot (offset
//!    moved to the last aligned position that does not fit; a read widened
//!    beyond the slot): the access is executed for certain, so the evaluator
//!    must stop loudly. Slot sizes 1..24, in particular sizes that are not a
//!    multiple of 8 where the access still ends inside the next 8-byte
//!    boundary.

#[path = "shadow.rs"]
pub mod shadow;

use roto::verif_hooks::c20::Perturb;
use roto::verif_hooks::core::lower_to_mir;
use roto::{FileTree, Runtime};
use rotov_harness::scalar::*;
use rotov_harness::{Prng, Report};
use serde_json::{Value, json};

pub struct FlowCase {
    pub kind: &'static str,
    pub src: String,
    pub ty: STy,
    pub arity: usize,
    pub ret: STy,
    pub inputs: Vec<Vec<u64>>,
}

fn shuffle<T>(p: &mut Prng, xs: &mut [T]) {
    for i in (1..xs.len()).rev() {
        let j = p.below(i as u64 + 1) as usize;
        xs.swap(i, j);
    }
}

/// `match` over an enum with `n` variants.
fn match_program(p: &mut Prng, n: usize, payload: bool, wildcard: bool, tag: u64) -> FlowCase {
    // payload arity per variant
    let arity: Vec<usize> = (0..n).map(|i| if payload { [0, 1, 2, 1][(i + tag as usize) % 4] } else { 0 }).collect();
    let name = format!("E{tag}");
    let mut src = format!("enum {name} {{\n");
    for (i, a) in arity.iter().enumerate() {
        src += &match a {
            0 => format!("    V{i},\n"),
            1 => format!("    V{i}(u32),\n"),
            _ => format!("    V{i}(u32, u32),\n"),
        };
    }
    src += "}\n\n";
    src += &format!("fn mk(x: u32) -> {name} {{\n    ");
    for (i, a) in arity.iter().enumerate() {
        let ctor = match a {
            0 => format!("{name}.V{i}"),
            1 => format!("{name}.V{i}(x + {})", 100 * (i + 1)),
            _ => format!("{name}.V{i}(x + {}, {})", 100 * (i + 1), 7 * (i + 1)),
        };
        if i + 1 < n {
            src += &format!("if x == {i} {{ {ctor} }} else ");
        } else {
            src += &format!("{{ {ctor} }}\n");
        }
    }
    src += "}\n\n";
    // which variants get their own arm
    let mut order: Vec<usize> = (0..n).collect();
    shuffle(p, &mut order);
    let matched = if wildcard { 2 + p.below(n as u64 - 2) as usize } else { n };
    src += "fn main(x: u32) -> u32 {\n    match mk(x) {\n";
    for &i in order.iter().take(matched) {
        src += &match arity[i] {
            0 => format!("        V{i} => {},\n", 10 + i),
            1 => format!("        V{i}(a) => a + {},\n", 1000 * (i + 1)),
            _ => format!("        V{i}(a, b) => a * 2 + b + {},\n", 1000 * (i + 1)),
        };
    }
    if wildcard {
        src += "        _ => 999999,\n";
    }
    src += "    }\n}\n";
    FlowCase {
        kind: "match",
        src,
        ty: STy::U32,
        arity: 1,
        ret: STy::U32,
        inputs: (0..=n as u64).map(|x| vec![x]).collect(),
    }
}

/// Calls with permuted arguments, nested, inside arms.
fn call_program(p: &mut Prng, tag: u64) -> FlowCase {
    let vars = ["a", "b", "c"];
    let perm = |p: &mut Prng| {
        let mut v = vars.to_vec();
        shuffle(p, &mut v);
        v
    };
    let (p1, p2, p3, p4) = (perm(p), perm(p), perm(p), perm(p));
    let k = 2 + p.below(7);
    let src = format!(
        "fn f(a: u32, b: u32, c: u32) -> u32 {{\n    a * 100 + b * 10 + c\n}}\n\n\
         fn g(a: u32, b: u32, c: u32) -> u32 {{\n    if a < b {{ f({}, {}, {}) }} else {{ f({}, {}, {}) + {k} }}\n}}\n\n\
         fn h(a: u32, b: u32, c: u32) -> u32 {{\n    let t = g({}, {}, {});\n    let u = f(t % 10, c, {});\n    t * 1000 + u\n}}\n\n\
         fn main(a: u32, b: u32, c: u32) -> u32 {{\n    h({}, {}, {}) + f(c, b, a) * 1000000\n}}\n",
        p1[0], p1[1], p1[2], p2[0], p2[1], p2[2], p3[0], p3[1], p3[2], p3[0], p4[0], p4[1], p4[2],
    );
    let _ = tag;
    let mut inputs = vec![vec![1, 2, 3], vec![3, 2, 1], vec![0, 0, 0], vec![2, 2, 9], vec![9, 0, 4]];
    for _ in 0..3 {
        inputs.push(vec![p.below(10), p.below(10), p.below(10)]);
    }
    FlowCase { kind: "call", src, ty: STy::U32, arity: 3, ret: STy::U32, inputs }
}

/// Straight-line record program: build a record, read one field back.
fn record_program(p: &mut Prng, tag: u64) -> FlowCase {
    let tys = [
        STy::U8, STy::U16, STy::U32, STy::U64, STy::I8, STy::I16, STy::I32, STy::I64, STy::Bool, STy::F32, STy::F64,
    ];
    // a deterministic sweep of small shapes first (slot sizes 1..24), random afterwards
    let shapes: [&[STy]; 16] = [
        &[STy::U8],
        &[STy::U8, STy::U8],
        &[STy::U8, STy::U8, STy::U8],
        &[STy::U16, STy::U8],
        &[STy::U8, STy::U8, STy::U8, STy::U8, STy::U8],
        &[STy::U16, STy::U16, STy::U16],
        &[STy::U32],
        &[STy::U32, STy::U8],
        &[STy::U32, STy::U32, STy::U32],
        &[STy::U32, STy::U16, STy::U16, STy::U32, STy::U16],
        &[STy::U64, STy::U32],
        &[STy::U64, STy::U8],
        &[STy::U64, STy::U64, STy::U32],
        &[STy::U64, STy::U64, STy::U8],
        &[STy::U32, STy::U32, STy::U32, STy::U32, STy::U32],
        &[STy::U16, STy::U64, STy::U16],
    ];
    let fields: Vec<STy> = if (tag as usize) < shapes.len() {
        shapes[tag as usize].to_vec()
    } else {
        (0..1 + p.below(5)).map(|_| *p.pick(&tys)).collect()
    };
    let sel = if (tag as usize) < shapes.len() { fields.len() - 1 } else { p.below(fields.len() as u64) as usize };
    let ty = fields[sel];
    let names = ["a", "b", "c", "d", "e", "f"];
    let mut lits = vec![];
    for (i, f) in fields.iter().enumerate() {
        if i == sel {
            lits.push(format!("{}: x", names[i]));
        } else {
            let bits = match f {
                STy::F32 => (1.5f32 + i as f32).to_bits() as u64,
                STy::F64 => (1.5f64 + i as f64).to_bits(),
                STy::Bool => (i % 2) as u64,
                _ => 1 + i as u64 * 3,
            };
            lits.push(format!("{}: {}", names[i], f.literal(bits)));
        }
    }
    // read another field as well when there is one of the same type, so that more than one
    // access is in the block
    let src = format!(
        "fn main(x: {t}) -> {t} {{\n    let r = {{ {} }};\n    r.{}\n}}\n",
        lits.join(", "),
        names[sel],
        t = ty.name()
    );
    FlowCase { kind: "record", src, ty, arity: 1, ret: ty, inputs: vec![vec![1], vec![ty.mask() & 0x55]] }
}

pub const MATCH_SHAPES: u64 = 7 * 2 * 2; // n in 3..=9 × payload × wildcard
pub const MATCH_REPEATS: u64 = 4;
pub const CALLS: u64 = 12;
pub const RECORDS: u64 = 48;
/// random block-structured programs: the deliberate shadowing stream, then mostly-unique names
pub const SHADOW_STREAM: u64 = 60;
pub const BLOCKS_STREAM: u64 = 30;

pub fn total(thorough: bool) -> u64 {
    let k = if thorough { 8 } else { 1 };
    shadow::REPS + MATCH_SHAPES * MATCH_REPEATS * k + CALLS * k + RECORDS * k + (SHADOW_STREAM + BLOCKS_STREAM) * k
}

pub fn case_for(seed: u64, idx: u64, thorough: bool) -> FlowCase {
    let k = if thorough { 8 } else { 1 };
    // class representatives first, independent of the seed
    if idx < shadow::REPS {
        return shadow::rep(idx);
    }
    let idx = idx - shadow::REPS;
    let mut p = Prng::for_case(seed, 3_000_000 + idx);
    let nm = MATCH_SHAPES * MATCH_REPEATS * k;
    let before_streams = nm + CALLS * k + RECORDS * k;
    if idx >= before_streams {
        return shadow::random(&mut p, idx - before_streams < SHADOW_STREAM * k);
    }
    if idx < nm {
        let s = idx % MATCH_SHAPES;
        let n = 3 + (s % 7) as usize;
        let payload = (s / 7) % 2 == 1;
        let wildcard = (s / 14) % 2 == 1;
        match_program(&mut p, n, payload, wildcard, idx)
    } else if idx < nm + CALLS * k {
        call_program(&mut p, idx - nm)
    } else {
        record_program(&mut p, idx - nm - CALLS * k)
    }
}

/// A few instances per kind of violation and process are enough (the report is capped).
fn allow(key: &str) -> bool {
    use std::collections::HashMap;
    use std::sync::Mutex;
    static COUNTS: Mutex<Option<HashMap<String, usize>>> = Mutex::new(None);
    let mut g = COUNTS.lock().unwrap();
    let n = g.get_or_insert_with(HashMap::new).entry(key.to_string()).or_insert(0);
    *n += 1;
    *n <= 4
}

fn perturb_name(p: &Perturb) -> String {
    match p {
        Perturb::None => "none".into(),
        Perturb::SwitchOrder(k) => format!("switch:{k}"),
        Perturb::Oob(n) => format!("oob:{n}"),
    }
}

pub fn parse_perturb(s: &str) -> Perturb {
    if let Some(k) = s.strip_prefix("switch:") {
        Perturb::SwitchOrder(k.parse().expect("switch mode"))
    } else if let Some(n) = s.strip_prefix("oob:") {
        Perturb::Oob(n.parse().expect("site index"))
    } else {
        Perturb::None
    }
}

type EvalOut = Result<Option<(String, u64)>, String>;

fn conv(r: Result<Option<roto::verif_hooks::core::HookVal>, String>) -> EvalOut {
    r.map(|o| {
        o.map(|v| {
            let (t, b) = hook_bits(&v);
            (t.to_string(), b)
        })
    })
}

/// Everything one compilation of `case` shows. `only`: restrict to one
/// (input, perturbation) — replay.
pub fn check_case(
    rep: &mut Report,
    case: &FlowCase,
    origin: Value,
    only: Option<(&[u64], &Perturb)>,
    drv: Option<&mut rotov_harness::driver::Driver>,
) {
    let rt: &'static Runtime<roto::NoCtx> = Box::leak(Box::new(Runtime::new()));
    let tree = FileTree::test_file("c20.roto", &case.src, 0);
    let mut lir = match lower_to_mir(tree, rt) {
        Ok(m) => m.lower_to_lir(),
        Err(e) => {
            rep.mismatch("generated program does not compile", json!({"src": case.src, "error": format!("{e}"), "origin": origin}));
            return;
        }
    };
    let tables = lir.switch_tables();
    for t in &tables {
        if t.len() >= 2 {
            let sorted = t.windows(2).all(|w| w[0] < w[1]);
            rep.hist("switch-table", format!("{} entries, {}", t.len(), if sorted { "ascending" } else { "not ascending" }));
        }
    }
    // the branch tables the compiler really produced, through the GENERATED Switch arm and the
    // Cranelift model in Lean: first entry with the key / default, on both sides
    if let Some(drv) = drv {
        for t in tables.iter().filter(|t| !t.is_empty()) {
            let tbl = t.iter().enumerate().map(|(i, k)| format!("{k}:{i}")).collect::<Vec<_>>().join(",");
            let top = t.iter().max().copied().unwrap_or(0) + 1;
            let reqs: Vec<String> = (0..=top).map(|x| format!("c20 switch {x} 9999 {tbl}")).collect();
            for (x, ans) in drv.ask_all(&reqs).into_iter().enumerate() {
                rep.evaluations += 1;
                let want = t.iter().position(|k| *k == x).map(|i| i.to_string()).unwrap_or("9999".into());
                let dup = (1..t.len()).any(|i| t[..i].contains(&t[i]));
                let expect = format!("{want} {}", if dup { "dup".to_string() } else { want.clone() });
                if ans != expect {
                    rep.mismatch(
                        "Lean Switch arms (generated evaluator arm / Cranelift model) do not take the first entry with the key on a table the compiler produced",
                        json!({"table": t, "x": x, "lean": ans, "expected": expect, "src": case.src}),
                    );
                }
            }
        }
    }
    let sites = lir.oob_sites();
    let mut perturbs = vec![Perturb::None];
    if tables.iter().any(|t| t.len() >= 2) {
        perturbs.extend((0..5).map(Perturb::SwitchOrder));
    }
    // (input, perturbation, evaluator outcome)
    let mut evals: Vec<(Vec<u64>, Perturb, EvalOut)> = vec![];
    for inp in &case.inputs {
        let args: Vec<_> = inp.iter().map(|b| case.ty.hook(*b)).collect();
        for pt in &perturbs {
            if let Some((i, p)) = only {
                if i != &inp[..] || p != pt {
                    continue;
                }
            }
            let r = conv(lir.eval_main_perturbed(&args, pt));
            evals.push((inp.clone(), pt.clone(), r));
        }
        // an access pushed past the end of its slot, executed for certain: must stop loudly
        for (n, s) in sites.iter().enumerate() {
            let pt = Perturb::Oob(n);
            if let Some((i, p)) = only {
                if i != &inp[..] || p != &pt {
                    continue;
                }
            }
            if !(s.in_entry_block && s.blocks == 1) {
                continue;
            }
            rep.evaluations += 1;
            let r = conv(lir.eval_main_perturbed(&args, &pt));
            let end = s.new_offset + s.new_access_size;
            let pad = if s.slot_size % 8 != 0 && end <= s.slot_size.next_multiple_of(8) { "/within-padding" } else { "" };
            let outcome = if r.is_err() { "stop" } else { "COMPLETED" };
            rep.class(format!("oob-ir|{}|slot{}|w{}{pad}|{outcome}", s.kind, s.slot_size, s.new_access_size));
            rep.hist("oob-ir", format!("{}{pad}|{outcome}", s.kind));
            if let (Ok(v), true) = (&r, r.is_err() || allow(&format!("oob-ir {}{pad}", s.kind))) {
                rep.violation(
                    &format!(
                        "evaluator completed (with {v:?}) on IR whose {}-byte access at offset {} ends past its {}-byte stack slot",
                        s.new_access_size, s.new_offset, s.slot_size
                    ),
                    &format!("oob-ir {}{pad}", s.kind),
                    json!({"case": {"kind": "flow", "src": case.src, "ty": case.ty.name(), "ret": case.ret.name(),
                                    "args": inp, "perturb": perturb_name(&pt)},
                           "site": format!("{s:?}"), "origin": origin}),
                );
            }
        }
    }
    if evals.is_empty() {
        return;
    }
    let mut pkg = lir.codegen();
    let f = match get_main(&mut pkg, case.ty, case.arity, case.ret) {
        Ok(f) => f,
        Err(e) => {
            rep.mismatch("generated program has no callable main", json!({"src": case.src, "error": e}));
            return;
        }
    };
    let mut agree = 0;
    for (inp, pt, ev) in evals {
        rep.evaluations += 1;
        let outcome = match &ev {
            Err(_) => "eval-panic",
            Ok(None) => "eval-none",
            Ok(Some((t, b))) => {
                let j = f(&inp);
                if canon(t, *b) == canon(t, j) {
                    agree += 1;
                    "agree"
                } else {
                    let what = match pt {
                        Perturb::None => "evaluator completed with a value different from the JIT's".to_string(),
                        _ => format!(
                            "evaluator completed with a value different from the JIT's once the branch tables were reordered ({}): its Switch depends on the order of the table, compiled code does not",
                            perturb_name(&pt)
                        ),
                    };
                    let key = format!("flow {}{}", case.kind, if pt == Perturb::None { "" } else { " switch-order" });
                    if allow(&key) {
                    rep.violation(
                        &what,
                        &key,
                        json!({"case": {"kind": "flow", "src": case.src, "ty": case.ty.name(), "ret": case.ret.name(),
                                        "args": inp, "perturb": perturb_name(&pt)},
                               "eval": [t, b], "jit": j, "switch_tables": tables, "origin": origin}),
                    );
                    }
                    "DISAGREE"
                }
            }
        };
        rep.hist("outcome", outcome);
        rep.hist("flow", format!("{}|{}|{outcome}", case.kind, perturb_name(&pt)));
    }
    if agree > 0 {
        rep.class(format!("prog:{}", case.src));
    }
}

pub fn run(rep: &mut Report, seed: u64, thorough: bool, from: u64, n: u64) {
    let mut drv = rotov_harness::driver::Driver::spawn().ok();
    if let Some(d) = drv.as_mut() {
        if d.ask("c20 switch 1 9 1:0") != "0 0" {
            rep.mismatch("Lean driver does not answer `c20 switch` requests (stale or failed build)", json!({}));
            drv = None;
        }
    }
    for idx in from..from + n {
        println!("START {idx}");
        let case = case_for(seed, idx, thorough);
        check_case(rep, &case, json!({"seed": seed, "index": idx, "tier": if thorough { "thorough" } else { "quick" }}), None, drv.as_mut());
        if idx % 29 == 0 {
            rep.sample(json!({"flow": case.kind, "src": case.src}));
        }
    }
}
