//! C02: generated type environments (record / enum declarations, generic or
//! not, nested, with fields of every scalar width, `()`, `!`, String, List,
//! Option / Result / Verdict, IpAddr / Prefix and registered host types).
use rotov_harness::Prng;

#[derive(Clone, Debug, PartialEq)]
pub enum T {
    Unit,
    Never,
    Bool,
    Int(bool, u8), // signed, bits
    F32,
    F64,
    Char,
    Asn,
    Str,
    IpAddr,
    Prefix,
    /// registered host types: Big (Clone, 24 bytes), Pt (Copy, 3 bytes, align 1), Z (Copy, zero-sized), Zc (Clone, zero-sized)
    Host(&'static str),
    List(Box<T>),
    Opt(Box<T>),
    Res(Box<T>, Box<T>),
    Verdict(Box<T>, Box<T>),
    /// declared type `idx` instantiated with these arguments
    Named(usize, Vec<T>),
    /// type parameter `T` / `U` (only inside a generic declaration)
    Param(usize),
}

#[derive(Clone, Debug)]
pub enum Decl {
    Record { name: String, generic: usize, fields: Vec<(String, T)> },
    Enum { name: String, generic: usize, variants: Vec<(String, Vec<T>)> },
}

impl Decl {
    pub fn name(&self) -> &str {
        match self {
            Decl::Record { name, .. } | Decl::Enum { name, .. } => name,
        }
    }
    /// number of type parameters
    pub fn nparams(&self) -> usize {
        match self {
            Decl::Record { generic, .. } | Decl::Enum { generic, .. } => *generic,
        }
    }
    pub fn generic(&self) -> bool {
        self.nparams() > 0
    }
}

pub struct Env {
    pub decls: Vec<Decl>,
}

impl T {
    pub fn src(&self, env: &Env) -> String {
        match self {
            T::Unit => "()".into(),
            T::Never => "!".into(),
            T::Bool => "bool".into(),
            T::Int(s, b) => format!("{}{}", if *s { "i" } else { "u" }, b),
            T::F32 => "f32".into(),
            T::F64 => "f64".into(),
            T::Char => "char".into(),
            T::Asn => "Asn".into(),
            T::Str => "String".into(),
            T::IpAddr => "IpAddr".into(),
            T::Prefix => "Prefix".into(),
            T::Host(n) => n.to_string(),
            T::List(t) => format!("List[{}]", t.src(env)),
            T::Opt(t) => format!("Option[{}]", t.src(env)),
            T::Res(a, b) => format!("Result[{}, {}]", a.src(env), b.src(env)),
            T::Verdict(a, b) => format!("Verdict[{}, {}]", a.src(env), b.src(env)),
            T::Named(i, args) => {
                let d = &env.decls[*i];
                if d.generic() {
                    format!("{}[{}]", d.name(), args.iter().map(|a| a.src(env)).collect::<Vec<_>>().join(", "))
                } else {
                    d.name().to_string()
                }
            }
            T::Param(i) => ["T", "U"][*i].into(),
        }
    }

    pub fn subst(&self, arg: &[T]) -> T {
        match self {
            T::Param(i) => arg.get(*i).cloned().unwrap_or(T::Param(*i)),
            T::List(t) => T::List(Box::new(t.subst(arg))),
            T::Opt(t) => T::Opt(Box::new(t.subst(arg))),
            T::Res(a, b) => T::Res(Box::new(a.subst(arg)), Box::new(b.subst(arg))),
            T::Verdict(a, b) => T::Verdict(Box::new(a.subst(arg)), Box::new(b.subst(arg))),
            T::Named(i, args) => T::Named(*i, args.iter().map(|a| a.subst(arg)).collect()),
            other => other.clone(),
        }
    }

    /// does a value of this type exist?
    #[allow(dead_code)]
    pub fn inhabited(&self, env: &Env) -> bool {
        match self {
            T::Never => false,
            T::Opt(_) | T::List(_) => true,
            T::Res(a, b) | T::Verdict(a, b) => a.inhabited(env) || b.inhabited(env),
            T::Named(i, args) => match &env.decls[*i] {
                Decl::Record { fields, .. } => fields.iter().all(|(_, t)| {
                    let t = t.subst(args);
                    t.inhabited(env)
                }),
                Decl::Enum { variants, .. } => variants.iter().any(|(_, ts)| {
                    ts.iter().all(|t| {
                        let t = t.subst(args);
                        t.inhabited(env)
                    })
                }),
            },
            T::Param(_) => true,
            _ => true,
        }
    }

    #[allow(dead_code)]
    pub fn has_never(&self, env: &Env) -> bool {
        match self {
            T::Never => true,
            T::List(t) | T::Opt(t) => t.has_never(env),
            T::Res(a, b) | T::Verdict(a, b) => a.has_never(env) || b.has_never(env),
            T::Named(i, args) => {
                args.iter().any(|a| a.has_never(env))
                    || match &env.decls[*i] {
                        Decl::Record { fields, .. } => fields.iter().any(|(_, t)| t.has_never(env)),
                        Decl::Enum { variants, .. } => {
                            variants.iter().any(|(_, ts)| ts.iter().any(|t| t.has_never(env)))
                        }
                    }
            }
            _ => false,
        }
    }
}

pub const SCALARS: &[T] = &[
    T::Bool,
    T::Int(false, 8),
    T::Int(false, 16),
    T::Int(false, 32),
    T::Int(false, 64),
    T::Int(true, 8),
    T::Int(true, 16),
    T::Int(true, 32),
    T::Int(true, 64),
];

pub struct GenOpts {
    /// allow `!`, floats, char, Asn, IpAddr, Prefix, host types (layout run);
    /// the behavioural run keeps to types whose values it can build and print
    pub exotic: bool,
    /// registered host types `Big` (Clone) and `Pt` (Copy), and f32 / f64 /
    /// char / Asn / IpAddr / Prefix as leaves (behavioural run)
    pub host: bool,
}

pub fn gen_type(p: &mut Prng, env: &Env, depth: u32, in_generic: usize, o: &GenOpts) -> T {
    let r = p.below(100);
    if depth == 0 || r < 42 {
        // leaves
        let r = p.below(100);
        return if r < 50 {
            p.pick(SCALARS).clone()
        } else if r < 58 {
            T::Unit
        } else if r < 70 {
            T::Str
        } else if r < 78 && in_generic > 0 {
            T::Param(p.below(in_generic as u64) as usize)
        } else if o.host && p.chance(2, 3) {
            match p.below(8) {
                0 => T::Host("Big"),
                1 => T::Host("Pt"),
                2 => T::F32,
                3 => T::F64,
                4 => T::Char,
                5 => T::Asn,
                6 => T::IpAddr,
                _ => T::Prefix,
            }
        } else if o.exotic {
            match p.below(12) {
                0 => T::Never,
                1 => T::F32,
                2 => T::F64,
                3 => T::Char,
                4 => T::Asn,
                5 => T::IpAddr,
                6 => T::Prefix,
                7 => T::Host("Big"),
                8 => T::Host("Pt"),
                9 => T::Host("Z"),
                10 => T::Host("Zc"),
                _ => p.pick(SCALARS).clone(),
            }
        } else {
            p.pick(SCALARS).clone()
        };
    }
    let d = depth - 1;
    if r < 52 {
        // lists of simple things
        let inner = match p.below(5) {
            0 => T::Str,
            4 if !o.exotic => T::List(Box::new(p.pick(SCALARS).clone())),
            1 if !env.decls.is_empty() => named(p, env, d, in_generic, o),
            _ => p.pick(SCALARS).clone(),
        };
        T::List(Box::new(inner))
    } else if r < 64 {
        T::Opt(Box::new(gen_type(p, env, d, in_generic, o)))
    } else if r < 70 {
        T::Res(Box::new(gen_type(p, env, d, in_generic, o)), Box::new(gen_type(p, env, d, in_generic, o)))
    } else if r < 75 {
        T::Verdict(Box::new(gen_type(p, env, d, in_generic, o)), Box::new(gen_type(p, env, d, in_generic, o)))
    } else if !env.decls.is_empty() {
        named(p, env, d, in_generic, o)
    } else {
        p.pick(SCALARS).clone()
    }
}

fn named(p: &mut Prng, env: &Env, depth: u32, in_generic: usize, o: &GenOpts) -> T {
    let i = p.below(env.decls.len() as u64) as usize;
    if env.decls[i].generic() {
        // instantiate by substitution with small types
        let args = (0..env.decls[i].nparams()).map(|_| gen_type(p, env, depth.min(1), in_generic, o)).collect();
        T::Named(i, args)
    } else {
        T::Named(i, vec![])
    }
}

const FIELD_NAMES: &[&str] = &["a", "b", "c", "d", "e", "f", "g", "h", "i", "j"];

pub fn gen_env(p: &mut Prng, n_decls: usize, o: &GenOpts) -> Env {
    let mut env = Env { decls: vec![] };
    for i in 0..n_decls {
        let generic: usize = match p.below(16) {
            0..=2 => 1,
            3 => 2,
            _ => 0,
        };
        let is_record = p.chance(1, 2);
        let decl = if is_record {
            let n = 1 + p.below(5) as usize + if p.chance(1, 6) { 5 } else { 0 };
            let fields = (0..n.min(10))
                .map(|k| (FIELD_NAMES[k].to_string(), gen_type(p, &env, 2, generic, o)))
                .collect();
            Decl::Record { name: format!("R{i}"), generic, fields }
        } else {
            // up to 7 variants (a tag computed modulo a small number must show)
            let nv = if p.chance(1, 5) { 5 + p.below(3) as usize } else { 1 + p.below(4) as usize };
            let variants = (0..nv)
                .map(|v| {
                    let nf = match p.below(8) {
                        0 | 1 => 0,
                        2 | 3 => 1,
                        4 => 2,
                        5 => 3,
                        6 => 4,
                        _ => 5,
                    };
                    let ts = (0..nf).map(|_| gen_type(p, &env, 2, generic, o)).collect();
                    (format!("V{i}x{v}"), ts)
                })
                .collect();
            Decl::Enum { name: format!("E{i}"), generic, variants }
        };
        env.decls.push(decl);
    }
    env
}

pub fn decl_src(env: &Env) -> String {
    let mut s = String::new();
    for d in &env.decls {
        match d {
            Decl::Record { name, generic, fields } => {
                s += &format!("record {name}{} {{\n", ["", "[T]", "[T, U]"][*generic]);
                for (f, t) in fields {
                    s += &format!("    {f}: {},\n", t.src(env));
                }
                s += "}\n";
            }
            Decl::Enum { name, generic, variants } => {
                s += &format!("enum {name}{} {{\n", ["", "[T]", "[T, U]"][*generic]);
                for (v, ts) in variants {
                    if ts.is_empty() {
                        s += &format!("    {v},\n");
                    } else {
                        s += &format!(
                            "    {v}({}),\n",
                            ts.iter().map(|t| t.src(env)).collect::<Vec<_>>().join(", ")
                        );
                    }
                }
                s += "}\n";
            }
        }
    }
    s
}
