//! C02, phase `ctor`: translation validation of the lowering of constructors.
//!
//! Programs of the source core of `RotoV.Model.ValueCtor` (reads of variables /
//! field paths / nested paths / whole records, record constructors nested to
//! any depth, `+`, blocks `{ x.p = rhs; rest }` that write to a variable before
//! they yield a value — preferably in a LATER component of a constructor whose
//! EARLIER component read that variable) are printed as Roto source. The real
//! lowerer's MIR of each (`verif_hooks::core::lower_to_mir(..).text()`) is
//! parsed into the instruction list of the Lean model and handed to the driver
//! (`c02 ctor …`), which runs THAT list with the model's MIR semantics and
//! compares with the value-semantics spec `eval`:
//!   * the value returned or the final store differs = the compiled function
//!     computes another value than value semantics prescribes (violation
//!     `value-semantics-mir`, the script and the store are the failing input);
//!   * the instruction list is also compared, instruction for instruction, with
//!     the one `lowerBody true` (the model theorem T8 is about) produces —
//!     measured in the histogram `ctor_lowering_shape`.
use roto::{FileTree, NoCtx, Runtime};
use rotov_harness::driver::Driver;
use rotov_harness::{Prng, Report};
use serde_json::{Value, json};

#[derive(Clone, Debug, PartialEq)]
pub enum Sh {
    Int,
    Rec(Vec<Sh>),
}

#[derive(Clone, Debug)]
pub enum CE {
    Lit(i64),
    Read(usize, Vec<usize>),
    /// components; `true` = written as an anonymous literal `{ f0: …, … }`
    Ctor(Vec<CE>, bool),
    Add(Box<CE>, Box<CE>),
    /// `{ x.p = rhs; rest }`; `true` = written `x.p += e` (rhs is `x.p + e`)
    Blk(usize, Vec<usize>, Box<CE>, Box<CE>, bool),
}

pub struct Prog {
    pub params: Vec<Sh>,
    pub result: Sh,
    pub e: CE,
    pub sig: String,
}

fn sub_shape<'a>(sh: &'a Sh, p: &[usize]) -> Option<&'a Sh> {
    let mut s = sh;
    for k in p {
        match s {
            Sh::Rec(fs) => s = fs.get(*k)?,
            Sh::Int => return None,
        }
    }
    Some(s)
}

/// all (path, shape) below a shape, the empty path included
fn paths(sh: &Sh) -> Vec<(Vec<usize>, Sh)> {
    let mut out = vec![(vec![], sh.clone())];
    if let Sh::Rec(fs) = sh {
        for (k, f) in fs.iter().enumerate() {
            for (p, s) in paths(f) {
                let mut q = vec![k];
                q.extend(p);
                out.push((q, s));
            }
        }
    }
    out
}

struct Names {
    shapes: Vec<Sh>,
}

impl Names {
    fn name(&mut self, sh: &Sh) -> String {
        match sh {
            Sh::Int => "u32".into(),
            Sh::Rec(fs) => {
                for f in fs {
                    self.name(f);
                }
                if let Some(i) = self.shapes.iter().position(|s| s == sh) {
                    return format!("S{i}");
                }
                self.shapes.push(sh.clone());
                format!("S{}", self.shapes.len() - 1)
            }
        }
    }
}

fn place_src(x: usize, p: &[usize]) -> String {
    let mut s = format!("x{x}");
    for k in p {
        s += &format!(".f{k}");
    }
    s
}

fn expr_src(e: &CE, sh: &Sh, params: &[Sh], names: &mut Names) -> String {
    match e {
        CE::Lit(v) => v.to_string(),
        CE::Read(x, p) => place_src(*x, p),
        CE::Ctor(cs, anon) => {
            let Sh::Rec(fs) = sh else { unreachable!() };
            let body = cs
                .iter()
                .zip(fs)
                .enumerate()
                .map(|(k, (c, f))| format!("f{k}: {}", expr_src(c, f, params, names)))
                .collect::<Vec<_>>()
                .join(", ");
            if *anon { format!("{{ {body} }}") } else { format!("{} {{ {body} }}", names.name(sh)) }
        }
        CE::Add(a, b) => format!("({} + {})", expr_src(a, &Sh::Int, params, names), expr_src(b, &Sh::Int, params, names)),
        CE::Blk(x, p, rhs, rest, compound) => {
            let psh = sub_shape(&params[*x], p).expect("path").clone();
            let r = expr_src(rest, sh, params, names);
            match (&**rhs, compound) {
                (CE::Add(_, inc), true) => {
                    format!("{{ {} += {}; {r} }}", place_src(*x, p), expr_src(inc, &Sh::Int, params, names))
                }
                _ => format!("{{ {} = {}; {r} }}", place_src(*x, p), expr_src(rhs, &psh, params, names)),
            }
        }
    }
}

pub fn source(pr: &Prog) -> String {
    let mut names = Names { shapes: vec![] };
    let ps: Vec<String> = pr.params.iter().enumerate().map(|(i, s)| format!("x{i}: {}", names.name(s))).collect();
    let rt = names.name(&pr.result);
    let body = expr_src(&pr.e, &pr.result, &pr.params, &mut names);
    let mut s = String::new();
    for (i, sh) in names.shapes.clone().iter().enumerate() {
        let Sh::Rec(fs) = sh else { unreachable!() };
        s += &format!("record S{i} {{\n");
        for (k, f) in fs.iter().enumerate() {
            s += &format!("    f{k}: {},\n", names.name(f));
        }
        s += "}\n";
    }
    s + &format!("fn main({}) -> {rt} {{\n    {body}\n}}\n", ps.join(", "))
}

fn expr_tokens(e: &CE, out: &mut Vec<String>) {
    match e {
        CE::Lit(v) => out.extend(["l".into(), v.to_string()]),
        CE::Read(x, p) => {
            out.extend(["r".into(), x.to_string(), p.len().to_string()]);
            out.extend(p.iter().map(|k| k.to_string()));
        }
        CE::Ctor(cs, _) => {
            out.extend(["c".into(), cs.len().to_string()]);
            for c in cs {
                expr_tokens(c, out);
            }
        }
        CE::Add(a, b) => {
            out.push("a".into());
            expr_tokens(a, out);
            expr_tokens(b, out);
        }
        CE::Blk(x, p, rhs, rest, _) => {
            out.extend(["b".into(), x.to_string(), p.len().to_string()]);
            out.extend(p.iter().map(|k| k.to_string()));
            expr_tokens(rhs, out);
            expr_tokens(rest, out);
        }
    }
}

/// a value of a shape whose leaves are all different: leaf `i` holds `base + step * i`
fn value_tokens(sh: &Sh, next: &mut i64, step: i64, out: &mut Vec<String>) {
    match sh {
        Sh::Int => {
            out.extend(["i".into(), next.to_string()]);
            *next += step;
        }
        Sh::Rec(fs) => {
            out.extend(["t".into(), fs.len().to_string()]);
            for f in fs {
                value_tokens(f, next, step, out);
            }
        }
    }
}

// ------------------------------------------------------------ the real MIR

fn parse_var(s: &str) -> Option<String> {
    if let Some(k) = s.strip_prefix('$') {
        return k.parse::<u64>().ok().map(|k| format!("t {k}"));
    }
    s.strip_prefix('x').and_then(|k| k.parse::<u64>().ok()).map(|k| format!("u {k}"))
}

fn parse_place(s: &str) -> Option<(String, Vec<u64>)> {
    let mut it = s.split('.');
    let v = parse_var(it.next()?)?;
    let mut p = vec![];
    for f in it {
        p.push(f.strip_prefix('f')?.parse::<u64>().ok()?);
    }
    Some((v, p))
}

fn place_tokens(pl: &(String, Vec<u64>)) -> String {
    let mut s = format!("{} {}", pl.0, pl.1.len());
    for k in &pl.1 {
        s += &format!(" {k}");
    }
    s
}

fn show_var(v: &str) -> String {
    match v.split_once(' ') {
        Some(("t", k)) => format!("${k}"),
        Some((_, k)) => format!("x{k}"),
        None => v.to_string(),
    }
}

fn show_place(pl: &(String, Vec<u64>)) -> String {
    let mut s = show_var(&pl.0);
    for k in &pl.1 {
        s += &format!(".{k}");
    }
    s
}

/// the body of `main` in the MIR text: (instruction tokens, canonical text, returned variable)
pub fn parse_mir(text: &str) -> Result<(Vec<String>, Vec<String>, String), String> {
    let start = text.find("fn pkg.main(").ok_or("no main in the MIR")?;
    let body = &text[start..];
    let end = body.find("\n}").unwrap_or(body.len());
    let body = &body[..end];
    let mut in_entry = false;
    let mut instrs = vec![];
    let mut shown = vec![];
    let mut ret = None;
    for line in body.lines() {
        let t = line.trim();
        if t.is_empty() {
            continue;
        }
        if !in_entry {
            if t == "$entry:" {
                in_entry = true;
            }
            continue;
        }
        if t.ends_with(':') && !t.contains(" = ") {
            return Err(format!("a second basic block `{t}` (outside the straight-line core)"));
        }
        if t.starts_with("drop[") {
            continue;
        }
        if let Some(v) = t.strip_prefix("return ") {
            ret = Some(parse_var(v.trim()).ok_or(format!("return of `{v}`"))?);
            continue;
        }
        let (lhs, rhs) = t.rsplit_once(" = ").ok_or(format!("unreadable instruction `{t}`"))?;
        let (place, _ty) = lhs.split_once(": ").ok_or(format!("unreadable target `{lhs}`"))?;
        let place = parse_place(place).ok_or(format!("unreadable place `{place}`"))?;
        let (val, val_shown) = if let Some(p) = rhs.strip_prefix("clone(").and_then(|r| r.strip_suffix(')')) {
            let p = parse_place(p).ok_or(format!("unreadable place `{p}`"))?;
            (format!("cl {}", place_tokens(&p)), format!("clone({})", show_place(&p)))
        } else if let Some(v) = rhs.strip_prefix("move(").and_then(|r| r.strip_suffix(')')) {
            let v = parse_var(v).ok_or(format!("unreadable variable `{v}`"))?;
            (format!("m {v}"), format!("move({})", show_var(&v)))
        } else if let Some(n) = rhs.strip_prefix("u32(").and_then(|r| r.strip_suffix(')')) {
            let n: i64 = n.parse().map_err(|_| format!("unreadable literal `{n}`"))?;
            (format!("c i {n}"), format!("const {n}"))
        } else if rhs == "()(())" {
            ("c t 0".to_string(), "const ()".to_string())
        } else if let Some((a, b)) = rhs.split_once(" +(u32) ") {
            let a = parse_var(a).ok_or(format!("unreadable variable `{a}`"))?;
            let b = parse_var(b).ok_or(format!("unreadable variable `{b}`"))?;
            (format!("ad {a} {b}"), format!("{}+{}", show_var(&a), show_var(&b)))
        } else {
            return Err(format!("value `{rhs}` is outside the core"));
        };
        instrs.push(format!("{} {val}", place_tokens(&place)));
        shown.push(format!("{}={val_shown}", show_place(&place)));
    }
    let ret = ret.ok_or("no return")?;
    Ok((instrs, shown, ret))
}

fn field<'a>(answer: &'a str, key: &str) -> &'a str {
    answer.split(';').find_map(|kv| kv.strip_prefix(key)).unwrap_or("")
}

pub fn run_case(pr: &Prog, script: &str, origin: (u64, u64), rt: &Runtime<NoCtx>, drv: &mut Driver, rep: &mut Report) {
    rep.evaluations += 1;
    let input = |extra: Value| json!({"kind": "ctor", "script": script, "seed": origin.0, "index": origin.1, "detail": extra});
    let lowered = std::panic::catch_unwind(std::panic::AssertUnwindSafe(|| {
        roto::verif_hooks::core::lower_to_mir(FileTree::test_file("c02.roto", script, 0), rt).map(|m| m.text())
    }));
    let text = match lowered {
        Err(_) => {
            crate::viol(rep, "lowering a well-typed constructor script to MIR panics the compiler", "compile-panic mir", input(json!(null)));
            return;
        }
        Ok(Err(e)) => {
            let msg = crate::strip_ansi(&format!("{e}")).lines().take(8).collect::<Vec<_>>().join(" / ");
            crate::viol(rep, &format!("the compiler rejects a well-typed script: {msg}"), "rejected-well-typed", input(json!(msg)));
            return;
        }
        Ok(Ok(t)) => t,
    };
    let (instrs, shown, ret) = match parse_mir(&text) {
        Ok(x) => x,
        Err(m) => {
            // the MIR left the instruction set the model gives a meaning to: the tie is broken
            rep.mismatch("the MIR of a constructor script uses something the Lean MIR semantics has no meaning for", input(json!({"why": m, "mir": text})));
            return;
        }
    };
    let mut e = vec![];
    expr_tokens(&pr.e, &mut e);
    let mut all_ok = true;
    let mut same_shape = false;
    for (base, step) in [(1000i64, 1000i64), (7, 13)] {
        let mut st = vec![pr.params.len().to_string()];
        let mut next = base;
        for p in &pr.params {
            value_tokens(p, &mut next, step, &mut st);
        }
        let req = format!("c02 ctor {} {} {ret} {} {}", e.join(" "), st.join(" "), instrs.len(), instrs.join(" "));
        let ans = drv.ask(req.trim_end());
        if ans.starts_with("bad") {
            rep.mismatch("the Lean driver rejected a constructor request", input(json!({"request": req, "answer": ans})));
            return;
        }
        let (spec, real) = (field(&ans, "spec="), field(&ans, "real="));
        if spec != real {
            all_ok = false;
            crate::viol(
                rep,
                "the MIR the lowerer emits for a constructor does not compute what value semantics prescribes: a component does not hold the value its expression had when it was evaluated (left to right), or a write went elsewhere",
                "value-semantics-mir",
                input(json!({"store_leaves": [base, step], "spec_value_and_store": spec, "mir_value_and_store": real, "mir": shown, "statement_kinds": pr.sig})),
            );
            break;
        }
        same_shape = field(&ans, "model=") == shown.join(",") && field(&ans, "ret=") == show_var(&ret);
    }
    if all_ok {
        rep.class(format!("ctor {}", pr.sig));
        rep.hist("ctor_lowering_shape", if same_shape { "model lowering = real MIR, instruction for instruction" } else { "differs (same values)" });
        if rep.samples.len() < 2 && script.len() < 600 {
            rep.sample(json!({"script": script, "mir": shown}));
        }
    }
}

// ------------------------------------------------------------ generator

struct Gen<'a> {
    p: &'a mut Prng,
    params: Vec<Sh>,
    kinds: std::collections::BTreeSet<&'static str>,
}

fn gen_shape(p: &mut Prng, depth: u32) -> Sh {
    if depth == 0 || p.chance(1, 3) {
        return Sh::Int;
    }
    let n = 1 + p.below(3) as usize;
    Sh::Rec((0..n).map(|_| gen_shape(p, depth - 1)).collect())
}

fn reads(e: &CE, out: &mut Vec<(usize, Vec<usize>)>) {
    match e {
        CE::Read(x, p) => out.push((*x, p.clone())),
        CE::Ctor(cs, _) => cs.iter().for_each(|c| reads(c, out)),
        CE::Add(a, b) => {
            reads(a, out);
            reads(b, out);
        }
        CE::Blk(_, _, _, rest, _) => reads(rest, out),
        CE::Lit(_) => {}
    }
}

impl Gen<'_> {
    fn places_of(&self, sh: &Sh) -> Vec<(usize, Vec<usize>)> {
        let mut out = vec![];
        for (x, ps) in self.params.iter().enumerate() {
            for (p, s) in paths(ps) {
                if &s == sh {
                    out.push((x, p));
                }
            }
        }
        out
    }

    /// a write to variable `x`: the whole variable, a field path, `+=` on an integer leaf
    fn write(&mut self, x: usize, rest: CE, depth: u32) -> CE {
        let ps = paths(&self.params[x]);
        let (p, sh) = self.p.pick(&ps).clone();
        if sh == Sh::Int && self.p.chance(1, 3) {
            self.kinds.insert("compound-assign");
            let inc = CE::Lit(1 + self.p.below(9) as i64);
            return CE::Blk(x, p.clone(), Box::new(CE::Add(Box::new(CE::Read(x, p)), Box::new(inc))), Box::new(rest), true);
        }
        self.kinds.insert(if p.is_empty() { "assign-variable" } else if p.len() == 1 { "assign-field" } else { "assign-nested-field" });
        let rhs = self.expr(&sh, depth.saturating_sub(1));
        CE::Blk(x, p, Box::new(rhs), Box::new(rest), false)
    }

    fn expr(&mut self, sh: &Sh, depth: u32) -> CE {
        let places = self.places_of(sh);
        if !places.is_empty() && self.p.chance(if depth == 0 { 3 } else { 2 }, 5) {
            let (x, p) = self.p.pick(&places).clone();
            self.kinds.insert(match (p.len(), sh) {
                (0, Sh::Int) => "read-variable",
                (0, _) => "read-whole-record",
                (1, Sh::Int) => "read-field",
                (_, Sh::Int) => "read-nested-field",
                _ => "read-sub-record",
            });
            return CE::Read(x, p);
        }
        if depth > 0 && self.p.chance(1, 6) {
            // a block anywhere
            let x = self.p.below(self.params.len() as u64) as usize;
            let rest = self.expr(sh, depth - 1);
            self.kinds.insert("block");
            return self.write(x, rest, depth);
        }
        match sh {
            Sh::Int => {
                if depth > 0 && self.p.chance(1, 3) {
                    let a = self.expr(&Sh::Int, depth - 1);
                    let mut b = self.expr(&Sh::Int, depth - 1);
                    b = self.later_writes(std::slice::from_ref(&a), b, depth);
                    self.kinds.insert("add");
                    CE::Add(Box::new(a), Box::new(b))
                } else {
                    self.kinds.insert("literal");
                    CE::Lit(self.p.below(500) as i64)
                }
            }
            Sh::Rec(fs) => {
                let mut cs: Vec<CE> = vec![];
                for f in fs {
                    let c = self.expr(f, depth.saturating_sub(1));
                    let c = if cs.is_empty() { c } else { self.later_writes(&cs, c, depth) };
                    cs.push(c);
                }
                let anon = self.p.chance(1, 5);
                self.kinds.insert(if anon { "anonymous-literal" } else { "record-literal" });
                CE::Ctor(cs, anon)
            }
        }
    }

    /// sometimes: the later component first writes to a variable an earlier one read
    fn later_writes(&mut self, earlier: &[CE], later: CE, depth: u32) -> CE {
        if !self.p.chance(1, 2) {
            return later;
        }
        let mut rd = vec![];
        for e in earlier {
            reads(e, &mut rd);
        }
        let x = if !rd.is_empty() && self.p.chance(4, 5) {
            self.p.pick(&rd).0
        } else {
            self.p.below(self.params.len() as u64) as usize
        };
        self.kinds.insert("later-component-writes");
        self.write(x, later, depth)
    }
}

pub fn gen_prog(seed: u64, idx: u64) -> Prog {
    let mut p = Prng::for_case(seed ^ 0xC02_C702, idx);
    let n = 1 + p.below(3) as usize;
    let params: Vec<Sh> = (0..n).map(|_| gen_shape(&mut p, 2)).collect();
    let result = if p.chance(1, 3) { p.pick(&params).clone() } else { gen_shape(&mut p, 2) };
    let mut g = Gen { p: &mut p, params, kinds: Default::default() };
    let e = g.expr(&result, 3);
    let sig = g.kinds.iter().copied().collect::<Vec<_>>().join("+");
    Prog { params: g.params, result, e, sig }
}

// ------------------------------------------------------------ class representatives

/// constructor kind x earlier component x later write, over `x0: u32, x1: P, x2: N`
/// (`P = { u32, u32 }`, `N = { P, u32 }`)
pub fn rep_progs() -> Vec<Prog> {
    let pt = Sh::Rec(vec![Sh::Int, Sh::Int]);
    let nt = Sh::Rec(vec![pt.clone(), Sh::Int]);
    let params = vec![Sh::Int, pt.clone(), nt.clone()];
    // (name, earlier component, its shape, the variable a write reaches it through)
    let earlier: Vec<(&str, CE, Sh, usize)> = vec![
        ("variable", CE::Read(0, vec![]), Sh::Int, 0),
        ("field", CE::Read(1, vec![0]), Sh::Int, 1),
        ("nested-field", CE::Read(2, vec![0, 1]), Sh::Int, 2),
        ("literal", CE::Lit(7), Sh::Int, 0),
        ("whole-record", CE::Read(1, vec![]), pt.clone(), 1),
        ("sub-record", CE::Read(2, vec![0]), pt.clone(), 2),
    ];
    let lit_p = || CE::Ctor(vec![CE::Lit(50), CE::Lit(60)], false);
    let lit_n = || CE::Ctor(vec![CE::Ctor(vec![CE::Lit(51), CE::Lit(61)], false), CE::Lit(70)], false);
    let inc = |x: usize, p: Vec<usize>| CE::Add(Box::new(CE::Read(x, p)), Box::new(CE::Lit(1)));
    // the writes that reach variable x: (name, path, rhs, compound)
    let writes = |x: usize| -> Vec<(&'static str, Vec<usize>, CE, bool)> {
        match x {
            0 => vec![("assign-variable", vec![], CE::Lit(9), false), ("compound-assign", vec![], inc(0, vec![]), true)],
            1 => vec![
                ("assign-variable", vec![], lit_p(), false),
                ("assign-field", vec![0], CE::Lit(99), false),
                ("compound-assign", vec![0], inc(1, vec![0]), true),
            ],
            _ => vec![
                ("assign-variable", vec![], lit_n(), false),
                ("assign-field", vec![0], lit_p(), false),
                ("assign-nested-field", vec![0, 1], CE::Lit(99), false),
                ("compound-assign", vec![0, 1], inc(2, vec![0, 1]), true),
            ],
        }
    };
    let mut out = vec![];
    for (en, early, esh, x) in &earlier {
        for (wn, path, rhs, compound) in writes(*x) {
            let late = |rest: CE| CE::Blk(*x, path.clone(), Box::new(rhs.clone()), Box::new(rest), compound);
            let mut ctors: Vec<(&str, Sh, CE)> = vec![
                ("record", Sh::Rec(vec![esh.clone(), Sh::Int]), CE::Ctor(vec![early.clone(), late(CE::Lit(1))], false)),
                ("anonymous-as-named", Sh::Rec(vec![esh.clone(), Sh::Int]), CE::Ctor(vec![early.clone(), late(CE::Lit(1))], true)),
                (
                    "record-three",
                    Sh::Rec(vec![esh.clone(), Sh::Int, esh.clone()]),
                    CE::Ctor(vec![early.clone(), late(CE::Lit(1)), early.clone()], false),
                ),
                (
                    "nested-record",
                    Sh::Rec(vec![Sh::Rec(vec![esh.clone()]), Sh::Int]),
                    CE::Ctor(vec![CE::Ctor(vec![early.clone()], false), late(CE::Lit(1))], false),
                ),
            ];
            if *esh == Sh::Int {
                ctors.push(("add", Sh::Int, CE::Add(Box::new(early.clone()), Box::new(late(early.clone())))));
            }
            for (cn, sh, e) in ctors {
                out.push(Prog {
                    params: params.clone(),
                    result: sh,
                    e,
                    sig: format!("representative+ctor:{cn}+early:{en}+{wn}"),
                });
            }
        }
    }
    out
}

pub fn n_reps() -> u64 {
    rep_progs().len() as u64
}

pub fn worker(seed: u64, base: u64, from: u64, n: u64, reps: bool) {
    std::panic::set_hook(Box::new(|_| {}));
    let rt = crate::layout_runtime();
    let mut drv = Driver::spawn().expect("driver");
    let mut rep = Report::default();
    crate::start_watchdog(10);
    let fixed = if reps { rep_progs() } else { vec![] };
    for idx in from..from + n {
        println!("START {idx}");
        crate::case_begins();
        let pr = if reps {
            let i = (base + idx) as usize;
            Prog { params: fixed[i].params.clone(), result: fixed[i].result.clone(), e: fixed[i].e.clone(), sig: fixed[i].sig.clone() }
        } else {
            gen_prog(seed, base + idx)
        };
        let script = source(&pr);
        run_case(&pr, &script, (seed, base + idx), &rt, &mut drv, &mut rep);
    }
    rep.emit();
}

/// a replayed failing input: the script is lowered again and its MIR run against the spec
pub fn replay(v: &Value, rep: &mut Report) {
    std::panic::set_hook(Box::new(|_| {}));
    let script = v["script"].as_str().unwrap_or("");
    // the program is found again by its source text (representatives first, then by index)
    let find = || -> Option<Prog> {
        for pr in rep_progs() {
            if source(&pr) == script {
                return Some(pr);
            }
        }
        if let (Some(seed), Some(idx)) = (v["seed"].as_u64(), v["index"].as_u64()) {
            let pr = gen_prog(seed, idx);
            if source(&pr) == script {
                return Some(pr);
            }
        }
        None
    };
    match find() {
        Some(pr) => {
            let rt = crate::layout_runtime();
            let mut drv = Driver::spawn().expect("driver");
            run_case(&pr, script, (v["seed"].as_u64().unwrap_or(0), v["index"].as_u64().unwrap_or(0)), &rt, &mut drv, rep);
        }
        None => rep.notes.push("ctor replay: the program of this script is not reproducible from the input".into()),
    }
}
